#!/venv/bin/python
"""tools/seed_eval.py <Cxx> <patch.diff> <demo.py> [--tier quick] [--seeds 0,1] [--skip-suite]
Confirms a seeded change: (1) applies the patch to a scratch worktree of /repo HEAD, (2) demo exits 0 on /repo and !=0 on the
patched tree, (3) the pinned test-suite on the patched tree still passes every BASELINE stable_pass test, (4) runs ./check
<Cxx> against the patched tree (VERIF_REPO).  Prints a JSON summary.  The worktree is removed afterwards."""
import sys, os, subprocess, json, tempfile, shutil, argparse, xml.etree.ElementTree as ET
ap = argparse.ArgumentParser()
ap.add_argument("prop"); ap.add_argument("patch"); ap.add_argument("demo")
ap.add_argument("--tier", default="quick"); ap.add_argument("--seeds", default="0"); ap.add_argument("--skip-suite", action="store_true")
ap.add_argument("--props", default=None, help="comma list of checks to run (default: the property's own)")
a = ap.parse_args(); a.patch = os.path.abspath(a.patch); a.demo = os.path.abspath(a.demo)
out = {"prop": a.prop, "patch": a.patch}
d = tempfile.mkdtemp(prefix=f"ev-{a.prop}-", dir="/tmp"); os.rmdir(d)
subprocess.run(["git", "-C", "/repo", "worktree", "add", "-q", "--detach", d, "HEAD"], check=True)
try:
    r = subprocess.run(["git", "-C", d, "apply", a.patch], capture_output=True, text=True)
    out["applies"] = r.returncode == 0
    if r.returncode != 0:
        out["apply_error"] = r.stderr[-300:]; print(json.dumps(out, indent=1)); sys.exit(2)
    def demo(tree):
        try:
            p = subprocess.run(["/venv/bin/python", "-W", "ignore", a.demo], env=dict(os.environ, PYTHONPATH=tree), capture_output=True, text=True, timeout=900, cwd="/tmp")
            return p.returncode, (p.stdout + p.stderr)[-300:]
        except subprocess.TimeoutExpired: return "timeout", ""
    out["demo_unchanged_rc"], _ = demo("/repo")
    out["demo_patched_rc"], out["demo_patched_tail"] = demo(d)
    if not a.skip_suite:
        xml = os.path.join(d, "junit.xml")
        subprocess.run(["/venv/bin/python", "-m", "pytest", "-q", "-p", "no:cacheprovider", "--timeout=900", "--continue-on-collection-errors", f"--junitxml={xml}"],
                       cwd=d, env=dict(os.environ, PYTHONPATH=d), capture_output=True, text=True)
        base = set(json.load(open("/root/.vp/BASELINE.json"))["stable_pass"]); passed = set()
        for tc in ET.parse(xml).getroot().iter("testcase"):
            if not any(c.tag in ("failure", "error", "skipped") for c in tc): passed.add(f"{tc.get('classname')}::{tc.get('name')}")
        out["suite_missing"] = sorted(base - passed)[:10]
    out["checks"] = {}
    for prop in (a.props.split(",") if a.props else [a.prop]):
        for seed in a.seeds.split(","):
            r = subprocess.run(["./check", prop, "--tier", a.tier], cwd="/verif", env=dict(os.environ, VERIF_REPO=d, VERIF_SEED=seed), capture_output=True, text=True)
            lines = r.stdout.strip().splitlines()
            out["checks"][f"{prop}@{seed}"] = {"rc": r.returncode, "last": lines[-1] if lines else r.stderr[-200:],
                                               "sigs": [l.strip()[:160] for l in lines if l.strip().startswith("sig=")][:5]}
    print(json.dumps(out, indent=1))
finally:
    subprocess.run(["git", "-C", "/repo", "worktree", "remove", "--force", d], capture_output=True)
    shutil.rmtree(d, ignore_errors=True)
