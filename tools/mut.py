#!/venv/bin/python
"""Mutation helper:  tools/mut.py PROP relative/file.py 'old text' 'new text' [--tests test_file.py] [--tier quick] [--seed n]
Creates a scratch worktree of /repo HEAD under /tmp, applies the textual replacement (must match exactly once),
optionally runs the named coba unit-test file there, runs ./check PROP against it (VERIF_REPO) and removes the worktree."""
import sys, os, subprocess, tempfile, argparse, shutil
ap = argparse.ArgumentParser()
ap.add_argument("prop"); ap.add_argument("file"); ap.add_argument("old"); ap.add_argument("new")
ap.add_argument("--tests", default=None); ap.add_argument("--tier", default="quick"); ap.add_argument("--seed", default="0")
ap.add_argument("--count", type=int, default=1)
a = ap.parse_args()
d = tempfile.mkdtemp(prefix=f"mut-{a.prop}-", dir="/tmp"); os.rmdir(d)
subprocess.run(["git", "-C", "/repo", "worktree", "add", "-q", "--detach", d, "HEAD"], check=True)
try:
    p = os.path.join(d, a.file); s = open(p).read()
    if s.count(a.old) != a.count: print(f"MUT-ERROR: pattern occurs {s.count(a.old)} times"); sys.exit(3)
    open(p, "w").write(s.replace(a.old, a.new))
    if a.tests:
        r = subprocess.run(["/venv/bin/python", "-m", "pytest", "-q", "-p", "no:cacheprovider", "-x", "--timeout=600"] + [os.path.join("coba/tests", t) for t in a.tests.split(",")],
                           cwd=d, capture_output=True, text=True)
        print("UNIT-TESTS:", r.stdout.strip().splitlines()[-1] if r.stdout.strip() else r.stderr[-300:])
    env = dict(os.environ, VERIF_REPO=d, VERIF_SEED=a.seed)
    r = subprocess.run(["./check", a.prop, "--tier", a.tier], cwd="/verif", env=env, capture_output=True, text=True)
    lines = r.stdout.strip().splitlines()
    sigs = [l.strip()[:230] for l in lines if l.strip().startswith("sig=")]
    print(f"CHECK rc={r.returncode}: {lines[-1] if lines else r.stderr[-300:]}")
    for s_ in sigs[:6]: print("   ", s_)
finally:
    subprocess.run(["git", "-C", "/repo", "worktree", "remove", "--force", d])
    shutil.rmtree(d, ignore_errors=True)
