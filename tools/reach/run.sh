#!/bin/bash
# tools/reach/run.sh <Cxx> [outdir]: line coverage of /repo/coba (tests excluded) by one check's quick tier, measured in every
# process the check starts (coverage.process_startup through a sitecustomize on PYTHONPATH).  Writes <outdir>/<Cxx>.json
# (coverage json report); tools/reach/rep.py <Cxx> <outdir> <file-suffix>... lists the functions of the anchored files with
# lines the check never executed.  A reach map, not a verdict: it shows where a change could not be noticed by that check.
set -u
HERE="$(cd "$(dirname "${BASH_SOURCE[0]}")" && pwd)"; VERIF="$(cd "$HERE/../.." && pwd)"
p=$1; out=${2:-$(mktemp -d)}; mkdir -p "$out/data-$p"
cat > "$out/rc-$p" <<RC
[run]
parallel = True
data_file = $out/data-$p/.coverage
source = ${VERIF_REPO:-/repo}/coba
omit = */tests/*
sigterm = True
[report]
omit = */tests/*
RC
(cd "$VERIF" && COVERAGE_PROCESS_START="$out/rc-$p" PYTHONPATH="$HERE/site" ./check "$p" --tier quick 2>&1 | tail -2)
(cd "$out/data-$p" && /venv/bin/python -m coverage combine --rcfile="$out/rc-$p" -q . >/dev/null 2>&1; /venv/bin/python -m coverage json --rcfile="$out/rc-$p" -q -o "$out/$p.json" 2>/dev/null)
rm -rf "$out/data-$p"; echo "reach map: $out/$p.json"
