import json,sys,ast,os
p=sys.argv[1]; files=sys.argv[3:]
d=json.load(open(f'{sys.argv[2]}/{p}.json'))['files']
for f,v in d.items():
    if files and not any(f.endswith(x) for x in files): continue
    miss=v['missing_lines']; 
    if not miss: continue
    src=open(f).read(); tree=ast.parse(src); lines=src.splitlines()
    funcs=[]
    for n in ast.walk(tree):
        if isinstance(n,(ast.FunctionDef,ast.AsyncFunctionDef)): funcs.append((n.lineno,n.end_lineno,n.name))
    print(f"## {f}  {v['summary']['percent_covered']:.0f}%  missing {len(miss)}")
    by={}
    for m in miss:
        cands=[fn for fn in funcs if fn[0]<=m<=fn[1]]
        fn=max(cands,key=lambda x:x[0]) if cands else (0,0,'<module>')
        by.setdefault(fn,[]).append(m)
    for fn,ms in sorted(by.items()):
        print(f"  {fn[2]}@{fn[0]}: {ms if len(ms)<=12 else str(ms[:12])+'...'+str(len(ms))}")
