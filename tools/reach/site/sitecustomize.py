try:
    import coverage; coverage.process_startup()
except Exception: pass
