#!/usr/bin/env bash
# Runs the repository's pinned test-suite with the hook guard OFF and compares the passing set
# with /root/.vp/BASELINE.json (stable_pass).  exit 0 iff every stable_pass test still passes.
unset COBA_VERIF
OUT="$(mktemp -d)"
cd /repo && /venv/bin/python -m pytest -ra -q -p no:cacheprovider --timeout=900 --continue-on-collection-errors --junitxml="$OUT/j.xml" >"$OUT/log" 2>&1
/venv/bin/python - "$OUT/j.xml" <<'PY'
import sys, json, xml.etree.ElementTree as ET
base = set(json.load(open('/root/.vp/BASELINE.json'))['stable_pass'])
passed = set()
for tc in ET.parse(sys.argv[1]).getroot().iter('testcase'):
    if not any(c.tag in ('failure','error','skipped') for c in tc):
        passed.add(f"{tc.get('classname')}::{tc.get('name')}")
missing = sorted(base - passed)
print(f"baseline stable_pass={len(base)} passed_now={len(passed)} missing={len(missing)}")
for m in missing[:40]: print("  MISSING", m)
sys.exit(1 if missing else 0)
PY
rc=$?
tail -3 "$OUT/log"
rm -rf "$OUT"
exit $rc
