#!/venv/bin/python
"""Regenerates /verif/MANIFEST.json from the table below + which vf/props/cXX.py modules exist.
A property whose module does not exist yet is listed under not_applicable with that reason."""
import json, os, subprocess, sys
HOME = os.path.dirname(os.path.dirname(os.path.abspath(__file__)))

CHECKS = {
 # id: (category, technique, level text, level note, design ref)
 "C01": ("exploration", "differential runtime monitoring: same experiment re-run under generated execution configurations (each multi-process configuration in its own interpreter, one after an earlier multi-process run); canonical Result equality + seed/pid/arrival-order recorders",
         "Held on the generated experiments x configurations actually executed (multi-process runs really spawn workers; arrival orders and worker pids are recorded).",
         "only deterministic picklable components; timing columns excluded; processes<=6", "3/C01"),
 "C02": ("fault_enumeration", "crash-point enumeration over byte-prefixes of real transaction logs; resumed run monitored by evaluation recorders and compared with the uninterrupted Result",
         "Every record boundary and (for small logs every, otherwise sampled) intra-record byte of real logs is replayed as a crash point against the real Experiment.run.",
         "a killed run leaves a byte-prefix of the log (validated by real SIGKILL runs); single writer", "3/C02"),
 "C03": ("exploration", "differential monitoring with stateful recording learners: rows of each triple inside a multi-triple experiment vs a solo pristine run (in-process, and in fresh interpreters for sampled cases), permuted order, sampled multi-process configurations; fault injection at params/read/predict/learn/evaluate",
         "Held on the generated sharing patterns / failure positions executed.", "deterministic picklable components", "3/C03"),
 "C04": ("exploration", "read-history checker on real environment pipelines (full/partial reads, params, materialize/cache/chunk/pickle/save) with deep snapshots of caller-owned data",
         "Held on the generated pipelines x histories executed.", "seed=None filters and optional-package filters excluded", "3/C04"),
 "C05": ("exploration", "icontract postconditions on the real CobaRandom methods + metamorphic replay under interleaving + adversarial LCG states by inversion (+ full-period sweep in thorough)",
         "Contracts observed on every generated call incl. constructed boundary states (uniform 0.0 / largest uniform at each consumed position); thorough sweeps all 2^30 states for the default-argument methods.",
         "bounds within the property's stated magnitudes; seed=None excluded", "3/C05"),
 "C06": ("exploration", "call-trace monitor: recording learner + sequential reference model of SequentialCB over generated environments, modes and record subsets",
         "Held on the generated evaluations executed.", "dr/dm modes need vowpalwabbit and are excluded", "3/C06"),
 "C07": ("exploration", "recording evaluators/components; table rows vs yielded rows under the documented normalisation; three-way Result equality (no file / file / from_file)",
         "Held on the generated row shapes executed.", "keys colliding after str(), id column names and registered reward-state names are not generated", "3/C07"),
 "C08": ("exploration", "unique-id exactly-once history checker over real spawn-ed Multiprocessor runs with seeded delay injection and sys.monitoring LINE/INSTRUCTION yield injection, targeted schedules (finish-together, loader-finishes-during-replacement), pid quota monitor, exception contract over several exception types, object re-use, outputs larger than a pipe buffer with a pausing caller, re-use of one object after an abandoned call, logical deadlock-state inspector (four shapes)",
         "Held on the runs/interleavings actually produced (distinct lineage traces counted).", "outputs never None (poison pill by design); picklable items", "3/C08"),
 "C09": ("exploration", "per-filter reference models + unique-id content preservation on the real filters",
         "Held on the generated filter applications executed.", "which permutation a seed yields is not asserted", "3/C09"),
 "C10": ("exploration", "relational postcondition monitor: index-wise reward vector before == after on every output interaction of real representation filter chains",
         "Held on the generated interactions x chains executed.", "reward noise excluded; colliding hashed actions discarded and counted", "3/C10"),
 "C11": ("exploration", "exact-arithmetic reference monitor on the fitting window + cross-representation agreement for the real Scale/Impute",
         "Held on the generated cases executed.", "degenerate denominators only checked for finiteness", "3/C11"),
 "C12": ("exploration", "writer->real reader round-trip monitor, dialect fuzzer ('same table or error'), exhaustive chunk sizes per text for _byte_it_, DiskSink->DiskSource round-trip",
         "Held on the generated tables/texts executed; chunk sizes exhaustive per text.", "format-inherent lossy values excluded", "3/C12"),
 "C13": ("exploration", "eager list/dict model vs real lazy rows under generated access scripts in two orders",
         "Held on the generated pipelines x access scripts executed.", "only keys valid in the eager model are accessed", "3/C13"),
 "C14": ("exploration", "per-interaction postconditions computed from the generated example set, incl. file end-to-end and cross-PYTHONHASHSEED children",
         "Held on the generated example sets executed.", "labels mutually orderable", "3/C14"),
 "C15": ("exploration", "systematic enumeration of the prediction-format grid through the real SafeLearner with a scripted learner; oracle from the statement",
         "Every cell of the format x kwargs x batching x action-kind x size grid that the tier enumerates is executed.", "learner consistent in its format; hints where ambiguous", "3/C15"),
 "C16": ("exploration", "icontract ensure/invariant on the real learner classes over generated histories + step-bounded termination monitor",
         "Held on the generated histories executed.", "rewards in [0,1] for Corral; T>1; logged probabilities in [1e-6,1] and, in one class of Corral histories, down to 1e-30 (open finding: the root search breaks down below 1e-11)", "3/C16"),
 "C17": ("exploration", "model-based history checker: real Table vs list-of-dicts scan model after every operation + icontract postconditions on Table.index/insert",
         "Held on the generated operation histories executed (counts in evidence).",
         "ordering comparisons on Missing cells checked differentially only; None-bearing columns never indexed", "3/C17"),
 "C18": ("exploration", "reference recomputation of where_fin/raw_learners/moving_average + referential-integrity invariant on every Result produced",
         "Held on the generated Results x queries executed.", "l and p always given explicitly", "3/C18"),
 "C19": ("exploration", "invariants at injected hooks (our lock/array/inner cacher/time) under a seeded controlled scheduler (random walk + PCT) driving the real ConcurrentCacher; quiescence + deadlock rules; DiskCacher failure/cut enumeration; real-thread yield injection; multi-process event-log checker; the cacher CobaMultiprocessor builds, with real workers; the real OpenML client (OpenmlSource) over the shared cache with a canned fault-injecting HTTP source: request-count, complete-table-or-exception, lock-quiescence and recovery monitors",
         "Held on the distinct schedules executed (trace hashes counted) at the quantifier's granularity.", "one caller never nests get_set on colliding keys", "3/C19"),
 "C20": ("exploration", "prime-valued inputs through the real InteractionsEncoder vs combinations-with-replacement reference; term lists enumerated up to a degree bound",
         "Held on the enumerated term lists x generated inputs executed.", "order within a term not asserted", "3/C20"),
}

def main():
    # only ids listed in tools/claimed.txt (one per line) are claimed: a module that exists but is not yet validated is held back
    claimed = {l.strip() for l in open(os.path.join(HOME, "tools", "claimed.txt")) if l.strip() and not l.startswith("#")}
    built = sorted(p for p in CHECKS if p in claimed and os.path.exists(os.path.join(HOME, "vf", "props", p.lower() + ".py")))
    skip = set(sys.argv[1:])
    try:
        commits = subprocess.run(["git", "-C", "/repo", "log", "--format=%h %s"], capture_output=True, text=True).stdout.splitlines()
    except Exception:
        commits = []
    hook_commits = [c.split()[0] for c in commits if c.split(" ", 1)[1].startswith("verif-hook:")]
    checks, na = [], []
    for p in sorted(CHECKS):
        cat, tech, text, note, ref = CHECKS[p]
        if p in built and p not in skip:
            checks.append({"property_id": p, "quick_cmd": f"./check {p} --tier quick", "thorough_cmd": f"./check {p} --tier thorough",
                           "evidence_file": f"/verif/evidence/{p}.json", "replay_cmd_template": f"./check {p} --replay {{path}}",
                           "engine": "vf", "level_claimed": {"category": cat, "text": text, "design_ref": f"DESIGN.md section {ref}"},
                           "level_note": note, "technique": "runtime monitoring: " + tech})
        else:
            na.append({"property_id": p, "reason": "runtime monitoring applies (see DESIGN.md section %s) but the check is not built/validated yet in this round; not claimed until it is" % ref})
    m = {"version": 1,
         "setup_cmd": "mkdir -p .deps evidence replays && PIP_NO_INDEX=1 /venv/bin/python -m pip install -q --no-index --find-links /opt/veriftools/wheels --target .deps icontract",
         "hooks": {"guard": "COBA_VERIF", "enable": "no source hooks are needed so far: monitors are attached from outside (icontract re-binding, injected collaborators, sys.monitoring); ./check exports COBA_VERIF=1 for future guarded hooks",
                   "baseline_off_cmd": "/verif/tools/baseline_off.sh", "source_commits": hook_commits, "add_only": True},
         "engines": [{"name": "vf", "path": "/verif/vf", "serves_properties": [c["property_id"] for c in checks],
                      "kind_free_text": "python runtime-monitoring harness: seeded generators, icontract contracts on the real classes, recording components, reference-model history checkers, schedule perturbation; sharded subprocess runner with three-valued verdicts"}],
         "checks": checks,
         "not_applicable": na,
         "notes": "exit 0 held / 1 VIOLATION / 2 INCONCLUSIVE (a deciding monitor observed nothing). known findings: /verif/known_findings.txt. VERIF_SEED and VERIF_TIER honoured."}
    with open(os.path.join(HOME, "MANIFEST.json"), "w") as f:
        json.dump(m, f, indent=1)
    print("claimed:", [c["property_id"] for c in checks]); print("not claimed:", [n["property_id"] for n in na])

if __name__ == "__main__":
    main()
