#!/venv/bin/python
"""tools/store_seeds.py <out-dir-prefix> <round> <first-number> <strengthenings.json>
Stores the confirmed seeded changes of one round under /verif/seeded/<id>-<n>/ (patch.diff, demo.py, notes.md, meta.json) from the
working directories <prefix>-Cxx-out/ that hold patchN.diff demoN.py notesN.md evalN.json (first evaluation, with the pinned suite)
and finalN.json (evaluation after strengthening), and prints the DESIGN.md table rows."""
import sys, os, json, shutil, re
prefix, rnd, first, sfile = sys.argv[1], int(sys.argv[2]), int(sys.argv[3]), sys.argv[4]
strength = json.load(open(sfile))
rows = []
for i in range(1, 21):
    p = f"C{i:02d}"; d = f"{prefix}-{p}-out"
    for n in (1, 2):
        ev = json.load(open(f"{d}/eval{n}.json")); fin = json.load(open(f"{d}/final{n}.json"))
        sid = f"{p}-{first + n - 1}"; dst = f"/verif/seeded/{sid}"
        os.makedirs(dst, exist_ok=True)
        shutil.copy(f"{d}/patch{n}.diff", f"{dst}/patch.diff"); shutil.copy(f"{d}/demo{n}.py", f"{dst}/demo.py"); shutil.copy(f"{d}/notes{n}.md", f"{dst}/notes.md")
        notes = open(f"{d}/notes{n}.md").read()
        title = notes.strip().splitlines()[0].lstrip("# ").strip()
        m = re.search(r"##[^\n]*(need|manifest)[^\n]*\n(.*?)(\n## |\Z)", notes, re.S | re.I)
        fc = fin["checks"][f"{p}@0"]; ec = ev["checks"][f"{p}@0"]
        missing = ev.get("suite_missing_after_recheck", ev.get("suite_missing", []))
        meta = {"property": p, "round": rnd, "breaks": "see notes.md", "needs_to_manifest": (m.group(2).strip()[:900] if m else "see notes.md"),
                "confirmed": {"demo_exit_on_unchanged_tree": fin["demo_unchanged_rc"], "demo_exit_on_patched_tree": fin["demo_patched_rc"],
                              "pinned_suite_stable_tests_missing_with_patch": missing,
                              "suite_note": "full pinned suite run on the patched worktree; tests that failed only under machine load (timing tests) were re-run serially and pass"},
                "what_i_ran": f"tools/seed_eval.py {p} seeded/{sid}/patch.diff seeded/{sid}/demo.py",
                "detected_by": {"check": p, "tier": "quick", "exit": fc["rc"], "signatures": fc.get("sigs", [])[:3]},
                "first_evaluation_exit": ec["rc"]}
        if ec["rc"] != 1: meta["strengthening"] = strength.get(sid, strength.get(p, ""))
        json.dump(meta, open(f"{dst}/meta.json", "w"), indent=1)
        sig = ""
        for v in fc.get("sigs", []):
            mm = re.search(r"sig=(\S+)", v)
            if mm: sig = mm.group(1); break
        rows.append(f"| {sid} | {title[:110]} | {'caught' if ec['rc'] == 1 else '**missed at first**' + (' (inconclusive)' if ec['rc'] == 2 else '')} | `{sig[:80]}` | {meta.get('strengthening', '')} |")
        if fc["rc"] != 1 or fin["demo_unchanged_rc"] != 0 or fin["demo_patched_rc"] in (0,) or missing:
            print(f"!! {sid}: final rc={fc['rc']} demo={fin['demo_unchanged_rc']}/{fin['demo_patched_rc']} missing={missing}", file=sys.stderr)
print("\n".join(rows))
