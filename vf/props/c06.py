"""C06 -- SequentialCB feeds and records exactly what the environment provides.

Call-trace checker: a recording learner whose policy is scripted *by index* ("at the t-th prediction choose the
j_t-th offered action, state probability p_t, return kwargs k_t") is evaluated by the real
coba.evaluators.SequentialCB on a generated environment.  The recorded call trace (every predict / learn / score
argument tuple, per item when batched) and the rows yielded by evaluate() are compared with a small sequential
reference model written from the documented semantics.  Expected rewards are looked up in the *original*
interaction by position, so the oracle never re-implements Finalize / Repr / OpeRewards.  Batched runs are also
compared row-for-row with the unbatched run of the same data; environments lacking a field the mode reads must be
rejected with an error.  Unbatched environments may be ragged in the keys coba's own interaction classes leave out per
interaction (the logged 'probability', extra fields): the IPS transform is reward/probability of *that* interaction
(absent probability = no re-weighting) and a row carries exactly the extra fields of its own interaction.
In part of the cases one SequentialCB object serves several evaluate() calls (other learner kind, a field missing,
batched or not) before the checked ones: every call is held to the same model, and a deviation that a new evaluator
object does not show is reported as `evaluator-reused/...`.
"""
import re, math, traceback

ID    = "C06"
LEVEL = "exploration"
RULE  = ("seeded environments (context absent/None/scalar/dense/sparse/categorical/lazy; int/float/str/dense/sparse/"
         "categorical/continuous actions, plus 'exact-identity' action sets -- ints beyond 2**53 (adjacent ids, beyond int64), "
         "floats one ulp apart / denormal / huge, near-twin strings (case, blanks, numerals, unicode forms), tuples of those, "
         "and sets mixing numbers, numerals and big ints -- whose members a lossy conversion would alter or merge; values "
         "beyond float precision also inside contexts, extra fields and table rewards; list, Discrete (pair+mapping), Binary, L1, user-callable rewards; logged "
         "fields; extra fields; Batch(n)) x learn in {on,off,ips,None} x eval in {on,ips,None} x any subset of the 7 "
         "record options x scripted recording learner (8 prediction formats, with/without score, batch-aware or not); "
         "a case is one evaluate() call checked against the reference model (+ its unbatched twin, + one rejection run "
         "per readable field); unbatched environments may have ragged key sets (logged 'probability' and extra fields "
         "present on some interactions and absent on others, at any position incl. the first); rewards sequences are lists "
         "or tuples; sparse actions are also answered bare (the offered dict itself, 1-3 features); in ~30% of the cases "
         "the SequentialCB object has served 1-2 other evaluate() calls before (same data with a learner with/without "
         "`score`, with one field removed, batched or not) and then serves the main, twin and rejection runs; "
         "distinct & non-trivial = distinct (learn, eval, record set, context kind, action kind, "
         "reward kind, logged?, prediction format, score?, batch class, learner style, ragged probability?, ragged extras?, "
         "number of earlier evaluate() calls of the evaluator object) "
         "with >= 2 interactions")
PLAN  = {"quick":    {"shards": 16, "cases": 64000,   "timeout": 600,  "budget_s": 75},
         "thorough": {"shards": 16, "cases": 3200000, "timeout": 3000, "budget_s": 840}}
REQUIRED = ["oracle.trace.order", "oracle.trace.predict", "oracle.trace.learn.on", "oracle.trace.learn.off",
            "oracle.trace.learn.ips", "oracle.rows.count", "oracle.rows.reward.on", "oracle.rows.reward.ips.predict",
            "oracle.rows.reward.ips.score", "oracle.rows.action", "oracle.rows.probability", "oracle.rows.extras",
            "oracle.rows.no-unrequested", "oracle.rows.context", "oracle.rows.actions", "oracle.rows.rewards",
            "oracle.rows.time", "oracle.metamorphic.batched==unbatched", "oracle.reject", "oracle.trace.batched",
            "oracle.ragged.ips-reward.learn", "oracle.ragged.ips-reward.rows.predict", "oracle.ragged.ips-reward.rows.score",
            "oracle.ragged.extras.present", "oracle.ragged.extras.absent"] + [
            f"oracle.exact.predict-actions:{k}" for k in ("bigint", "nearfloat", "nearstr", "bigtuple", "mixed")] + [
            "oracle.exact.learn-action", "oracle.exact.rows-action", "oracle.exact.rows-actions",
            "oracle.exact.reward.learn", "oracle.exact.reward.rows",
            "oracle.reuse.prior", "oracle.reuse.prior.other-kind-of-learner", "oracle.reuse.prior.field-missing",
            "oracle.reuse.reject", "oracle.reuse.lenient==fresh", "oracle.reject.actions-needed-to-record-the-prediction",
            "oracle.input.bare-sparse-action", "oracle.input.tuple-rewards"]
ASSUMPTIONS = [
    "dr/dm modes and record='ope_loss' need vowpalwabbit and are excluded",
    "context / actions / rewards / action / reward are present on every interaction of an environment or on none (coba's "
    "own interaction classes always set them); the keys those classes produce raggedly -- the logged 'probability' "
    "(LoggedInteraction omits it when the propensity is None) and extra fields -- may be present on any subset of the "
    "interactions, first included, in unbatched environments only (Batch keeps the key set of the first interaction by "
    "design); an absent probability means no re-weighting in the IPS transform (reward/1)",
    "an environment with ragged 'probability' may instead be rejected with a KeyError/CobaException naming 'probability' "
    "(the unchanged tree does so whenever the first interaction has one and a later one has not, in every mode)",
    "ragged 'probability' is not combined with learn='off': which probability an off-policy learner is handed when only "
    "some interactions logged one is unspecified (the unchanged tree decides it from the first interaction)",
    "ragged extra fields are only generated when every row holds at least one requested column (otherwise empty rows are "
    "legitimately not yielded and the row/interaction correspondence is undefined); a row must carry exactly the extra "
    "fields of its own interaction",
    "actions, contexts and extra fields are compared with == (Python compares int and float exactly), so a representation "
    "change that keeps the value (SafeLearner hands the actions 0/1 over as 0.0/1.0) is accepted while any change of the "
    "value -- however small -- is not; rewards of table-like reward functions (sequence, DiscreteReward, BinaryReward, "
    "user look-up) in the on-policy modes are handed through untransformed and must be the same number, computed rewards "
    "(L1, linear, IPS) are compared with a relative tolerance of 1e-12",
    "action sets hold pairwise distinct actions; extra fields are plain data (no callables) with neutral names",
    "what the learner sees is compared with the original only when the environment is already final (no Categorical, "
    "no lazy rows); otherwise only positional relations (chosen index -> reward of that index) are asserted",

    "prediction shapes are restricted to those SafeLearner classifies without its extra probing predict "
    "(no batch whose size equals the length of a prediction row -- the probe is SafeLearner's documented way to tell row- from "
    "column-major answers and is pinned by coba's test_safety; no PMF over fewer than 3 actions; a bare dict action only "
    "unbatched, because a batch answered with a list of dicts is read as hints/columns); "
    "the format grid itself is C15's subject",
    "an evaluator object may be used for any number of evaluate() calls; every call must behave as specified whatever the "
    "object evaluated before (for the leniently treated fields: reject or fall back exactly as a new evaluator object does)",
    "when 'action' or 'probability' is to be recorded under an eval mode the learner has to predict, so 'actions' is a field "
    "the configuration needs even for a scoring learner under eval='ips'",
    "learners that cannot take batches (SafeLearner's per-item fallback) are only used when every learner argument is "
    "batched (context present; logged probability present for learn='off')",
    "when a mode does not need a prediction the model accepts either no predict or exactly one predict per interaction; "
    "IPS evaluation is checked as score*reward/probability when the learner was asked to score and as the IPS reward of "
    "the predicted action when it was asked to predict",
    "a missing logged 'probability' under an IPS mode, and a missing 'actions' key under eval='ips' with a scoring "
    "learner that is not asked to predict (neither by the learn mode nor to record its action/probability), must either be rejected or be evaluated as probability 1 / actions None "
    "(the docstring lists them as required, coba's own tests pin the fallback): only asserted differentially",
    "'time' columns are only checked to be non-negative numbers; when nothing at all is to be recorded zero rows are accepted",
    "CobaContext.learning_info is not used by the scripted learners (not part of the statement)",
]

LEARN = ["on", "off", "ips", None]
EVAL  = ["on", "ips", None]
REC_ALL = ["reward", "action", "probability", "time", "context", "actions", "rewards"]
EXCLUDED = {"context", "actions", "rewards", "action", "reward", "probability"}
EXTRA_NAMES = ["L", "uid", "note", "meta", "tag"]

# ------------------------------------------------------------------------------------------------ value coding
def dec(v):
    """JSON-able spec value -> python value handed to coba"""
    if isinstance(v, dict):
        t = v.get("t")
        if t == "tuple": return tuple(dec(x) for x in v["v"])
        if t == "dict":  return {k: dec(x) for k, x in v["v"].items()}
        if t == "cat":
            from coba.primitives import Categorical
            return Categorical(v["v"], list(v["levels"]))
        if t == "lazy":
            from coba.pipes.rows import LazyDense
            return LazyDense([dec(x) for x in v["v"]])
        raise ValueError(v)
    if isinstance(v, list): return [dec(x) for x in v]
    return v

def plain(v):
    """the materialised value a spec value stands for (lazy -> list, categorical -> its string)"""
    if isinstance(v, dict):
        t = v.get("t")
        if t == "tuple": return tuple(plain(x) for x in v["v"])
        if t == "dict":  return {k: plain(x) for k, x in v["v"].items()}
        if t == "cat":   return v["v"]
        if t == "lazy":  return [plain(x) for x in v["v"]]
    if isinstance(v, list): return [plain(x) for x in v]
    return v

def T(*xs): return {"t": "tuple", "v": list(xs)}
def D(**kw): return {"t": "dict", "v": kw}

class TableReward:
    """a user-defined reward function: looks the action up by equality in the original action list"""
    def __init__(self, actions, values): self.actions, self.values = actions, values
    def __call__(self, action):
        for a, v in zip(self.actions, self.values):
            if a == action: return v
        raise KeyError(f"TableReward asked about an action that was never offered: {action!r}")
class LinReward:
    def __init__(self, a, b): self.a, self.b = a, b
    def __call__(self, action): return self.a*action + self.b

TABLE_KINDS = ("list", "tuple", "dpair", "dmap", "fn")      # one stored reward per offered action

def build_rewards(rs, actions):
    from coba.primitives import DiscreteReward, BinaryReward, L1Reward
    k = rs["kind"]
    if k == "list":   return list(rs["v"])
    if k == "tuple":  return tuple(rs["v"])             # a sequence of rewards that is not a list
    if k == "dpair":  return DiscreteReward(list(actions), list(rs["v"]))
    if k == "dmap":   return DiscreteReward({actions[i]: rs["v"][i] for i in rs["order"]})
    if k == "binary": return BinaryReward(actions[rs["j"]], rs["value"]) if rs["value"] != 1 else BinaryReward(actions[rs["j"]])
    if k == "l1":     return L1Reward(rs["argmax"])
    if k == "fn":     return TableReward(list(actions), list(rs["v"]))
    if k == "lin":    return LinReward(rs["a"], rs["b"])
    raise ValueError(k)

def reward_at(rs, j=None, x=None):
    """the environment's reward of the j-th offered action (discrete) / of the value x (continuous), from the spec"""
    k = rs["kind"]
    if k in TABLE_KINDS: return rs["v"][j]
    if k == "binary": return rs["value"] if j == rs["j"] else 0
    if k == "l1":     return -abs(x - rs["argmax"])
    if k == "lin":    return rs["a"]*x + rs["b"]
    raise ValueError(k)

# ------------------------------------------------------------------------------------------------ generator
def gen_context(rng, kind, t):
    s = 100 + t            # unique serial
    if kind in ("absent", "none"): return None
    if kind == "int":    return s if rng.random() < .7 else BIG + 2*s
    if kind == "float":  return s + 0.5
    if kind == "str":    return f"c{s}"
    if kind == "list":   return [s, rng.choice([0, 1, 2.5, -1, BIG, 0.1 + 0.2]), rng.choice(["u", "v", 3, " u"])][:rng.choice([1, 2, 3])]
    if kind == "tuple":  return T(*[s, rng.choice([0, 1, 2.5]), rng.choice([7, "w"])][:rng.choice([1, 2, 3])])
    if kind == "sparse": return D(id=s, **{rng.choice(["a", "b", "c"]): rng.choice([0, 1, 2.5, "z", BIG + 2])})
    if kind == "cat":    return [s, {"t": "cat", "v": rng.choice(["p", "q", "r"]), "levels": ["p", "q", "r"]}, rng.choice([1, 2])]
    if kind == "lazy":   return {"t": "lazy", "v": [s, rng.choice([0, 1, 2.5]), rng.choice(["u", 3])]}
    raise ValueError(kind)

A_POOL = {
    "int":   [0, 1, 2, 3, 5, 8, -1],
    "float": [0.5, 1.5, 2.25, -3.5, 0.0, 1.0, 7.75],
    "str":   ["a", "b", "cc", "dd", "e", "long", "x1"],
    "tuple": [T(1, 0, 0), T(0, 1, 0), T(0, 0, 1), T(2, 2, 2), T(1, 1, 0), T(0, 0, 0)],
    "pair":  [T(1, 0), T(0, 1), T(2, 2), T(1, 1), T(5, 0.5)],
    "list":  [[1, 2], [2, 1], [0, 0], [3, 4], ["a", 1]],
    "sparse": [D(a=1), D(b=1), D(a=1, b=2), D(c=0.5), D(a=2), D(b=1, c=2), D(a=1, b=2, c=3)],
    "cat":   [{"t": "cat", "v": l, "levels": ["r", "g", "b", "y"]} for l in ["r", "g", "b", "y"]],
    # ---- "exact-identity" action sets: pairwise distinct actions that a lossy conversion (int->float, float->int,
    #      float rounding, str()/strip()/lower(), number<->numeral) would alter or merge with a neighbour
    "bigint":    [2**53 + 1, 2**53 + 2, 2**53 + 3, 2**53 + 5, -(2**53) - 1, 2**63 - 1, 2**63 + 1, 2**64 + 1, 10**20 + 1, 3*2**60 + 7],
    "nearfloat": [0.1 + 0.2, 0.3, 1e16, 1e16 + 2, 1.0000000000000002, 2.0000000000000004, 5e-324, 1e-300, 1e300, float(2**53), -0.30000000000000004, 2.5],
    "nearstr":   ["a", "A", " a", "a ", "1", "1.0", "01", "", "None", "a\n", "\u00e9", "e\u0301"],
    "bigtuple":  [T(2**53 + 1, 0), T(2**53 + 2, 0), T(0, 2**53 + 1), T(0.1 + 0.2, 1), T(0.3, 1), T(2**63 + 1, 0.5)],
    "mixed":     [2, 2.5, "2", "2.5", 2**53 + 1, float(2**53), "a", 3, -2, 2**64 + 1],
}
CONT = ("cont_empty", "cont_none")
EXACT_KINDS = ("bigint", "nearfloat", "nearstr", "bigtuple", "mixed")
SCALAR_KINDS = ("int", "float", "str", "bigint", "nearfloat", "nearstr", "mixed")
BIG = 2**53 + 1           # the smallest positive int that is not a float

RW_POOL = [0, 1, 0.25, -2, 3, 0.5, 10, 0.1 + 0.2, 0.3, 1/3, 1e-17, 1 + 2**-52]

def gen_case(rng):
    learn, eval_ = rng.choice(LEARN), rng.choice(EVAL)
    r = rng.random()
    if r < .08: record = None                                   # the default record
    else:
        record = [x for x in REC_ALL if rng.random() < .5]
        rng.shuffle(record)
        if len(record) == 1 and rng.random() < .4: record = record[0]
    N = rng.choice([1, 2, 2, 3, 3, 4, 5, 6, 7]) if rng.random() > .03 else rng.randint(21, 26)

    need_actions = learn in ("on", "ips") or eval_ in ("on", "ips")
    need_rewards = learn == "on" or eval_ == "on"
    need_logged  = learn in ("off", "ips") or eval_ == "ips"
    has_rewards  = need_rewards or rng.random() < .35
    has_actions  = need_actions or has_rewards or rng.random() < .5
    has_logged   = need_logged or rng.random() < .3
    has_prob     = has_logged and (learn == "ips" or eval_ == "ips" or rng.random() < .6)

    ckind = rng.choice(["absent", "none", "int", "float", "str", "list", "list", "tuple", "sparse", "sparse", "cat", "lazy"])
    akind = rng.choice(["int", "int", "float", "str", "tuple", "pair", "list", "sparse", "cat", "cont_empty", "cont_none"])
    if rng.random() < .25: akind = rng.choice(EXACT_KINDS)
    if not has_actions: akind = "none"
    if ckind == "absent" and not has_actions and not has_logged: ckind = "int"       # an interaction has at least one field
    cont  = akind in CONT
    if akind in CONT:      rkinds = ["l1", "lin"]
    elif akind in ("int", "float", "bigint", "nearfloat"): rkinds = ["list", "list", "tuple", "dpair", "dmap", "binary", "l1", "fn"]
    elif akind in ("list", "sparse"): rkinds = ["list", "tuple", "dpair", "binary", "fn"]
    elif akind == "cat":   rkinds = ["list", "tuple", "dpair", "dmap", "dmap", "binary", "fn"]
    else:                  rkinds = ["list", "tuple", "dpair", "dmap", "binary", "fn"]
    rkind = rng.choice(rkinds) if has_rewards else None

    const_actions = rng.random() < .4
    const_prefix  = rng.choice([2, 3]) if (not const_actions and rng.random() < .25) else 0   # same action set for the first few only
    n_act = rng.choice([1, 2, 2, 3, 3, 4])
    base_actions = None
    extras_keys = rng.sample(EXTRA_NAMES, rng.choice([0, 0, 1, 1, 2]))
    key_order_seed = rng.randrange(1 << 30) if rng.random() < .3 else None

    inter = []
    for t in range(N):
        it = {}
        if ckind != "absent": it["context"] = gen_context(rng, ckind, t)
        acts = None
        if has_actions:
            if cont: acts = [] if akind == "cont_empty" else None
            else:
                if (const_actions or t < const_prefix) and base_actions is not None: acts = base_actions
                else:
                    k = n_act if const_actions else rng.choice([1, 2, 2, 3, 3, 4])
                    pool = A_POOL[akind]
                    acts = rng.sample(pool, min(k, len(pool)))
                    base_actions = acts
            it["actions"] = acts
        if has_rewards:
            if rkind in ("list", "tuple", "dpair", "fn"): rs = {"kind": rkind, "v": [rng.choice(RW_POOL) for _ in acts]}
            elif rkind == "dmap":
                order = list(range(len(acts))); rng.shuffle(order)
                rs = {"kind": "dmap", "v": [rng.choice(RW_POOL) for _ in acts], "order": order}
            elif rkind == "binary": rs = {"kind": "binary", "j": rng.randrange(len(acts)), "value": rng.choice([1, 1, 0.5, 3])}
            elif rkind == "l1":  rs = {"kind": "l1", "argmax": rng.choice([0, 0.5, 1, 2, -1.5])}
            elif rkind == "lin": rs = {"kind": "lin", "a": rng.choice([1, -2, 0.5]), "b": rng.choice([0, 1])}
            it["rewards"] = rs
        if has_logged:
            if has_actions and not cont:
                lk = rng.randrange(len(acts)); it["action"] = acts[lk]; it["_lk"] = lk
            else:
                it["action"] = rng.choice([0, 1, 2, 0.5, 3.5]) if (cont or not has_actions) else None
                it["_lk"] = None
            it["reward"] = rng.choice([0, 1, 2, -1, 0.5, 3, 0.75])
            if has_prob: it["probability"] = rng.choice([0.1, 0.2, 0.25, 0.5, 0.75, 1.0, 1/3, 2**-11, 1e-4, 2**-20])   # incl. the tiny propensities of a large action set
        for k in extras_keys:
            it[k] = rng.choice([t, f"s{t}", t + 0.5, None, [t, "x"], D(k=t), T(t, 1), True, "", BIG + 2*t, [BIG + 2*t, 0.1 + 0.2], f" s{t} "])
        inter.append(it)

    # ---- learner script
    if cont: fmts = ["a", "ak", "hint_ap", "hint_apk"]
    elif akind == "sparse": fmts = ["ap", "apk", "hint_ap", "hint_apk", "a", "ak"]      # "a": the bare offered dict itself
    else: fmts = ["a", "ap", "apk", "ak", "hint_ap", "hint_apk"]
    if has_actions and not cont and all(len(i["actions"]) >= 3 for i in inter): fmts = fmts + ["pmf1", "pmf1k"]
    fmt = rng.choice(fmts)
    ls = {"score": rng.random() < .5, "fmt": fmt, "base": rng.choice(["Learner", "plain"]),
          "j": [rng.randrange(12) for _ in range(N)],
          "p": [round((t + 1) / (N + 2), 6) for t in range(N)],
          "kw": [({"k": 7*t + 1} if rng.random() < .7 else {"k": 7*t + 1, "m": f"m{t}"}) for t in range(N)] if rng.random() < .85
                else [{"k": 7*t + 1, "m": f"m{t}"} for t in range(N)],
          "s": [round((t + 2) / (N + 5), 6) for t in range(N)],
          "x": [rng.choice([0, 1, 2, 0.5, 3.5, -1, BIG, 0.1 + 0.2]) for _ in range(N)], "style": "row"}
    r = rng.random()
    if r < .1: ls["p"][rng.randrange(N)] = 0.0                    # a stated probability of zero is still a probability
    elif r < .2: ls["kw"] = [{} for _ in range(N)]                # empty kwargs
    if len({frozenset(k) for k in ls["kw"]}) > 1:      # kwargs key sets must not vary (batched kwargs are column-ised from the first row)
        ls["kw"] = [{"k": k["k"], "m": k.get("m", "m")} for k in ls["kw"]]

    # ---- batching
    batch = None
    if rng.random() < .45:
        cands = [1, 2, 3, N, N + 2]
        batch = rng.choice(cands)
        ls["style"] = rng.choice(["row", "fallback"])
        if ls["style"] == "fallback" and (ckind == "absent" or (learn == "off" and not has_prob)):
            ls["style"] = "row"
        if akind == "sparse" and fmt == "a": batch = None       # a batch answered with bare dicts is read as hints / columns (C15)
        if batch is not None and ls["style"] == "row":
            rl = _first_row_len(inter[0], ls)       # SafeLearner probes with an extra predict when the first batch is "square"
            ok = [b for b in cands if min(b, N) != rl]
            if min(batch, N) == rl: batch = rng.choice(ok) if ok else None
    # ---- ragged key sets (unbatched only): the keys coba's own interaction classes leave out per interaction
    rag_prob = rag_extras = False
    if batch is None and N >= 2:
        if has_prob and learn != "off" and rng.random() < .4:
            rag_prob = True
            keep = [rng.random() < .5 for _ in range(N)]
            if all(keep) or not any(keep):                        # at least one with, at least one without
                i = rng.randrange(N); keep = [not keep[0]]*N; keep[i] = not keep[i]
            for it, k in zip(inter, keep):
                if not k: del it["probability"]
            for t, it in enumerate(inter):                        # mostly play the logged action: the IPS reward of any other is 0
                if rng.random() < .7:
                    if it["_lk"] is not None: ls["j"][t] = it["_lk"]
                    else: ls["x"][t] = it["action"]
        rec_l = ["reward", "action", "probability"] if record is None else [record] if isinstance(record, str) else record
        always_row = "time" in rec_l or "context" in rec_l or (eval_ and ("reward" in rec_l or "action" in rec_l))
        if extras_keys and always_row and rng.random() < .4:
            for k in extras_keys:
                keep = [rng.random() < .5 for _ in range(N)]
                if all(keep): keep[rng.randrange(N)] = False
                for it, kp in zip(inter, keep):
                    if not kp: del it[k]
            rag_extras = True
    # ---- one evaluator object for several evaluate() calls (the way an Experiment pairs one evaluator with many learners
    #      and environments): before the case proper the same SequentialCB evaluates other (environment, learner) pairs --
    #      the learner with / without `score`, the environment with one of its fields missing, batched or not
    reuse = None
    if rng.random() < .3:
        have = sorted({k for it in inter for k in it if k != "_lk"})
        prior = []
        for _ in range(rng.choice([1, 1, 2])):
            drop = rng.choice(have) if rng.random() < .4 else None
            pb = batch if (rng.random() < .6 and drop not in ("context", "probability")) else None
            prior.append({"score": rng.random() < .5, "drop": drop, "batch": pb})
        reuse = {"prior": prior}
    spec = {"learn": learn, "eval": eval_, "record": record, "inter": inter, "batch": batch, "learner": ls,
            "ragged": {"prob": rag_prob, "extras": rag_extras}, "reuse": reuse,
            "kinds": {"context": ckind, "actions": akind, "rewards": rkind, "logged": has_logged, "prob": has_prob,
                      "const_actions": const_actions or bool(const_prefix)}, "key_order_seed": key_order_seed, "seed": rng.choice([None, 1, 7]),
            "cls": "coba" if key_order_seed is None and rng.random() < .4 else "dict"}
    return spec

def _first_row_len(it0, ls):
    """length of the first prediction row a batch-aware learner returns (None: has no len)"""
    fmt = ls["fmt"]
    if fmt in ("ap", "ak", "hint_apk"): return 2
    if fmt == "apk": return 3
    if fmt == "hint_ap": return None          # rows are dicts: recognised as row-major
    acts = it0.get("actions")
    if fmt == "pmf1":  return len(acts)
    if fmt == "pmf1k": return 2
    if fmt == "a":
        if not acts: return None
        a = plain(acts[ls["j"][0] % len(acts)])
        if isinstance(a, dict) and "t" in a: return None
        if acts[0].__class__ is dict and acts[0].get("t") == "cat": return len(acts[0]["levels"])
        return len(a) if hasattr(a, "__len__") else None
    return None

# ------------------------------------------------------------------------------------------------ recording learner
class _NoBatch(Exception): pass

def _is_batch(x): return hasattr(x, "is_batch")

class _RecMixin:
    def _init(self, ls):
        self.ls, self.trace, self.np, self.ns, self.nl = ls, [], 0, 0, 0
    @property
    def params(self): return {"family": "rec"}

    def _pred_one(self, c, A):
        ls, t = self.ls, self.np
        self.np += 1
        i = t % len(ls["j"])
        p, kw, fmt = ls["p"][i], dict(ls["kw"][i]), ls["fmt"]
        if A: j = ls["j"][i] % len(A); a = A[j]
        else: j = None; a = ls["x"][i]
        stated = p
        if   fmt == "a":   out, stated, kw = a, None, {}
        elif fmt == "ak":  out, stated = (a, kw), None
        elif fmt == "ap":  out, kw = (a, p), {}
        elif fmt == "apk": out = (a, p, kw)
        elif fmt == "hint_ap":  out, kw = {"action_prob": (a, p)}, {}
        elif fmt == "hint_apk": out = ({"action_prob": (a, p)}, kw)
        elif fmt == "pmf1":  out, stated, kw = [int(k == j) for k in range(len(A))], 1, {}
        elif fmt == "pmf1k": out, stated = ([int(k == j) for k in range(len(A))], kw), 1
        else: raise ValueError(fmt)
        self.trace.append({"e": "predict", "t": t, "context": c, "actions": A, "j": j, "action": a, "p": stated, "kw": kw})
        return out

    def predict(self, context, actions):
        if _is_batch(context) or _is_batch(actions):
            if self.ls["style"] == "fallback": raise _NoBatch("this learner does not take batches")
            n = len(actions) if _is_batch(actions) else len(context)
            C = context if _is_batch(context) else [context]*n
            A = actions if _is_batch(actions) else [actions]*n
            return [self._pred_one(c, a) for c, a in zip(C, A)]
        return self._pred_one(context, actions)

    def _learn_one(self, c, a, r, p, kw):
        self.trace.append({"e": "learn", "t": self.nl, "context": c, "action": a, "reward": r, "p": p, "kw": kw})
        self.nl += 1

    def learn(self, context, action, reward, probability, **kwargs):
        if _is_batch(context) or _is_batch(reward) or _is_batch(action):
            if self.ls["style"] == "fallback": raise _NoBatch("this learner does not take batches")
            n = len(reward)
            C = context if _is_batch(context) else [context]*n
            P = probability if probability is not None else [None]*n
            for i in range(n):
                self._learn_one(C[i], action[i], reward[i], P[i], {k: v[i] for k, v in kwargs.items()})
        else:
            self._learn_one(context, action, reward, probability, kwargs)

    def _score_one(self, c, A, a):
        t = self.ns; self.ns += 1
        s = self.ls["s"][t % len(self.ls["s"])]
        self.trace.append({"e": "score", "t": t, "context": c, "actions": A, "action": a, "s": s})
        return s

    def _score(self, context, actions, action):
        if context is None and actions is None and action is None: return 0.5     # SafeLearner.has_score probe
        if _is_batch(context) or _is_batch(actions) or _is_batch(action):
            if self.ls["style"] == "fallback": raise _NoBatch("this learner does not take batches")
            n = len(action)
            C = context if _is_batch(context) else [context]*n
            A = actions if _is_batch(actions) else [actions]*n
            return [self._score_one(C[i], A[i], action[i]) for i in range(n)]
        return self._score_one(context, actions, action)

_CLASSES = {}
def make_learner(ls):
    from coba.primitives import Learner
    key = (ls["base"], bool(ls["score"]))
    if key not in _CLASSES:
        bases = (_RecMixin, Learner) if ls["base"] == "Learner" else (_RecMixin,)
        ns = {"__init__": lambda self, ls: self._init(ls)}
        if ls["score"]: ns["score"] = lambda self, context, actions, action: self._score(context, actions, action)
        _CLASSES[key] = type("RecLearner" + ("S" if ls["score"] else "") + ls["base"][0], bases, ns)
    return _CLASSES[key](ls)

# ------------------------------------------------------------------------------------------------ environment
class ListEnv:
    def __init__(self, interactions, batch=None): self._i, self._b = interactions, batch
    @property
    def params(self): return {}
    def read(self):
        if self._b is None: return iter(list(self._i))
        from coba.environments import Batch
        return Batch(self._b).filter(iter(list(self._i)))

def build_interactions(spec, drop=None):
    import random
    out = []
    order = None
    for it in spec["inter"]:
        d = {}
        if "context" in it: d["context"] = dec(it["context"])
        if "actions" in it: d["actions"] = dec(it["actions"])
        if "rewards" in it: d["rewards"] = build_rewards(it["rewards"], d["actions"])
        if "action" in it:
            d["action"] = d["actions"][it["_lk"]] if it.get("_lk") is not None and spec["kinds"]["actions"] in SCALAR_KINDS else dec(it["action"])
            d["reward"] = it["reward"]
            if "probability" in it: d["probability"] = it["probability"]
        for k, v in it.items():
            if k not in EXCLUDED and k != "_lk": d[k] = dec(v)
        if drop: d.pop(drop, None)
        if spec.get("cls") == "coba" and not drop and "context" in d:
            from coba.primitives import SimulatedInteraction, LoggedInteraction
            rest = dict(d); c = rest.pop("context")
            if "actions" in d and "rewards" in d:
                d = SimulatedInteraction(c, rest.pop("actions"), rest.pop("rewards"), **rest)
            elif "action" in d:
                d = LoggedInteraction(c, rest.pop("action"), rest.pop("reward"), rest.pop("probability", None), **rest)
        if spec.get("key_order_seed") is not None and type(d) is dict:
            if order is None:
                order = list(d.keys()); random.Random(spec["key_order_seed"]).shuffle(order)
            d = {k: d[k] for k in order + [k for k in d if k not in order] if k in d}
        out.append(d)
    return out

# ------------------------------------------------------------------------------------------------ helpers
def num_eq(a, b):
    try:
        if a == b: return True
        if isinstance(a, (int, float)) and isinstance(b, (int, float)) and not isinstance(a, bool) and not isinstance(b, bool):
            return math.isclose(a, b, rel_tol=1e-12, abs_tol=1e-15)
    except Exception: pass
    return False

def rew_eq(a, b, exact):
    """exact: the value is handed through untransformed (a table reward in an on-policy mode), so it must be the same number"""
    if not exact: return num_eq(a, b)
    try: return bool(a == b)
    except Exception: return False

def _alter_mode(seen, orig):
    """failure mode of an action (list) that did not arrive as the environment holds it: which conversion it looks like"""
    def one(s, o):
        if isinstance(o, (list, tuple)) and isinstance(s, (list, tuple)) and len(s) == len(o):
            for x, y in zip(s, o):
                if not (x == y): return one(x, y)
        num = lambda v: isinstance(v, (int, float)) and not isinstance(v, bool)
        if num(o) and num(s):
            k = f"{type(o).__name__}->{type(s).__name__}"
            try: return k + ("-lossy" if type(o) is not type(s) and math.isclose(s, o, rel_tol=1e-9) else "-rounded" if math.isclose(s, o, rel_tol=1e-9, abs_tol=1e-290) else "-wrong-value")
            except Exception: return k
        if isinstance(o, str) and isinstance(s, str): return "str-altered"
        return f"{type(o).__name__}->{type(s).__name__}"
    try:
        if isinstance(orig, list):                 # an action set
            seen = list(seen)
            if len(seen) != len(orig): return "count"
            for x, y in zip(seen, orig):
                if not (x == y): return one(x, y)
            return "wrong-value"
        return one(seen, orig)
    except Exception: return "wrong-value"

def _is_final(spec): return spec["kinds"]["context"] not in ("cat", "lazy") and spec["kinds"]["actions"] != "cat" and not spec["kinds"].get("cat_action")

def _exc_sig(e):
    """mechanism-level description of an exception: type, coba function that raised it, message skeleton"""
    tb = traceback.extract_tb(e.__traceback__)
    where = "?"
    for fr in reversed(tb):
        if "/coba/" in fr.filename and "/vf/" not in fr.filename:
            where = f"{fr.filename.rsplit('/coba/', 1)[1].replace('.py', '')}.{fr.name}"; break
    msg = re.sub(r"\d+(\.\d+)?", "#", str(e))
    msg = re.sub(r"\{[^}]*\}|\[[^\]]*\]|\([^)]*\)", "..", msg)
    msg = re.sub(r"[^A-Za-z#_ ]+", " ", msg).strip()[:48].strip().replace(" ", "-")
    return f"raise:{type(e).__name__}@{where}:{msg}"

def make_evaluator(spec):
    from coba.evaluators import SequentialCB
    kw = {"learn": spec["learn"], "eval": spec["eval"], "seed": spec.get("seed")}
    if spec["record"] is not None: kw["record"] = spec["record"]
    return SequentialCB(**kw)

def run_eval(spec, batch, drop=None, learner_over=None, ev=None):
    """runs the real evaluator once (ev: an evaluator object that may have been used before; None = a new one).
    returns (rows | None, trace, exception | None)"""
    from coba.context import CobaContext, NullLogger
    CobaContext.logger = NullLogger()
    CobaContext.learning_info.clear()
    ls = dict(spec["learner"]) if learner_over is None else learner_over
    lrn = make_learner(ls)
    env = ListEnv(build_interactions(spec, drop), batch)
    try:
        rows = list((ev if ev is not None else make_evaluator(spec)).evaluate(env, lrn))
        return rows, lrn.trace, None
    except Exception as e:
        return None, lrn.trace, e

# ------------------------------------------------------------------------------------------------ reference model + checker
def model_check(spec, rows, trace, batch, note, p_default=None):
    """compares one successful evaluation with the sequential reference model; returns [(sig, what)]"""
    learn, eval_ = spec["learn"], spec["eval"]
    record = spec["record"]
    record = ["reward", "action", "probability"] if record is None else [record] if isinstance(record, str) else list(record)
    inter, ls, kinds = spec["inter"], spec["learner"], spec["kinds"]
    N = len(inter)
    final = _is_final(spec)
    cont  = kinds["actions"] in CONT
    has_actions, has_rewards = "actions" in inter[0], "rewards" in inter[0]
    has_logged, has_context = "action" in inter[0], "context" in inter[0]
    # mechanism-level signature parts: the mode that selects the code path, batched?, and (only where the comparison
    # depends on it) whether the learner sees a re-represented (non-final) environment
    bt, ft = ("/batched" if batch else ""), ("" if final else "/non-final")
    mtag, ltag, etag, btag, ftag = f"learn={learn}/eval={eval_}{bt}", f"learn={learn}{bt}", f"eval={eval_}{bt}", bt.strip("/") or "unbatched", (bt + ft).strip("/") or "unbatched"
    V = []
    exact_kind = kinds["actions"] if kinds["actions"] in EXACT_KINDS else None       # action sets only an exact hand-through preserves
    xnote = (lambda name: note(f"oracle.exact.{name}")) if exact_kind else (lambda name: None)
    xtag  = (lambda seen, orig: f"/{exact_kind}-actions/{_alter_mode(seen, orig)}") if exact_kind else (lambda seen, orig: "")
    table_rw = has_rewards and inter[0]["rewards"]["kind"] in TABLE_KINDS + ("binary",)

    P = [e for e in trace if e["e"] == "predict"]
    L = [e for e in trace if e["e"] == "learn"]
    S = [e for e in trace if e["e"] == "score"]
    pred_needed = learn in ("on", "ips") or eval_ == "on" or (eval_ == "ips" and not ls["score"])
    did_pred = len(P) > 0
    score_path = eval_ == "ips" and ls["score"] and not did_pred

    # ---- 1. which calls, how many, in which order
    note("oracle.trace.order")
    if batch: note("oracle.trace.batched")
    if did_pred and kinds["actions"] == "sparse" and ls["fmt"] in ("a", "ak"): note("oracle.input.bare-sparse-action")
    if kinds["rewards"] == "tuple" and (learn == "on" or eval_ == "on" or "rewards" in record): note("oracle.input.tuple-rewards")
    if pred_needed and not did_pred:
        V.append((f"trace.predict-missing/{mtag}", f"mode needs predictions but predict was never called (N={N})")); return V
    exp_seq = []
    b = batch or 1
    for g in range(0, N, b):
        grp = range(g, min(g + b, N))
        if did_pred:   exp_seq += [("predict", t) for t in grp]
        if score_path: exp_seq += [("score", t) for t in grp]
        if learn:      exp_seq += [("learn", t) for t in grp]
    got_seq = [(e["e"], e["t"]) for e in trace]
    if got_seq != exp_seq:
        cnt = lambda s, k: sum(1 for x in s if x[0] == k)
        kind = "count" if any(cnt(got_seq, k) != cnt(exp_seq, k) for k in ("predict", "learn", "score")) else "interleaving"
        V.append((f"trace.order/{kind}/{mtag}", f"call sequence {got_seq[:12]}... expected {exp_seq[:12]}... "
                  f"(#predict {cnt(got_seq,'predict')}/{cnt(exp_seq,'predict')} #learn {cnt(got_seq,'learn')}/{cnt(exp_seq,'learn')} "
                  f"#score {cnt(got_seq,'score')}/{cnt(exp_seq,'score')})")); return V

    def same_context(seen, t):
        if not has_context: return seen is None
        o = inter[t]["context"]
        if kinds["context"] == "lazy": return list(seen) == plain(o)
        if kinds["context"] == "cat":  return seen[0] == o[0]           # the unique serial stays first
        return seen == plain(o) and type(seen) is type(plain(o))
    def same_actions(seen, t):
        o = inter[t].get("actions")
        if not has_actions: return seen is None
        if o is None or o == []: return seen == o or (seen is None and o is None)
        if kinds["actions"] == "cat": return len(seen) == len(o)
        return list(seen) == plain(o)
    def logged_prob(t):
        return inter[t].get("probability", p_default)
    def ips_reward(t, chosen_is_logged):
        p = inter[t].get("probability", p_default)
        return inter[t]["reward"] / (p if p else 1) if chosen_is_logged else 0
    rag_p = bool((spec.get("ragged") or {}).get("prob"))      # some interactions carry a logged probability, some do not
    rtag  = "/ragged-probability" if rag_p else ""
    def chosen_is_logged(t):
        pe = P[t]
        if cont or not has_actions: return pe["action"] == inter[t]["action"]
        return pe["j"] == inter[t]["_lk"]
    def on_reward(t):
        pe = P[t]
        return reward_at(inter[t]["rewards"], j=pe["j"], x=pe["action"])

    # ---- 2. predict arguments: interaction t's own context and actions, in environment order
    for t, pe in enumerate(P):
        note("oracle.trace.predict")
        if not same_context(pe["context"], t):
            V.append((f"trace.predict-args/context/{ftag}", f"predict #{t} saw context {pe['context']!r}, interaction {t} has {plain(inter[t].get('context'))!r}")); return V
        if exact_kind: note(f"oracle.exact.predict-actions:{exact_kind}")
        if not same_actions(pe["actions"], t):
            V.append((f"trace.predict-args/actions/{ftag}{xtag(pe['actions'], plain(inter[t].get('actions')))}", f"predict #{t} saw actions {pe['actions']!r}, interaction {t} has {plain(inter[t].get('actions'))!r}")); return V
    for t, se in enumerate(S):
        note("oracle.trace.score")
        ok = same_context(se["context"], t) and same_actions(se["actions"], t)
        if ok and final: ok = se["action"] == plain(inter[t]["action"])
        if not ok:
            V.append((f"trace.score-args/{ftag}", f"score #{t} saw ({se['context']!r},{se['actions']!r},{se['action']!r}) for interaction {plain(inter[t])!r}")); return V

    # ---- 3. learn arguments
    for t, le in enumerate(L):
        note(f"oracle.trace.learn.{learn}")
        if not same_context(le["context"], t):
            V.append((f"trace.learn-args/context/{ltag}", f"learn #{t} saw context {le['context']!r}, interaction {t} has {plain(inter[t].get('context'))!r}")); return V
        if learn == "off":
            exp_a, exp_r, exp_p, exp_kw = inter[t]["action"], inter[t]["reward"], inter[t].get("probability"), {}
            a_ok = (le["action"] == plain(exp_a)) if final else True
            if not final and has_actions and not cont and did_pred:
                a_ok = le["action"] == P[t]["actions"][inter[t]["_lk"]]      # positional: the logged index among the offered actions
        else:
            pe = P[t]
            exp_a, exp_p, exp_kw = pe["action"], pe["p"], pe["kw"]
            exp_r = on_reward(t) if learn == "on" else ips_reward(t, chosen_is_logged(t))
            a_ok = le["action"] is exp_a or le["action"] == exp_a
        xnote("learn-action")
        if not a_ok:
            V.append((f"trace.learn-args/action/{ltag}{xtag(le['action'], plain(exp_a) if learn == 'off' else exp_a)}", f"learn #{t} got action {le['action']!r}, expected {plain(exp_a) if learn=='off' else exp_a!r}")); return V
        if rag_p and learn == "ips" and exp_r != 0: note("oracle.ragged.ips-reward.learn")
        if learn == "on" and table_rw: note("oracle.exact.reward.learn")
        if not rew_eq(le["reward"], exp_r, learn == "on" and table_rw):
            V.append((f"trace.learn-args/reward/{ltag}{rtag if learn == 'ips' else ''}", f"learn #{t} got reward {le['reward']!r}, expected {exp_r!r} (interaction {plain(inter[t])!r})")); return V
        if not (le["p"] is None and exp_p is None) and not num_eq(le["p"], exp_p):
            V.append((f"trace.learn-args/probability/{ltag}", f"learn #{t} got probability {le['p']!r}, expected {exp_p!r}")); return V
        if dict(le["kw"]) != dict(exp_kw) and not (learn == "off" and did_pred and dict(le["kw"]) == dict(P[t]["kw"])):
            V.append((f"trace.learn-args/kwargs/{ltag}", f"learn #{t} got kwargs {le['kw']!r}, expected {exp_kw!r}")); return V

    # ---- 4. rows
    extras_at = [[k for k in it if k not in EXCLUDED and k != "_lk"] for it in inter]
    extras_all = sorted({k for ks in extras_at for k in ks})
    rag = spec.get("ragged") or {}
    requested = set()
    for r_ in record:
        requested |= {"time": {"predict_time", "learn_time"}}.get(r_, {r_})
    expect_any = bool(extras_all) or any([("time" in record), ("context" in record), ("actions" in record and has_actions),
                                      ("rewards" in record and has_rewards), (eval_ and "reward" in record), (eval_ and "action" in record),
                                      (eval_ and "probability" in record and did_pred and P and P[0]["p"] is not None)])
    def _check_rows(rows, quiet=False):
        note_ = (lambda n: None) if quiet else note
        V = []
        if len(rows) != N:
            V.append((f"rows.count/{mtag}", f"{len(rows)} rows for {N} interactions (record={record})")); return V
        for t, row in enumerate(rows):
            if not isinstance(row, dict):
                V.append((f"rows.not-a-mapping/{btag}", f"row {t} is {row!r}")); return V
            extras = extras_at[t]
            unexp = set(row) - requested - set(extras)
            note_("oracle.rows.no-unrequested")
            if rag.get("extras"):
                if extras: note_("oracle.ragged.extras.present")
                if set(extras_all) - set(extras): note_("oracle.ragged.extras.absent")
            if unexp:
                foreign = unexp <= set(extras_all)        # an extra field of some *other* interaction of a ragged environment
                V.append((f"rows.unrequested-field/{'extra-field-of-another-interaction' if foreign else '+'.join(sorted(unexp))}/{btag}",
                          f"row {t} has keys {sorted(unexp)} that were neither requested in record={record} nor extra fields of interaction {t} ({plain(inter[t])!r})")); return V
            if extras: note_("oracle.rows.extras")
            for k in extras:
                if k not in row or not _same_extra(row[k], plain(inter[t][k])):
                    V.append((f"rows.extra-field/{'dropped' if k not in row else 'altered'}/{btag}{'/ragged-extras' if rag.get('extras') else ''}", f"row {t}: extra field {k!r}={plain(inter[t][k])!r} came out as {row.get(k, '<absent>')!r}")); return V
            # reward
            if "reward" in record:
                if eval_:
                    exp = (S[t]["s"] * ips_reward(t, True)) if score_path else on_reward(t) if eval_ == "on" else ips_reward(t, chosen_is_logged(t))
                    note_("oracle.rows.reward.on" if eval_ == "on" else "oracle.rows.reward.ips.score" if score_path else "oracle.rows.reward.ips.predict")
                    if rag_p and eval_ == "ips" and exp != 0: note_("oracle.ragged.ips-reward.rows.score" if score_path else "oracle.ragged.ips-reward.rows.predict")
                    if eval_ == "on" and table_rw: note_("oracle.exact.reward.rows")
                    if "reward" not in row or not rew_eq(row["reward"], exp, eval_ == "on" and table_rw):
                        V.append((f"rows.reward/{'score-path/' if score_path else ''}{etag}{rtag if eval_ == 'ips' else ''}", f"row {t}: reward {row.get('reward','<absent>')!r}, expected {exp!r} (interaction {plain(inter[t])!r})")); return V
                elif "reward" in row:
                    V.append((f"rows.reward/recorded-without-eval/{btag}", f"row {t} has a reward {row['reward']!r} although eval=None")); return V
            if "action" in record and (eval_ or "action" in row):
                note_("oracle.rows.action")
                if exact_kind: note_("oracle.exact.rows-action")
                if not did_pred or "action" not in row or not (row["action"] is P[t]["action"] or row["action"] == P[t]["action"]):
                    V.append((f"rows.action/{etag}{xtag(row['action'], P[t]['action']) if did_pred and 'action' in row else ''}", f"row {t}: action {row.get('action','<absent>')!r}, learner chose {P[t]['action'] if did_pred else '<no predict>'!r}")); return V
            if "probability" in record and (eval_ or "probability" in row):
                exp_p = P[t]["p"] if did_pred else None
                note_("oracle.rows.probability")
                got = row.get("probability")
                if (exp_p is None and got is not None) or (exp_p is not None and ("probability" not in row or not num_eq(got, exp_p))):
                    V.append((f"rows.probability/{etag}", f"row {t}: probability {row.get('probability','<absent>')!r}, learner stated {exp_p!r}")); return V
            if "context" in record:
                note_("oracle.rows.context")
                if has_context:
                    ok = "context" in row and same_context(row["context"], t)
                else:
                    ok = row.get("context") is None
                if not ok:
                    V.append((f"rows.context/{ftag}", f"row {t}: context {row.get('context','<absent>')!r}, interaction has {plain(inter[t].get('context'))!r}")); return V
            if "actions" in record and has_actions:
                note_("oracle.rows.actions")
                if exact_kind: note_("oracle.exact.rows-actions")
                if "actions" not in row or not same_actions(row["actions"], t):
                    V.append((f"rows.actions/{ftag}{xtag(row['actions'], plain(inter[t]['actions'])) if 'actions' in row else ''}", f"row {t}: actions {row.get('actions','<absent>')!r}, interaction has {plain(inter[t]['actions'])!r}")); return V
            if "rewards" in record and has_rewards:
                note_("oracle.rows.rewards")
                rs = inter[t]["rewards"]
                if "rewards" not in row: ok = False
                elif cont or not has_actions:
                    try: ok = callable(row["rewards"]) and (rs["kind"] not in ("l1", "lin") or num_eq(row["rewards"](1.5), reward_at(rs, x=1.5)))
                    except Exception: ok = False
                else:
                    exp = [reward_at(rs, j=j, x=plain(a)) for j, a in enumerate(inter[t]["actions"])]
                    try: ok = len(row["rewards"]) == len(exp) and all(rew_eq(x, y, table_rw) for x, y in zip(row["rewards"], exp))
                    except Exception: ok = False
                if not ok:
                    V.append((f"rows.rewards/{btag}", f"row {t}: rewards {row.get('rewards','<absent>')!r} for interaction {plain(inter[t])!r}")); return V
            if "time" in record:
                note_("oracle.rows.time")
                pt, lt = row.get("predict_time", "<absent>"), row.get("learn_time", 0)
                okn = lambda x: x is None or (isinstance(x, (int, float)) and not isinstance(x, bool) and x >= 0)
                if not (isinstance(pt, (int, float)) and pt >= 0) or not okn(lt):
                    V.append((f"rows.time/{ltag}", f"row {t}: predict_time={pt!r} learn_time={lt!r}")); return V
        return V

    note("oracle.rows.count")
    if len(rows) == 0 and not expect_any: return V
    v_rows = _check_rows(rows)
    if v_rows and batch and len(rows) == -(-N // batch):
        # are these the per-batch rows, never split into one row per interaction?
        ex = []
        for g, row in enumerate(rows):
            n_g = min(batch, N - g*batch)
            if not isinstance(row, dict): ex = None; break
            ex += [{k: (v[i] if isinstance(v, (list, tuple)) and len(v) == n_g else v) for k, v in row.items()} for i in range(n_g)]
        if ex is not None and not _check_rows(ex, quiet=True):
            return [("rows.batched-rows-not-unbatched", f"{len(rows)} per-batch rows for {N} interactions in batches of {batch}; first row {rows[0]!r} (record={record})")]
    return V + v_rows

def _same_extra(got, exp):
    if isinstance(exp, bool) or exp is None or isinstance(got, bool): return got is exp
    return type(got) is type(exp) and got == exp

def _canon_rows(rows):
    out = []
    for r in rows:
        d = {}
        for k, v in r.items():
            if k in ("predict_time", "learn_time"): continue
            if k == "probability" and v is None: continue
            if k == "rewards" and callable(v): v = ("fn",)
            if k in ("rewards", "actions") and isinstance(v, (list, tuple)): v = list(v)
            d[k] = v
        out.append(d)
    if all(not d for d in out): out = []      # rows holding nothing but an absent probability == no rows
    return out

KNOWN_UNSPLIT = "rows.batched-rows-not-unbatched"

def _in_tags(spec, exc):
    """structural features of the input that select a code path of their own (part of an exception's signature):
    how a prediction is read is decided in coba/safety.py, what a rewards value is everywhere else"""
    k, tags = spec["kinds"], ""
    in_safety = "@safety." in _exc_sig(exc)
    if in_safety and k["actions"] == "sparse" and spec["learner"]["fmt"] in ("a", "ak"): tags += "/bare-sparse-action"
    if not in_safety and k["rewards"] == "tuple": tags += "/tuple-rewards"
    return tags

def _judge(spec, rows, trace, exc, batch, note):
    """verdict on one evaluate() call of an environment that holds every field the mode reads"""
    if exc is None: return model_check(spec, rows, trace, batch, note)
    if isinstance(exc, _NoBatch): raise exc
    learn, eval_ = spec["learn"], spec["eval"]
    if (spec.get("ragged") or {}).get("prob") and type(exc).__name__ in ("KeyError", "CobaException") and "probability" in str(exc):
        # an environment in which some interactions lack the logged probability may be rejected with an error naming
        # the field (the alternative, evaluating them without re-weighting, is what the model checks)
        note("oracle.ragged.rejected:" + ("ips-mode" if "ips" in (learn, eval_) else "mode-not-reading-probability"))
        return []
    return [(f"{_exc_sig(exc)}{'/batched' if batch else ''}{_in_tags(spec, exc)}", f"evaluate raised {type(exc).__name__}: {exc} (learn={learn}, eval={eval_}, record={spec['record']}, batch={batch})")]

def check_case(spec, ctx=None):
    """one generated case: (the evaluate() calls the evaluator object served before,) the main evaluation, its unbatched
    twin when batched, and the rejection runs"""
    V = _check_case(spec, ctx)
    if V and spec.get("reuse") and not all(s == KNOWN_UNSPLIT for s, _ in V):
        # is it the history of the evaluator object that makes the difference?
        if not _check_case(spec, None, shared=False):        # the same calls, each served by an evaluator object of its own
            V = [(s if s.startswith("reuse.") else f"evaluator-reused/{s}", w + "  [the evaluator object had been used for other evaluate() calls before; a new "
                  "evaluator object handles the very same call as specified]") for s, w in V]
    return V

def _check_case(spec, ctx=None, shared=True):
    def note(name):
        if ctx: ctx.count(name)
    V, V_known = [], []
    learn, eval_, batch = spec["learn"], spec["eval"], spec["batch"]
    reuse = spec.get("reuse")
    ev = make_evaluator(spec) if reuse and shared else None          # None: every evaluate() call gets an evaluator of its own
    for n, pr in enumerate(reuse["prior"] if reuse else []):
        sv = dict(spec, learner=dict(spec["learner"], score=pr["score"]))
        rows_p, trace_p, exc_p = run_eval(sv, pr["batch"], drop=pr["drop"], ev=ev)
        if pr["drop"] is not None: note("oracle.reuse.prior.field-missing"); continue      # only there to be remembered
        note("oracle.reuse.prior")
        if pr["score"] != spec["learner"]["score"]: note("oracle.reuse.prior.other-kind-of-learner")
        v = _judge(sv, rows_p, trace_p, exc_p, pr["batch"], note)
        if v and all(s == KNOWN_UNSPLIT for s, _ in v): V_known = v[:1]
        elif v: return v
    rows, trace, exc = run_eval(spec, batch, ev=ev)
    V += _judge(spec, rows, trace, exc, batch, note)
    if batch and not V:
        rows_u, trace_u, exc_u = run_eval(spec, None, ev=ev)
        if exc_u is not None:
            V.append((f"{_exc_sig(exc_u)}{_in_tags(spec, exc_u)}", f"unbatched twin raised {type(exc_u).__name__}: {exc_u}"))
        else:
            V += model_check(spec, rows_u, trace_u, None, note)
            if not V:
                note("oracle.metamorphic.batched==unbatched")
                a, b = _canon_rows(rows), _canon_rows(rows_u)
                try: same = a == b
                except Exception: same = False
                if not same:
                    V.append((f"metamorphic.rows-batched!=unbatched/learn={learn}/eval={eval_}", f"batched rows {a[:4]} vs unbatched rows {b[:4]}"))
    # ---- rejection: remove, in turn, each field the mode reads
    if not V and (ctx is None or spec.get("reject", True)):
        ls = spec["learner"]
        rec = spec["record"]
        rec = ["reward", "action", "probability"] if rec is None else [rec] if isinstance(rec, str) else rec
        mode_pred = learn in ("on", "ips") or eval_ == "on" or (eval_ == "ips" and not ls["score"])
        rec_pred  = bool(eval_) and ("action" in rec or "probability" in rec)     # the learner's choice itself is to be recorded
        pred_needed = mode_pred or rec_pred
        strict = set()
        if learn == "on" or eval_ == "on": strict |= {"actions", "rewards"}
        if learn in ("off", "ips") or eval_ == "ips": strict |= {"action", "reward"}
        if pred_needed: strict |= {"actions"}
        lenient = set()
        if learn == "ips" or eval_ == "ips":
            lenient.add("probability")
            if "actions" not in strict: lenient.add("actions")
        have = {k for it in spec["inter"] for k in it}
        bt = "/batched" if batch else ""
        for key in sorted((strict | lenient) & have):
            rows_r, trace_r, exc_r = run_eval(spec, batch, drop=key, ev=ev)
            note("oracle.reject")
            if ev is not None: note("oracle.reuse.reject")
            if key == "actions" and rec_pred and not mode_pred: note("oracle.reject.actions-needed-to-record-the-prediction")
            if isinstance(exc_r, _NoBatch): raise exc_r
            if key in strict:
                if exc_r is not None: note("oracle.reject.raised"); continue
                why = "/prediction-needed-only-for-recorded-action-or-probability" if key == "actions" and not mode_pred else ""
                V.append((f"reject.not-rejected/missing={key}/learn={learn}/eval={eval_}{bt}{why}",
                          f"environment without {key!r} was evaluated ({len(rows_r)} rows) by SequentialCB(learn={learn},eval={eval_},record={spec['record']}); "
                          f"the learner was called with {[(e['e'], e.get('actions', '-')) for e in trace_r[:3]]}...")); break
            if ev is not None:
                # what an evaluator does with an environment lacking a leniently treated field must not depend on what the
                # evaluator object was used for before
                rows_f, trace_f, exc_f = run_eval(spec, batch, drop=key)
                note("oracle.reuse.lenient==fresh")
                if (exc_f is None) != (exc_r is None):
                    V.append((f"reuse.differs-from-new-evaluator/missing={key}/learn={learn}/eval={eval_}{bt}/{'rejected' if exc_r is not None else 'evaluated'}-only-when-used-before",
                              f"environment without {key!r}: an evaluator object used before {'raised ' + repr(exc_r) if exc_r is not None else 'yielded %d rows' % len(rows_r)}, "
                              f"a new one {'raised ' + repr(exc_f) if exc_f is not None else 'yielded %d rows' % len(rows_f)}")); break
            if exc_r is not None: note("oracle.reject.raised"); continue
            # lenient keys: accepted => must behave exactly as probability 1 / actions None
            note("oracle.reject.lenient-evaluated")
            spec2 = dict(spec); spec2["inter"] = [{k: v for k, v in it.items() if k != key} for it in spec["inter"]]
            if key == "actions":
                spec2["kinds"] = dict(spec["kinds"], actions="none", cat_action=spec["kinds"]["actions"] == "cat")
            v2 = model_check(spec2, rows_r, trace_r, batch, lambda n: None, p_default=1)
            if v2 and v2[0][0].startswith(KNOWN_UNSPLIT): V.append(v2[0]); break
            if v2 and key == "probability" and v2[0][0].startswith(("trace.predict-args", "trace.score-args")):
                V.append(v2[0]); break            # what predict/score are offered cannot depend on the logged probability
            if v2:
                V.append((f"reject.mis-evaluated/missing={key}/learn={learn}/eval={eval_}{bt}",
                          f"environment without {key!r} was accepted but not evaluated as the documented fallback: {v2[0][1]}")); break
    return V or V_known

# ------------------------------------------------------------------------------------------------ entry points
def _case_key(spec):
    rec = spec["record"]
    rec = ("default",) if rec is None else (rec,) if isinstance(rec, str) else tuple(sorted(rec))
    k, ls = spec["kinds"], spec["learner"]
    b = spec["batch"]
    bc = None if b is None else "1" if b == 1 else "all" if b >= len(spec["inter"]) else "some"
    return (spec["learn"], spec["eval"], rec, k["context"], k["actions"], k["rewards"], k["logged"], k["prob"],
            ls["fmt"], ls["score"], bc, ls["style"] if b else None,
            bool([x for it in spec["inter"] for x in it if x not in EXCLUDED and x != "_lk"]),
            bool((spec.get("ragged") or {}).get("prob")), bool((spec.get("ragged") or {}).get("extras")),
            len(spec["reuse"]["prior"]) if spec.get("reuse") else 0)

def run_shard(ctx):
    i = 0
    while i < ctx.n and ctx.time_left() > 0:
        spec = gen_case(ctx.rng)
        v = check_case(spec, ctx)
        ctx.case(_case_key(spec), nontrivial=len(spec["inter"]) >= 2)
        ctx.count("cases")
        ctx.count(f"mode.learn={spec['learn']}/eval={spec['eval']}")
        if i < 1: ctx.sample({k: spec[k] for k in ("learn", "eval", "record", "batch", "kinds")} | {"learner_fmt": spec["learner"]["fmt"], "first_interaction": spec["inter"][0]})
        for sig, what in v:
            ctx.violation(sig, what, spec)
        i += 1
    if i < ctx.n: ctx.extra["cases_skipped_for_time"] = ctx.n - i

def replay(witness):
    return check_case(witness)
