"""C14 -- Supervised data becomes a bandit problem whose best action is the true label.

Every case is one generated example set (features + labels) handed to the real
SupervisedSimulation / Environments.from_supervised in one of nine ways (X,Y sequences; a source of (x,y) pairs; a
source of dense / sparse rows with a label column; CSV / ARFF dense / ARFF sparse / LibSVM / Manik files written by
the small writers below and read back through CsvSource/ArffSource/LibSvmSource/ManikSource).  The interactions that
come out are checked against postconditions computed from the example set itself (never from coba's readers):
number and order, context == features without the label (through iteration, len, indexing / items, keys), one
duplicate-free action list holding exactly the distinct labels and identical in every interaction, every read,
every fresh object and -- for a sample -- in two child interpreters with different PYTHONHASHSEED, reward 1 for the
label and 0 otherwise, Jaccard overlap for multi-label, -|a-y| for regression, and for take=n a size-min(n,N)
sub-multiset that is the same in every read / object / process.

Files are written in varied physical layouts and with text cells that hold characters which are ordinary data for the format
(_gen_file_form); when a case on such a file fails, it is re-run with those features switched off one by one and the signature
names the features the failure needs (_refine), e.g. csv[text=brk]/count/mode=extra-interactions.  Failures that only need a feature of
where the file lies / what the process may do with it are reported as file[...] whatever the format.
"""
import os, sys, json, gzip, random, tempfile, shutil, subprocess, warnings
from collections import Counter

ID    = "C14"
LEVEL = "exploration"
RULE  = ("seeded example sets (0-40 examples; str/int/float/Categorical/singleton-list/multi-label labels; label type "
         "c/r/m/inferred; dense, sparse, scalar and None features; single-class, late-label, duplicate-example "
         "patterns) x 9 entry paths (X,Y | pair source | dense rows+label index | sparse rows+label key | CSV | ARFF "
         "dense | ARFF sparse | LibSVM | Manik; label column by index and by header; with and without take; files in "
         "varied layouts: LF/CRLF, no final line end, blank tail, gz, file:// url, tabs / runs of blanks in libsvm, > 1 MiB, "
         "ARFF comment lines, quoted cells, text cells and labels with punctuation / control / unicode line-boundary / non-ascii "
         "chars / blanks / commas inside; CSV: other delimiters, empty cells, blanks at the ends of cells, multi-line quoted cells; "
         "sparse ARFF with a declared level '0'; files without any example; '.gz' inside the path; files that may not be written); a case "
         "is one example set on one path, read twice from one object, once from a fresh object and once through "
         "Environments.from_supervised; distinct & non-trivial = distinct (path, label kind, label type, column "
         "form, feature kind, take class, label pattern, size class) with at least two examples")
PLAN  = {"quick":    {"shards": 16, "cases": 32000,  "timeout": 600,  "budget_s": 70,  "child_batches": 1,  "child_batch": 24},
         "thorough": {"shards": 16, "cases": 400000, "timeout": 3000, "budget_s": 800, "child_batches": 10, "child_batch": 40}}
REQUIRED = ["oracle.count_order", "oracle.context", "oracle.context.lazy_access", "oracle.actions.classification",
            "oracle.actions.categorical", "oracle.actions.multilabel", "oracle.reward.binary", "oracle.reward.argmax",
            "oracle.reward.jaccard", "oracle.reward.l1", "oracle.reread", "oracle.fresh_object", "oracle.finalized",
            "oracle.take.submultiset", "oracle.take.deterministic", "oracle.crossprocess.compared",
            "path.xy", "path.pairs", "path.rows_dense", "path.rows_sparse", "path.csv", "path.arff_dense",
            "path.arff_sparse", "path.libsvm", "path.manik", "labelcol.index", "labelcol.header",
            "file.plain", "file.text.punct", "file.text.ctrl", "file.text.brk", "file.text.uni", "file.text.blank", "file.text.comma",
            "file.quoted", "file.eol_crlf", "file.no_final_eol", "file.blank_tail", "file.gz", "file.url", "file.blanks", "file.big", "file.arff_comments",
            "file.text.edge", "file.text.empty", "file.text.multiline", "file.delim", "file.no_examples", "file.arff_sparse.level0",
            "file.read_only", "oracle.context.negative_index"]
ASSUMPTIONS = [
    "paths that contain '.gz' somewhere other than at their end are not generated: coba's disk source and sink both take '.gz' anywhere in a path to mean gzip (C07 asserts that writer and reader agree); changing that convention would make existing result files unreadable",
    "'fixed order' is asserted as the same order in every interaction, read, fresh object and process, not a particular collation",
    "label sets are mutually orderable (no mixed str/int), label lists and probed label subsets hold no duplicates",
    "Categorical labels: the action list must equal the declared levels (the data's label domain) and contain every label "
    "that occurs; for sparse ARFF the reader's documented extra level '0' is accepted in front",
    "regression: the action set is only required to be the same in every interaction; rewards are probed at generated actions",
    "multi-label rewards are probed with label subsets (sequences), the argument form HammingReward documents",
    "with take the action list is only required to lie between the labels of the sample and the labels of the whole data",
    "classification with list-valued labels uses singleton lists; multi-element label lists are only used with label type m",
    "file workloads hold no missing markers, escapes or quote chars inside values; multi-line fields only as double-quoted CSV feature cells "
    "whose lines end with LF (inner lines may be empty); CSV cells are compared as the written text",
    "CSV only: a feature cell may be empty, may consist of blanks only and a feature cell / a label may begin or end with blanks (space, tab "
    "unless it is the delimiter, no-break / ideographic space, FF, US, NEL, U+2028): they belong to the cell, so 'yes' and 'yes ' are two "
    "labels; a label is never empty or blank-only; the delimiter may be given as CsvSource(..., delimiter=) (tab ; | or one blank)",
    "a source / file without a single example (empty file, header only, ARFF without data rows, Manik meta line only) must give zero "
    "interactions, it must not raise",
    "sparse ARFF: a nominal label (or feature) may declare a level named '0'; an example of that level may store it or leave it out; the "
    "actions are then only required to be the declared levels, each once, in any (fixed) order",
    "where a data file lies and whether the process may write it is no part of the data: a path that holds '.gz' elsewhere than at its end "
    "is a plain file, and a file that can be read but not written (mode 0444; for a privileged process the immutable flag) is read like any other; "
    "when write permission cannot be taken away from the process the read-only cases decide nothing (file.read_only stays 0 -> INCONCLUSIVE)",
    "text cells / labels of files may hold, strictly inside the cell (first and last char alphanumeric), chars that are plain data for the "
    "format: ascii punctuation other than , ' \" \\ % ? { }, control chars other than CR / LF / NUL, non-ascii chars (incl. NEL, "
    "U+2028/9, no-break and ideographic blanks); blanks and commas inside a cell only where the format keeps them (CSV: blanks anywhere, "
    "commas in double-quoted cells; ARFF: both only in quoted string values); libsvm/manik labels hold no blank, comma or colon",
    "a file's records end at LF or CRLF only; the last record may lack its line end; blank lines after the data, '%' comment lines in "
    "an ARFF file, a .gz file, a file:// url, several blanks / tabs between libsvm items and a file bigger than 1 MiB are all the same data",
    "label types are only combined with label values they are defined for (no r on strings, no m on scalars, CSV: c or inferred)",
    "contexts of lazy rows are read through iteration, len, integer indexing (dense) and items/keys/[] (sparse) only; for a negative position "
    "-len..-1 the context may decline (IndexError / TypeError) but what it answers must be that feature (never the label); positions out of range are not used",
    "the finalised view (Environments.from_supervised(...)[0]) is checked for count, rewards per offered action and contexts without Categorical cells",
]

MODES = ["xy", "pairs", "rows_dense", "rows_sparse", "csv", "arff_dense", "arff_sparse", "libsvm", "manik"]

STR_POOL   = ["a", "b", "c", "aa", "ab", "B", "z", "10", "9", "-1", "1", "yes", "no", "x1", "cat", "dog", "k7", "Zz"]
INT_POOL   = [-3, -2, -1, 0, 1, 2, 3, 5, 7, 10, 12]
FLOAT_POOL = [-1.5, 0.0, 0.5, 1.0, 2.5, 3.25, 10.0, -0.25, 7.75]
TOK_POOL   = ["p", "q", "r", "lo", "mid", "hi", "t1", "t2", "u", "v", "w", "x", "y", "z", "m5"]

# characters that are ordinary field content for the csv / arff / libsvm / manik formats (none of them separates records or -- where
# they are used -- fields).  They always sit in the interior of a cell, between alphanumeric tokens.
TEXT_CHARS = {"punct": ";:|#!$&*+-./<=>@^_~()[]",                         # ascii punctuation that is no syntax of the format
              "ctrl":  "\x01\x08\x1f\x7f",                                 # ascii control chars
              "brk":   "\x0b\x0c\x1c\x1d\x1e\x85\u2028\u2029",                 # what unicode (but no file format) calls a line boundary
              "uni":   "\u00e9\u00df\u03a9\u65e5\u672c\U0001f600\u00a0\u3000\u200b",   # letters beyond ascii / latin-1 / the BMP, odd blanks
              "blank": " \t",                                             # blanks inside a cell
              "comma": ",",                                               # the field separator inside a quoted cell
              # csv only: what a cell may look like at its ends (the classes above only change the interior of a cell)
              "edge":  " \t\u00a0\u3000\x0c\x1f\x85\u2028",                     # blanks (ascii and not) at the start / the end of a cell
              "empty": "",                                                # cells that hold nothing at all
              "multiline": "\n"}                                          # a quoted cell that goes on over several lines (one may be empty)
CSV_ONLY_TEXT = ("edge", "empty", "multiline")
# how the file is laid out on disk; the default is what the module always wrote
FILE_DEFAULT = {"eol": "\n", "final_eol": True, "blank_tail": 0, "gz": False, "url": False, "sep": " ", "long": 0, "long_col": None,
                "comments": [], "comment_cls": None, "delim": ",", "name_gz": None, "read_only": False}
DELIM_NAMES = {"\t": "tab", ";": "semicolon", "|": "bar", " ": "blank"}
FILE_MODES = ("csv", "arff_dense", "arff_sparse", "libsvm", "manik")

# ================================================================================================ generator
def _pick_labels(rng, pool, n):
    """n labels over k classes with a structural pattern"""
    k = min(rng.choice([1, 2, 2, 3, 3, 3, 4, 5, 7]), len(pool))
    classes = rng.sample(pool, k)
    pattern = rng.choice(["uniform", "uniform", "uniform", "late", "single", "first-unique"])
    if n == 0: return [], classes, "empty"
    if pattern == "single" or k == 1:
        return [classes[0]]*n, classes[:1], "single"
    if pattern == "late":            # one class appears only in the last example
        ys = [rng.choice(classes[:-1]) for _ in range(n-1)] + [classes[-1]]
    elif pattern == "first-unique":  # the first example's class never appears again
        ys = [classes[0]] + [rng.choice(classes[1:]) for _ in range(n-1)]
    else:
        ys = [rng.choice(classes) for _ in range(n)]
    return ys, classes, pattern

def _num(rng, allow_zero=True):
    r = rng.random()
    if r < .45: v = rng.randint(-9, 9)
    elif r < .9: v = round(rng.uniform(-50, 50), rng.choice([1, 2, 3]))
    else: v = rng.choice([100, -100, 0.125, 1000.5])
    if not allow_zero and v == 0: v = 1
    return v

def _cell(rng, kinds="nfs"):
    k = rng.choice(kinds)
    if k == "n": return rng.randint(-9, 9)
    if k == "f": return _num(rng)
    return rng.choice(TOK_POOL)

def gen_case(rng, mode=None, hash_sensitive=False):
    mode = mode or rng.choice(MODES)
    n = rng.choice([0, 1, 1, 2, 2, 3, 3, 4, 5, 6, 8, 10, 13, 20, 40])
    if hash_sensitive: n = max(n, 6)
    spec = {"mode": mode, "n": n, "pseed": rng.randrange(1 << 30), "kw": rng.random() < .4}

    # ------------------------------------------------------------------ label kind / label type
    if mode in ("xy", "pairs", "rows_dense"):
        kind = rng.choice(["str", "str", "int", "float", "cat", "list1", "multi", "reg"])
        # a class label may be any hashable value: tuples (one-hot codes, (row, column) cells) are single labels, not label lists
        if mode != "rows_dense" and not hash_sensitive and rng.random() < .1: kind = "tup"
    elif mode == "rows_sparse":
        kind = rng.choice(["str", "int", "int", "float", "cat", "reg", "multi"])
    elif mode == "csv":        kind = "str"
    elif mode == "arff_dense": kind = rng.choice(["cat", "cat", "str", "int", "float", "reg"])
    elif mode == "arff_sparse":kind = rng.choice(["cat", "cat", "int", "reg"])
    else:                      kind = rng.choice(["list1", "list1", "multi"])
    if hash_sensitive:
        kind = {"csv": "str", "arff_sparse": "cat", "libsvm": rng.choice(["list1", "multi"]), "manik": rng.choice(["list1", "multi"])}.get(
            mode, rng.choice(["str", "str", "list1", "multi"] if mode != "rows_sparse" else ["str", "multi"]))
        if mode == "arff_dense": kind = "str"
    spec["label_kind"] = kind

    elem = None
    if kind in ("list1", "multi"):
        elem = "str" if (mode in ("libsvm", "manik") or hash_sensitive) else rng.choice(["str", "str", "int"])
    spec["elem"] = elem
    if   kind == "str":   ltype = rng.choice([None, "c"])
    elif kind in ("int", "float"): ltype = "c"
    elif kind == "tup":   ltype = rng.choice([None, "c"])
    elif kind == "reg":   ltype = rng.choice([None, "r"])
    elif kind == "cat":   ltype = rng.choice([None, "c"])
    elif kind == "list1": ltype = rng.choice([None, "c", "m"])
    else:                 ltype = "m"
    if mode == "csv": ltype = rng.choice([None, "c"])
    if mode == "rows_sparse" and kind == "cat": ltype = rng.choice([None, "c"])
    if ltype and rng.random() < .1: ltype = ltype.upper()
    spec["label_type"] = ltype

    # ------------------------------------------------------------------ labels
    levels = None
    if kind == "str":
        ys, classes, pat = _pick_labels(rng, STR_POOL, n)
        if hash_sensitive and len(set(ys)) < 4:
            classes = rng.sample(STR_POOL, 6); ys = [classes[i % 6] for i in range(n)]; rng.shuffle(ys); pat = "uniform"
    elif kind == "int":   ys, classes, pat = _pick_labels(rng, INT_POOL, n)
    elif kind == "tup":   ys, classes, pat = _pick_labels(rng, rng.choice([[[1, 0, 0], [0, 1, 0], [0, 0, 1]], [[0, 0], [0, 1], [1, 0], [1, 1], [2, 0]], [["a", 1], ["a", 2], ["b", 1]]]), n)
    elif kind == "float": ys, classes, pat = _pick_labels(rng, FLOAT_POOL, n)
    elif kind == "reg":
        ys = [_num(rng) for _ in range(n)]; pat = "regression"
        if mode in ("arff_dense", "arff_sparse"): ys = [float(y) if rng.random() < .5 else y for y in ys]
    elif kind == "cat":
        ys, classes, pat = _pick_labels(rng, TOK_POOL + ["1", "2", "3"], n)
        if hash_sensitive and len(set(ys)) < 4:
            classes = rng.sample(TOK_POOL, 6); ys = [classes[i % 6] for i in range(n)]; rng.shuffle(ys); pat = "uniform"
        levels = list(classes)
        if rng.random() < .35: levels += rng.sample([t for t in ["n1", "n2", "n3"]], rng.randint(1, 2))   # declared, never used
        rng.shuffle(levels)
        if mode == "arff_sparse" and rng.random() < .4:
            # a level named "0": the value a sparse row does not store.  Either one of the classes that occur carries that name or
            # the level is only declared
            spec["zero_level"] = True
            if n and rng.random() < .75:
                c = rng.choice(classes)
                ys = ["0" if y == c else y for y in ys]; levels = ["0" if l == c else l for l in levels]
            else: levels.insert(rng.randint(0, len(levels)), "0")
    elif kind == "list1":
        pool = STR_POOL if elem == "str" else INT_POOL
        if mode in ("libsvm", "manik"): pool = [s for s in STR_POOL]
        ys0, classes, pat = _pick_labels(rng, pool, n)
        if hash_sensitive and len(set(ys0)) < 4:
            classes = rng.sample(pool, 6); ys0 = [classes[i % 6] for i in range(n)]; rng.shuffle(ys0); pat = "uniform"
        ys = [[y] for y in ys0]
    else:  # multi
        pool = STR_POOL if elem == "str" else INT_POOL
        k = min(rng.choice([1, 2, 3, 4, 5, 6]) if not hash_sensitive else 7, len(pool))
        classes = rng.sample(pool, k)
        ys = []
        for _ in range(n):
            m = rng.randint(1, k)
            ys.append(rng.sample(classes, m))
        pat = "multi"
        if n and rng.random() < .2:                      # one label only in the last example
            extra = rng.choice([p for p in pool if p not in classes] or [classes[0]])
            if extra not in ys[-1]: ys[-1] = ys[-1] + [extra]
            pat = "multi-late"
        if n and mode in ("xy", "pairs", "rows_dense") and rng.random() < .06:   # an example that carries no label at all
            ys[rng.randrange(n)] = []; pat = "multi-empty"
    spec.update({"Y": ys, "levels": levels, "pattern": pat})

    # ------------------------------------------------------------------ features
    if mode in ("xy", "pairs"):
        fk = rng.choice(["tuple", "tuple", "list", "sparse", "sparse", "scalar", "none"])
        if fk in ("tuple", "list"):
            d = rng.choice([0, 1, 2, 3, 5]); X = [[_cell(rng) for _ in range(d)] for _ in range(n)]
        elif fk == "sparse":
            keys = rng.sample(["a", "b", "c", "d", "e", "f"], rng.randint(1, 5))
            X = [[[k, _cell(rng)] for k in keys if rng.random() < .6] for _ in range(n)]
        elif fk == "scalar": X = [_cell(rng) for _ in range(n)]
        else: X = [None]*n
        spec.update({"feat_kind": fk, "X": X})
    elif mode == "rows_dense":
        d = rng.choice([0, 1, 2, 3, 5])
        spec.update({"feat_kind": rng.choice(["list", "tuple"]), "X": [[_cell(rng) for _ in range(d)] for _ in range(n)],
                     "label_pos": rng.randint(0, d)})
    elif mode == "rows_sparse":
        intkeys = rng.random() < .3
        keys = rng.sample([1, 2, 3, 4, 5, 6] if intkeys else ["a", "b", "c", "d", "e", "f"], rng.randint(1, 5))
        X = [[[k, _cell(rng, "nf" if intkeys else "nfs")] for k in keys if rng.random() < .6] for _ in range(n)]
        X = [[kv for kv in x if kv[1] != 0] for x in X]
        spec.update({"feat_kind": "sparse", "X": X, "label_key": 0 if intkeys else rng.choice(["y", "label", "Z"]),
                     "omit_zero_label": rng.random() < .7})
    elif mode == "csv":
        d = rng.choice([0, 1, 2, 3, 5])
        hdr = rng.random() < .6
        X = [[str(_cell(rng)) for _ in range(d)] for _ in range(n)]
        pos = rng.randint(0, d)
        names = [f"f{i}" for i in range(d)]
        lname = rng.choice(["y", "label", "class", "a"])
        spec.update({"feat_kind": "dense", "X": X, "label_pos": pos, "has_header": hdr, "feat_names": names, "label_name": lname,
                     "by": "header" if (hdr and rng.random() < .6) else "index"})
    elif mode in ("arff_dense", "arff_sparse"):
        d = rng.choice([0, 1, 2, 3, 5]) if mode == "arff_dense" else rng.choice([1, 2, 3, 5])
        cols = []
        for i in range(d):
            t = rng.choice(["numeric", "numeric", "nominal", "string"] if mode == "arff_dense" else ["numeric", "numeric", "numeric", "nominal"])
            cols.append({"name": f"f{i}", "type": t, "levels": rng.sample(TOK_POOL, rng.randint(2, 4)) if t == "nominal" else None})
            if t == "nominal" and mode == "arff_sparse" and rng.random() < .3: cols[-1]["levels"][rng.randrange(len(cols[-1]["levels"]))] = "0"
        X = []
        for _ in range(n):
            row = []
            for c in cols:
                if c["type"] == "numeric": row.append(_num(rng) if (mode == "arff_dense" or rng.random() < .6) else 0)
                elif c["type"] == "nominal": row.append(rng.choice(c["levels"]))
                else: row.append(rng.choice(TOK_POOL))
            X.append(row)
        spec.update({"feat_kind": "dense" if mode == "arff_dense" else "sparse", "X": X, "cols": cols, "label_pos": rng.randint(0, d),
                     "label_name": rng.choice(["y", "label", "class", "Target"]), "by": rng.choice(["header", "index"]),
                     "num_word": rng.choice(["numeric", "real", "integer"] if kind != "reg" and kind != "float" else ["numeric", "real"]),
                     "omit_zero_label": rng.random() < .7, "omit_zero_nominal": rng.random() < .5})
    else:  # libsvm / manik
        keys = sorted(rng.sample(range(1, 12), rng.randint(1, 6)))
        X = [[[k, _num(rng, allow_zero=False)] for k in keys if rng.random() < .6] for _ in range(n)]
        spec.update({"feat_kind": "sparse", "X": X})

    # ------------------------------------------------------------------ take
    take = None
    if mode != "xy" and rng.random() < .35:
        take = rng.choice([0, 1, 2, 3, max(n-1, 0), n, n+1, n+5, 2*n+1])
    if spec["pattern"] == "multi-empty": take = None
    spec["take"] = take
    if mode in FILE_MODES: _gen_file_form(rng, spec)
    return spec

def _rich(rng, chars):
    """tokens joined by one or two of the given characters: token (chars token)+"""
    s = rng.choice(TOK_POOL)
    for _ in range(rng.choice([1, 1, 1, 2, 3])):
        s += "".join(rng.choice(chars) for _ in range(rng.choice([1, 1, 1, 2]))) + rng.choice(TOK_POOL)
    return s

def _edged(rng, chars):
    """a token with blanks in front of it and / or behind it; now and then nothing but blanks"""
    if rng.random() < .1: return "".join(rng.choice(chars) for _ in range(rng.choice([1, 2])))
    lead  = "".join(rng.choice(chars) for _ in range(rng.choice([0, 1, 1, 2])))
    trail = "".join(rng.choice(chars) for _ in range(rng.choice([0, 1, 1, 2]) if lead else rng.choice([1, 1, 2])))
    return lead + rng.choice(TOK_POOL) + trail

def _lines(rng, chars):
    """a cell of two to four lines; inner lines may be empty"""
    parts = [rng.choice(TOK_POOL)] + [rng.choice(TOK_POOL + ["", "", ""]) for _ in range(rng.choice([0, 0, 1, 2]))] + [rng.choice(TOK_POOL)]
    if len(parts) == 2 and rng.random() < .5: parts.insert(1, "")
    return "\n".join(parts)

def _gen_file_form(rng, spec):
    """physical layout of the file (line ends, final newline, blank tail, gz, file:// url, blank kind, size beyond one read chunk) and
    text cells / labels that hold characters which are plain data for the format; spec['plain'] keeps the example set without them"""
    mode, kind, n = spec["mode"], spec["label_kind"], spec["n"]
    form = dict(FILE_DEFAULT)
    if rng.random() < .2: form["eol"] = "\r\n"
    if rng.random() < .2: form["final_eol"] = False
    elif rng.random() < .12: form["blank_tail"] = rng.choice([1, 2])
    if rng.random() < .1: form["gz"] = True
    if rng.random() < .15: form["url"] = True
    if mode in ("libsvm", "manik") and rng.random() < .3: form["sep"] = rng.choice(["\t", "  ", " \t"])
    if mode == "csv" and rng.random() < .3: form["delim"] = rng.choice(["\t", "\t", ";", "|", " "])          # CsvSource(..., delimiter=)
    if False and rng.random() < .08: form["name_gz"] = rng.choice(["file", "dir"])       # not generated: see ASSUMPTIONS (coba's disk source and sink agree that '.gz' anywhere in a path means gzip)                                   # '.gz' inside the path, not at its end
    if rng.random() < .06: form["read_only"] = True                                                       # a file the process may read but not write

    text = quote = None
    X, Y = [list(x) for x in spec["X"]], list(spec["Y"])
    if mode == "csv":                    text_cols = list(range(len(X[0]))) if X else []
    elif mode == "arff_dense":           text_cols = [i for i, c in enumerate(spec["cols"]) if c["type"] == "string"]
    else:                                text_cols = []
    text_label = (mode == "csv") or (mode == "arff_dense" and kind == "str") or mode in ("libsvm", "manik")
    if mode != "arff_sparse" and n and rng.random() < .45:
        if mode == "csv":          cls = rng.choice(["punct", "ctrl", "brk", "uni", "blank", "comma", "edge", "edge", "empty", "empty", "multiline", "multiline"])
        elif mode == "arff_dense": cls = rng.choice(["punct", "ctrl", "brk", "brk", "uni", "blank", "comma"])
        else:                      cls = rng.choice(["punct", "ctrl", "uni"])
        if cls in ("empty", "multiline") and not text_cols: cls = "edge"
        chars = TEXT_CHARS[cls]
        if mode == "arff_dense" and cls == "blank": chars = " "                       # a tab may be the field separator of an arff file
        if mode in ("libsvm", "manik"): chars = "".join(c for c in chars if not c.isspace() and c not in ",:")   # labels are blank-free tokens
        if mode == "csv" and cls != "comma": chars = chars.replace(form["delim"], "")  # the delimiter of this file is data in quoted cells only
        need_quote = cls in ("comma", "multiline") or (mode == "arff_dense" and cls == "blank")
        if cls == "edge":        rich = _edged
        elif cls == "empty":     rich = lambda rng, chars: ""
        elif cls == "multiline": rich = _lines
        else:                    rich = _rich
        if mode in ("csv", "arff_dense") and (need_quote or rng.random() < .3):
            quote = '"' if mode == "csv" else rng.choice(["'", '"'])
        changed = False
        if text_cols:
            p = rng.choice([.25, .5, 1.])
            for x in X:
                for j in text_cols:
                    if rng.random() < p: x[j] = rich(rng, chars); changed = True
            if not changed: X[rng.randrange(n)][rng.choice(text_cols)] = rich(rng, chars); changed = True
        if text_label and cls not in ("empty", "multiline") and (not changed or rng.random() < (.6 if cls == "edge" else .3)):
            deco = {}
            def d(l):
                if cls == "edge":              # per example: 'yes' and 'yes ' are two labels of the data
                    return rng.choice([l, l, l + rng.choice(chars), rng.choice(chars) + l])
                if l not in deco: deco[l] = l + rng.choice(chars) + "q"
                return deco[l]
            Y0, Y = Y, [[d(l) for l in y] if isinstance(y, list) else d(y) for y in Y]
            if cls == "edge" and Y == Y0: Y[-1] = Y[-1] + chars[0]
            changed = True
        if changed:
            text = cls
            spec["plain"] = {"X": spec["X"], "Y": spec["Y"]}
            spec["X"], spec["Y"] = X, Y
        else: quote = None
    elif mode in ("csv", "arff_dense") and (text_cols or (text_label and mode == "arff_dense")) and rng.random() < .1:
        quote = '"' if mode == "csv" else rng.choice(["'", '"'])                      # quoted plain cells
    if mode in ("arff_dense", "arff_sparse") and rng.random() < .2:                     # '%' comment lines in the header and between the data rows
        form["comment_cls"] = text or rng.choice(sorted(set(TEXT_CHARS) - set(CSV_ONLY_TEXT)))
        form["comments"] = [[rng.randint(-1, n), "% " + _rich(rng, TEXT_CHARS[form["comment_cls"]])] for _ in range(rng.choice([1, 1, 2, 3]))]
    if text_cols and n >= 13 and text != "multiline" and rng.random() < .12:                                   # a file larger than one read chunk (2**20 chars)
        form["long"], form["long_col"] = min(110000, 1500000 // n + 1), rng.choice(text_cols)
    spec["file"], spec["text"], spec["quote"] = form, text, quote

def _long(cell, L):
    unit = cell + "_"
    return (unit * (L // len(unit) + 1))[:L] + "z"

def expand(spec):
    """the example set a compact spec stands for (the cells of the 'long' column are blown up to their length)"""
    form = spec.get("file") or {}
    L, c = form.get("long", 0), form.get("long_col")
    if not L or spec.get("_expanded"): return spec
    s = dict(spec); s["_expanded"] = True
    s["X"] = [[_long(v, L) if j == c else v for j, v in enumerate(x)] for x in spec["X"]]
    return s

def file_form(spec): return {**FILE_DEFAULT, **(spec.get("file") or {})}

def file_flags(spec):
    """[(name, the same spec with that one feature of the file switched off)] for the features that are on"""
    if spec["mode"] not in FILE_MODES: return []
    form, out = file_form(spec), []
    def sub(**kw): return dict(spec, file={**form, **kw})
    if spec.get("text"):
        out.append((f"text={spec['text']}", dict(spec, X=spec["plain"]["X"], Y=spec["plain"]["Y"], text=None)))
    if spec.get("quote") and not (spec.get("text") in ("comma", "multiline") or (spec.get("text") == "blank" and spec["mode"] == "arff_dense")):
        out.append(("quoted", dict(spec, quote=None)))
    if form["delim"] != ",":  out.append((f"delim={DELIM_NAMES[form['delim']]}", sub(delim=",")))
    if form["name_gz"]:       out.append(("gz-inside-path", sub(name_gz=None)))
    if form["read_only"]:     out.append(("not-writable", sub(read_only=False)))
    if form["eol"] != "\n":  out.append(("eol=crlf", sub(eol="\n")))
    if not form["final_eol"]: out.append(("no-final-eol", sub(final_eol=True)))
    if form["blank_tail"]:    out.append(("blank-tail", sub(blank_tail=0)))
    if form["gz"]:            out.append(("gz", sub(gz=False)))
    if form["url"]:           out.append(("file-url", sub(url=False)))
    if form["sep"] != " ":    out.append(("blanks", sub(sep=" ")))
    if form["long"]:          out.append(("big", sub(long=0)))
    if form["comments"]:      out.append((f"comment={form['comment_cls']}", sub(comments=[])))
    return out

def plain_file(spec):
    s = dict(spec, file=dict(FILE_DEFAULT), text=None, quote=None)
    if spec.get("text"): s["X"], s["Y"] = spec["plain"]["X"], spec["plain"]["Y"]
    return s

# ================================================================================================ writers (common dialect)
def _tok(v):
    """plain text of a number / token: ints as digits, floats in positional notation"""
    if isinstance(v, float):
        s = repr(v)
        if "e" in s or "E" in s: s = f"{v:.6f}"
        return s
    return str(v)

def _emit(spec, path, lines):
    """lines -> file, in the layout the spec asks for"""
    form = file_form(spec)
    eol = form["eol"]
    txt = eol.join(lines) + (eol if form["final_eol"] else "") + eol*form["blank_tail"]
    opener = gzip.open if form["gz"] else open
    with opener(path, "wt", encoding="utf8", newline="") as f: f.write(txt)

def _arff_lines(spec, header, data):
    """header + data rows with the comment lines of the layout put in: position -1 is inside the header, i is in front of data row i"""
    com = file_form(spec)["comments"]
    out = header[:1] + [t for i, t in com if i < 0] + header[1:]
    for j in range(len(data) + 1):
        out += [t for i, t in com if i == j or (j == len(data) and i > j)]
        if j < len(data): out.append(data[j])
    return out

def _q(v, q): return f"{q}{v}{q}" if q else v

def write_csv(spec, path):
    pos, lines, q, dl = spec["label_pos"], [], spec.get("quote"), file_form(spec)["delim"]
    if spec["has_header"]:
        h = list(spec["feat_names"]); h.insert(pos, spec["label_name"]); lines.append(dl.join(h))
    for x, y in zip(spec["X"], spec["Y"]):
        r = list(x); r.insert(pos, y); lines.append(dl.join(_q(v, q) for v in r))
    _emit(spec, path, lines)

def _arff_header(spec):
    kind = spec["label_kind"]
    if kind == "cat":   ltxt = "{" + ",".join(spec["levels"]) + "}"
    elif kind == "str": ltxt = "string"
    else:               ltxt = spec["num_word"]
    attrs = [(c["name"], ("{" + ",".join(c["levels"]) + "}") if c["type"] == "nominal" else ("string" if c["type"] == "string" else "numeric")) for c in spec["cols"]]
    attrs.insert(spec["label_pos"], (spec["label_name"], ltxt))
    return ["@relation verif", ""] + [f"@attribute {n} {t}" for n, t in attrs] + ["", "@data"]

def write_arff_dense(spec, path):
    lines, q = [], spec.get("quote")
    for x, y in zip(spec["X"], spec["Y"]):
        r = [_q(v, q) if c["type"] == "string" else _tok(v) for v, c in zip(x, spec["cols"])]
        r.insert(spec["label_pos"], _q(y, q) if spec["label_kind"] == "str" else _tok(y)); lines.append(",".join(r))
    _emit(spec, path, _arff_lines(spec, _arff_header(spec), lines))

def write_arff_sparse(spec, path):
    lines = []
    numeric_label = spec["label_kind"] != "cat"
    for x, y in zip(spec["X"], spec["Y"]):
        r = list(x); r.insert(spec["label_pos"], y)
        types = [c["type"] for c in spec["cols"]]; types.insert(spec["label_pos"], "numeric" if numeric_label else "nominal")
        cells = []
        for i, (v, t) in enumerate(zip(r, types)):
            if t == "numeric" and v == 0 and (i != spec["label_pos"] or spec["omit_zero_label"]): continue   # zeros are not stored
            if t == "nominal" and v == "0" and spec.get("omit_zero_label" if i == spec["label_pos"] else "omit_zero_nominal"): continue   # nor is the level 0
            cells.append(f"{i} {_tok(v)}")
        lines.append("{" + ",".join(cells) + "}")
    _emit(spec, path, _arff_lines(spec, _arff_header(spec), lines))

def write_libsvm(spec, path, manik=False):
    lines, sep = [], file_form(spec)["sep"]
    if manik:
        nl = len({l for y in spec["Y"] for l in y}); nf = max([k for x in spec["X"] for k, _ in x] or [0]) + 1
        lines.append(f"{len(spec['X'])} {nf} {nl}")
    for x, y in zip(spec["X"], spec["Y"]):
        lines.append(sep.join([",".join(map(str, y))] + [f"{k}:{_tok(v)}" for k, v in x]))
    _emit(spec, path, lines)

WRITERS = {"csv": write_csv, "arff_dense": write_arff_dense, "arff_sparse": write_arff_sparse, "libsvm": write_libsvm,
           "manik": lambda spec, path: write_libsvm(spec, path, manik=True)}

# ================================================================================================ expectation + builder
def effective_ltype(spec):
    lt = spec["label_type"]
    if lt: return lt.lower()
    return "r" if spec["label_kind"] == "reg" else "c"      # inferred: numeric labels -> regression, everything else classification

def expected_examples(spec):
    """[(kind, feats, label)] as python values, straight from the example set.  kind in dense|sparse|value"""
    from coba.primitives import Categorical
    mode, out = spec["mode"], []
    for x, y in zip(spec["X"], spec["Y"]):
        if mode in ("xy", "pairs"):
            fk = spec["feat_kind"]
            if fk in ("tuple", "list"): f = ("dense", list(x))
            elif fk == "sparse":        f = ("sparse", {k: v for k, v in x})
            else:                       f = ("value", x)
        elif mode in ("rows_dense", "csv"): f = ("dense", list(x))
        elif mode == "rows_sparse":  f = ("sparse", {k: v for k, v in x})
        elif mode == "arff_dense":   f = ("dense", [float(v) if c["type"] == "numeric" else v for v, c in zip(x, spec["cols"])])
        elif mode == "arff_sparse":  f = ("sparse", {c["name"]: (float(v) if c["type"] == "numeric" else v) for v, c in zip(x, spec["cols"]) if not (c["type"] == "numeric" and v == 0)})
        else:                        f = ("sparse", {int(k): float(v) for k, v in x})
        lab = y
        if spec["label_kind"] == "tup": lab = tuple(y)
        if mode in ("libsvm", "manik"): lab = [str(l) for l in y]
        if mode in ("arff_dense", "arff_sparse") and spec["label_kind"] in ("int", "float", "reg"): lab = float(y)
        out.append((f[0], f[1], lab))
    return out

def build_args(spec, tmpdir, tag=""):
    """fresh constructor arguments for SupervisedSimulation / Environments.from_supervised"""
    from coba.primitives import Categorical
    from coba.pipes import ListSource
    from coba.environments import CsvSource, ArffSource, LibSvmSource, ManikSource
    mode, lt, take = spec["mode"], spec["label_type"], spec["take"]
    levels = spec["levels"]
    def lab(y): return Categorical(y, list(levels)) if spec["label_kind"] == "cat" else tuple(y) if spec["label_kind"] == "tup" else (list(y) if isinstance(y, list) else y)
    def feats(x):
        fk = spec["feat_kind"]
        if fk == "tuple": return tuple(x)
        if fk == "list":  return list(x)
        if fk == "sparse":return {k: v for k, v in x}
        return x
    if mode == "xy":
        X, Y = [feats(x) for x in spec["X"]], [lab(y) for y in spec["Y"]]
        if lt is None and not spec["kw"]: return (X, Y), {}
        return ((X, Y), {"label_type": lt}) if spec["kw"] else ((X, Y, lt), {})
    label_col = None
    if mode == "pairs":
        src = ListSource([(feats(x), lab(y)) for x, y in zip(spec["X"], spec["Y"])])
    elif mode == "rows_dense":
        rows = []
        for x, y in zip(spec["X"], spec["Y"]):
            r = list(x); r.insert(spec["label_pos"], lab(y)); rows.append(tuple(r) if spec["feat_kind"] == "tuple" else r)
        src, label_col = ListSource(rows), spec["label_pos"]
    elif mode == "rows_sparse":
        key, rows = spec["label_key"], []
        for x, y in zip(spec["X"], spec["Y"]):
            r = {k: v for k, v in x}
            if not (spec["omit_zero_label"] and not isinstance(y, (str, list)) and y == 0): r[key] = lab(y)
            rows.append(r)
        src, label_col = ListSource(rows), key
    else:
        form = file_form(spec)
        name = f"data{'c' if tag == 'c' else ''}.{mode}" + (".gz" if form["gz"] else "")
        if form["read_only"]: name = "ro-" + name
        if form["name_gz"] == "file": name = "set.gz." + name           # '.gz' is a part of the name but not its extension
        folder = os.path.join(tmpdir, "sets.gz.d") if form["name_gz"] == "dir" else tmpdir
        path = os.path.join(folder, name)
        if tag not in ("2", "3"):                                        # fresh objects 2 and 3 re-open the file written for object 1
            os.makedirs(folder, exist_ok=True)
            if form["read_only"]: _unlock(path)
            WRITERS[mode](spec, path)
            if form["read_only"]: LOCKS["effective" if _lock(path) else "unavailable"] += 1
        if form["url"]: path = "file://" + path
        if mode == "csv":
            src = CsvSource(path, has_header=spec["has_header"], **({"delimiter": form["delim"]} if form["delim"] != "," else {}))
            label_col = spec["label_name"] if spec["by"] == "header" else spec["label_pos"]
        elif mode == "arff_dense":
            src = ArffSource(path)
            label_col = spec["label_name"] if spec["by"] == "header" else spec["label_pos"]
        elif mode == "arff_sparse":
            src = ArffSource(path)
            label_col = spec["label_name"] if spec["by"] == "header" else spec["label_pos"]
        elif mode == "libsvm":
            src = LibSvmSource(path)
        else:
            src = ManikSource(path)
    if spec["kw"]:
        kw = {"source": src}
        if label_col is not None: kw["label_col"] = label_col
        if lt is not None: kw["label_type"] = lt
        if take is not None: kw["take"] = take
        return (), kw
    return (src, label_col, lt, take), {}

# ------------------------------------------------------------------ files the process may read but not write
LOCKS = {"effective": 0, "unavailable": 0, "paths": []}
_FS_IOC_GETFLAGS, _FS_IOC_SETFLAGS, _FS_IMMUTABLE_FL = 0x80086601, 0x40086602, 0x10

def _immutable(path, on):
    import fcntl, array
    fd = os.open(path, os.O_RDONLY)
    try:
        buf = array.array("l", [0]); fcntl.ioctl(fd, _FS_IOC_GETFLAGS, buf, True)
        buf[0] = (buf[0] | _FS_IMMUTABLE_FL) if on else (buf[0] & ~_FS_IMMUTABLE_FL)
        fcntl.ioctl(fd, _FS_IOC_SETFLAGS, buf)
    finally: os.close(fd)

def _lock(path):
    """take the write permission away from this process (mode 0444; for a privileged process, which the mode bits do not bind, the
    immutable flag of the file system); True when opening the file for writing really fails afterwards"""
    LOCKS["paths"].append(path)
    os.chmod(path, 0o444)
    if os.access(path, os.W_OK):
        try: _immutable(path, True)
        except Exception: return False
    try: open(path, "r+").close(); return False
    except OSError: return True

def _unlock(path):
    if not os.path.exists(path): return
    try: _immutable(path, False)
    except Exception: pass
    try: os.chmod(path, 0o644)
    except Exception: pass

def _unlock_all():
    for p in LOCKS["paths"]:
        _unlock(p)
        try: os.remove(p)
        except OSError: pass
    LOCKS["paths"].clear()

def col_form(spec):
    m = spec["mode"]
    if m in ("xy", "pairs", "libsvm", "manik"): return "none"
    if m == "rows_dense": return "index"
    if m == "rows_sparse": return "key"
    return spec["by"]

# ================================================================================================ canonical forms
def canon(v):
    """hashable, process-independent form of a value: numbers by value, Categoricals as their string"""
    if isinstance(v, str): return ("s", str(v))
    if isinstance(v, bool): return ("b", v)
    if isinstance(v, (int, float)): return ("n", float(v))
    if v is None: return ("none",)
    if isinstance(v, (list, tuple)): return ("l", tuple(canon(x) for x in v))
    if isinstance(v, dict): return ("d", tuple(sorted(((canon(k), canon(x)) for k, x in v.items()), key=repr)))
    return ("?", repr(v))

ckey = canon

def materialise_context(c):
    """through the context's own public access paths"""
    from coba.primitives import Dense, Sparse
    if isinstance(c, (list, tuple)): return "dense", list(c)
    if isinstance(c, dict): return "sparse", dict(c)
    if isinstance(c, Sparse): return "sparse", dict(c.items())
    if isinstance(c, Dense): return "dense", list(c)
    return "value", c

def probes_multi(spec, actions, label, rnd):
    """label subsets (no duplicates) to evaluate the multi-label reward at"""
    acts = list(actions)
    out = [list(label), list(reversed(label)), tuple(label), list(acts)] + [[a] for a in acts[:6]]
    for _ in range(4):
        if acts: out.append(rnd.sample(acts, rnd.randint(1, len(acts))))
    foreign = "__nolabel__" if (acts and isinstance(acts[0], str)) else 987654
    out.append(list(label) + [foreign]); out.append([foreign])
    return out

def probes_reg(y, rnd):
    return [y, y+1, y-1, 0, -y, 0.5, rnd.uniform(-100, 100), rnd.randint(-20, 20), 1e6, -1e6, y+0.001]

def jaccard(s, t):
    s, t = set(map(ckey, s)), set(map(ckey, t))
    return len(s & t)/len(s | t)

def observe(inter, spec, rnd):
    """canonical, process-independent picture of a list of interactions (used across reads/objects/processes)"""
    lt, out = effective_ltype(spec), []
    for it in inter:
        kind, ctx = materialise_context(it["context"])
        acts = list(it["actions"]) if it["actions"] is not None else None
        r = it["rewards"]
        if lt == "r":   rw = [r(a) for a in (0, 1, -2.5)]
        elif lt == "m": rw = [r([a]) for a in acts] + ([r(list(acts))] if acts else [])      # never two empty sets (0/0 is undefined)
        else:           rw = [r(a) for a in acts]
        out.append({"c": [kind, canon(ctx)], "a": [canon(a) for a in acts], "r": [repr(float(x)) for x in rw]})
    return out

# ================================================================================================ the oracle
NO_REFINE    = ("dense-context/", "multilabel/")       # mechanisms behind the readers: the layout of a file plays no part in them
ACCESS_FLAGS = ("gz-inside-path", "not-writable")

class _Stop(Exception):
    def __init__(self, sig, what): self.sig, self.what = sig, what

def _read(env):
    with warnings.catch_warnings():
        warnings.simplefilter("ignore")
        return list(env.read())

def check_case(spec, ctx=None, tmpdir=None):
    own = tmpdir is None
    if own: tmpdir = tempfile.mkdtemp(prefix="vf-c14-")
    try:
        try:
            _check(spec, ctx, tmpdir); return []
        except _Stop as s:
            return [(_refine(spec, s.sig, tmpdir), s.what)]
    finally:
        if own: shutil.rmtree(tmpdir, ignore_errors=True)

def _refine(spec, sig, tmpdir):
    """a failure on a file whose layout / text is not the plain one names the features of the file it needs: the case is re-run with
    the features switched off one after the other; the ones that cannot be switched off without changing the outcome go into the
    signature (none when the plain file fails alike)"""
    flags = file_flags(spec)
    if not flags or sig.startswith(NO_REFINE): return sig
    def outcome(sp):
        try: _check(sp, None, tmpdir); return None
        except _Stop as s: return s.sig
        except Exception as ex: return f"?{type(ex).__name__}"
    if outcome(plain_file(spec)) == sig: return sig
    cur, kept = spec, set()
    while True:                                   # greedy: switch off whatever can be switched off without changing the outcome
        for name, sp in file_flags(cur):
            if name in kept: continue
            if outcome(sp) == sig: cur = sp; break
            kept.add(name)
        else: break
    needed = [name for name, _ in file_flags(cur)]
    if not needed: return sig
    # the mechanism sits in how the file is read, so the label kind / type / column form / take parts of the signature are dropped
    parts = [p for p in sig.split("/") if p != spec["mode"] and not p.startswith(("label=", "type=", "feat=", "col="))]
    if set(needed) <= set(ACCESS_FLAGS):
        # where the file lies and what the process may do with it is nothing of the format: the mechanism sits in how a file is opened
        return f"file[{','.join(needed)}]/" + "/".join(p for p in parts if p not in ("take", "no-examples"))
    return f"{spec['mode']}[{','.join(needed)}]/" + "/".join(parts)

def _check(spec, ctx, tmpdir):
    try: return _check_inner(spec, ctx, tmpdir)
    finally: _unlock_all()

def _check_inner(spec, ctx, tmpdir):
    from coba.environments import Environments, SupervisedSimulation
    spec = expand(spec)
    mode, kind, lt, take = spec["mode"], spec["label_kind"], effective_ltype(spec), spec["take"]
    given = "inferred" if spec["label_type"] is None else lt
    cf, fk = col_form(spec), spec["feat_kind"]
    fclass = "sparse" if fk == "sparse" else ("dense" if fk in ("dense", "tuple", "list") else fk)
    tk = "/take" if take is not None else ""
    def note(name, n=1):
        if ctx: ctx.count(name, n)
    def fail(part, what):
        # action/reward mechanisms live in SupervisedSimulation.read and the reward classes: their signature names the label
        # kind and type, not the entry path; context / count / re-read mechanisms depend on the path, so theirs starts with it
        raise _Stop(part if part.startswith("label=") else f"{mode}/{part}", what)
    S_lab  = f"label={kind}{'+level0' if spec.get('zero_level') else ''}/type={given}"   # signature part for action/reward failures
    S_ctx  = f"feat={fclass}/col={cf}"                   # signature part for context failures

    exp = expected_examples(spec)
    N = len(exp)
    note(f"path.{mode}")
    if ctx:
        size = "0" if N == 0 else "1" if N == 1 else "2-5" if N <= 5 else "6+"
        tclass = None if take is None else ("0" if take == 0 else "<N" if take < N else "=N" if take == N else ">N")
        ctx.case((mode, kind, given, cf, fk, tclass, spec["pattern"], size, spec["kw"], bool(spec.get("zero_level")), tuple(n_ for n_, _ in file_flags(spec))), nontrivial=N >= 2)
    if mode in FILE_MODES:
        form = file_form(spec)
        note("file.plain" if not file_flags(spec) else "file.not_plain")
        if spec.get("text"):      note(f"file.text.{spec['text']}")
        if spec.get("quote"):     note("file.quoted")
        if form["eol"] != "\n":   note("file.eol_crlf")
        if not form["final_eol"]: note("file.no_final_eol")
        if form["blank_tail"]:    note("file.blank_tail")
        if form["gz"]:            note("file.gz")
        if form["url"]:           note("file.url")
        if form["sep"] != " ":    note("file.blanks")
        if form["long"]:          note("file.big")
        if form["comments"]:      note("file.arff_comments")
        if form["delim"] != ",":  note("file.delim")
        if form["name_gz"]:       note("file.gz_inside_path")
        if N == 0:                note("file.no_examples")
    if spec.get("zero_level"): note("file.arff_sparse.level0")
    if cf in ("index",) : note("labelcol.index")
    if cf in ("header", "key"): note("labelcol.header")

    # ------------------------------------------------------------------ run the real code
    locked = (LOCKS["effective"], LOCKS["unavailable"])
    try:
        a, k = build_args(spec, tmpdir, "1")
        sim = SupervisedSimulation(*a, **k)
        r1 = _read(sim)
    except Exception as e:
        if N == 0: fail(f"read/no-examples/mode=raise:{type(e).__name__}", f"a source without a single example: the first read raised {type(e).__name__}: {e} instead of giving no interactions")
        fail(f"read/{S_lab}/feat={fclass}/col={cf}{tk}/mode=raise:{type(e).__name__}", f"first read raised {type(e).__name__}: {e}")
    finally:
        if LOCKS["effective"] > locked[0]:   note("file.read_only")
        if LOCKS["unavailable"] > locked[1]: note("file.read_only.unavailable")      # this process can write whatever it can read
    rnd = random.Random(spec["pseed"])

    # ------------------------------------------------------------------ number and order / take
    if take is None:
        note("oracle.count_order")
        if len(r1) != N: fail(f"count{tk}/mode={'lost' if len(r1) < N else 'extra'}-interactions", f"{len(r1)} interactions for {N} examples")
        pairing = list(range(N))
    else:
        note("oracle.take.submultiset")
        want = min(take, N)
        if len(r1) != want: fail(f"count/take/mode=wrong-size", f"take={take} on {N} examples gave {len(r1)} interactions, expected {want}")
        pairing = None

    for key in ("context", "actions", "rewards"):
        for it in r1:
            if key not in it: fail(f"interaction/mode=missing-{key}", f"interaction without '{key}': {list(it)}")

    # ------------------------------------------------------------------ context == features without the label
    def ctx_matches(it, e):
        kind_e, feats_e, _ = e
        k_, c_ = materialise_context(it["context"])
        return k_ == kind_e and ckey(c_) == ckey(feats_e)

    if pairing is None:
        # pair every sampled interaction with an unused example that has the same features and the same label
        pool = Counter()
        for i, e in enumerate(exp): pool[(e[0], ckey(e[1]), _labkey(e[2], lt))] += 1
        matched = []
        for j, it in enumerate(r1):
            k_, c_ = materialise_context(it["context"])
            lab_ = _label_from_reward(it, lt, exp)
            key = (k_, ckey(c_), lab_)
            if pool[key] <= 0:
                if any(p[0] == k_ and p[1] == ckey(c_) for p in pool): fail(f"{S_lab}/take/mode=label-not-of-that-example", f"sampled interaction {j} pairs features {c_} with a label another example has")
                if k_ != "value" and any(_is_with_label(c_, e) for e in exp): fail(f"{S_ctx}/context/mode=label-left-in-context", f"sampled interaction {j} context {c_} still holds the label")
                fail(f"{S_ctx}/take/mode=not-a-submultiset", f"sampled interaction {j} (context {c_}) is not one of the remaining examples")
            pool[key] -= 1
            idx = next(i for i, e in enumerate(exp) if (e[0], ckey(e[1]), _labkey(e[2], lt)) == key)
            matched.append(idx)
        pairing = matched

    for j, it in enumerate(r1):
        e = exp[pairing[j]]
        note("oracle.context")
        k_, c_ = materialise_context(it["context"])
        if k_ != e[0] or ckey(c_) != ckey(e[1]):
            if k_ != "value" and _is_with_label(c_, e): fail(f"{S_ctx}/context/mode=label-left-in-context", f"interaction {j}: context {c_} still holds the label {e[2]!r}; features are {e[1]}")
            if take is None and any(ckey(c_) == ckey(o[1]) for o in exp): fail(f"{S_ctx}/context/mode=order", f"interaction {j} carries the features of another example")
            fail(f"{S_ctx}/context/mode=wrong-value", f"interaction {j}: context {c_!r} != features {e[1]!r}")
        raw = it["context"]
        if not isinstance(raw, (list, tuple, dict)) and k_ != "value":
            note("oracle.context.lazy_access")
            try:
                if k_ == "dense":
                    if len(raw) != len(e[1]): fail(f"{S_ctx}/context-access/mode=len", f"len(context)={len(raw)} for {len(e[1])} features")
                    got = [raw[i] for i in range(len(e[1]))]
                    if ckey(got) != ckey(e[1]): fail(f"{S_ctx}/context-access/mode=getitem", f"context[i] gives {got}, features {e[1]}")
                    for i in range(-len(e[1]), 0):          # counting from the end: what context[i] answers is feature i (it may decline)
                        try: v = raw[i]
                        except (IndexError, KeyError, TypeError): note("context.negative_index.declined"); continue
                        note("oracle.context.negative_index")
                        if ckey(v) != ckey(e[1][i]):
                            what = f"interaction {j}: context[{i}] gives {v!r}, list(context) is {e[1]!r}"
                            # one mechanism (the view that hides the label column) whatever the entry path
                            if ckey(v) == ckey(e[2]): raise _Stop("dense-context/negative-index/mode=gives-the-label", what + f" and the label is {e[2]!r}")
                            raise _Stop("dense-context/negative-index/mode=wrong-value", what)
                else:
                    if len(raw) != len(e[1]): fail(f"{S_ctx}/context-access/mode=len", f"len(context)={len(raw)} for {len(e[1])} features")
                    if set(map(ckey, raw.keys())) != set(map(ckey, e[1].keys())): fail(f"{S_ctx}/context-access/mode=keys", f"context.keys()={sorted(map(str, raw.keys()))}, features {e[1]}")
                    if set(map(ckey, iter(raw))) != set(map(ckey, e[1].keys())): fail(f"{S_ctx}/context-access/mode=iter", f"iter(context)={sorted(map(str, iter(raw)))}, features {e[1]}")
                    got = {k: raw[k] for k in e[1]}
                    if ckey(got) != ckey(e[1]): fail(f"{S_ctx}/context-access/mode=getitem", f"context[k] gives {got}, features {e[1]}")
            except _Stop: raise
            except Exception as ex:
                fail(f"{S_ctx}/context-access/mode=raise:{type(ex).__name__}", f"reading the context raised {type(ex).__name__}: {ex}")

    # ------------------------------------------------------------------ one action list, in every interaction
    if r1:
        a0 = [canon(a) for a in r1[0]["actions"]]
        for j, it in enumerate(r1):
            if not isinstance(it["actions"], (list, tuple)): fail(f"{S_lab}{tk}/actions/mode=not-a-sequence", f"actions is {type(it['actions']).__name__}")
            if [canon(a) for a in it["actions"]] != a0: fail(f"{S_lab}{tk}/actions/mode=differs-between-interactions", f"interaction {j} offers {it['actions']}, interaction 0 {r1[0]['actions']}")

    all_labels = [e[2] for e in exp]
    smp_labels = [exp[i][2] for i in pairing]
    if r1 and lt in ("c", "m"):
        acts = list(r1[0]["actions"])
        if lt == "m":
            note("oracle.actions.multilabel")
            must, may = {ckey(l) for y in smp_labels for l in y}, {ckey(l) for y in all_labels for l in y}
        elif kind == "cat":
            note("oracle.actions.categorical")
            must = {ckey(l) for l in smp_labels}
            lv = list(spec["levels"])
            may = {ckey(l) for l in lv}
            got = [str(a) for a in acts]
            if mode == "arff_sparse" and "0" in lv:
                # the level the reader adds is one of the declared ones: the actions are the declared levels, each once (checked below),
                # in whatever order
                if set(got) != set(lv): fail(f"{S_lab}{tk}/actions/mode=not-the-declared-levels", f"actions {got}, declared levels {lv}")
            elif got != lv and not (mode == "arff_sparse" and got == ["0"] + lv):
                fail(f"{S_lab}{tk}/actions/mode=not-the-declared-levels", f"actions {got}, declared levels {lv}")
            if mode == "arff_sparse": may = may | {ckey("0")}
        else:
            note("oracle.actions.classification")
            must, may = {ckey(_eff_label(l, "c")) for l in smp_labels}, {ckey(_eff_label(l, "c")) for l in all_labels}
        got = [ckey(a) for a in acts]
        if len(set(got)) != len(got): fail(f"{S_lab}{tk}/actions/mode=duplicate-action", f"actions {acts}")
        if must - set(got): fail(f"{S_lab}{tk}/actions/mode=label-missing-from-actions", f"actions {acts} lack label(s) {sorted(must - set(got))}")
        if set(got) - may: fail(f"{S_lab}{tk}/actions/mode=action-that-is-no-label", f"actions {acts} hold {sorted(set(got) - may)} which no example has")

    # ------------------------------------------------------------------ rewards
    for j, it in enumerate(r1):
        e = exp[pairing[j]]; r = it["rewards"]; acts = list(it["actions"])
        try:
            if lt == "c":
                note("oracle.reward.binary")
                lab = _eff_label(e[2], "c")
                vals = [r(a) for a in acts]
                for a, v in zip(acts, vals):
                    want = 1 if ckey(a) == ckey(lab) else 0
                    if v != want:
                        fail(f"{S_lab}/reward/mode={'label-not-rewarded-1' if want else 'other-action-rewarded'}", f"interaction {j}: label {lab!r}, rewards({a!r})={v}, expected {want}")
                note("oracle.reward.argmax")
                best = max(range(len(acts)), key=lambda i: vals[i])
                if ckey(acts[best]) != ckey(lab) or sum(1 for v in vals if v == vals[best]) != 1:
                    fail(f"{S_lab}/reward/mode=argmax-is-not-the-label", f"interaction {j}: label {lab!r}, rewards {vals} over {acts}")
            elif lt == "m":
                note("oracle.reward.jaccard")
                T = list(e[2])
                for S in probes_multi(spec, acts, T, rnd):
                    if not S and not T: continue                       # the overlap of two empty sets is not defined
                    v = r(S); want = jaccard(S, T)
                    if abs(v - want) > 1e-12: fail(f"{S_lab}/reward/mode=not-jaccard", f"interaction {j}: labels {T}, rewards({S!r})={v}, Jaccard {want}")
                    if (want == 1) != (set(map(ckey, S)) == set(map(ckey, T))): fail(f"{S_lab}/reward/mode=argmax-is-not-the-label", "")
            else:
                note("oracle.reward.l1")
                y = e[2]
                for a in probes_reg(y, rnd):
                    v = r(a); want = -abs(a - y)
                    if not (v == want or abs(v - want) <= 1e-12*max(1, abs(want))): fail(f"{S_lab}/reward/mode=not-negative-absolute-error", f"interaction {j}: label {y}, rewards({a})={v}, expected {want}")
                    if (a == y) != (v == 0): fail(f"{S_lab}/reward/mode=argmax-is-not-the-label", f"interaction {j}: label {y}, rewards({a})={v}")
        except _Stop: raise
        except Exception as ex:
            if lt == "m" and not e[2]:     # one mechanism whatever the entry path
                raise _Stop(f"multilabel/empty-label-set/reward/mode=raise:{type(ex).__name__}", f"interaction {j} has no label; rewards(non-empty action) raised {type(ex).__name__}: {ex} instead of returning overlap 0")
            fail(f"{S_lab}/reward/mode=raise:{type(ex).__name__}", f"interaction {j}: evaluating the reward raised {type(ex).__name__}: {ex}")

    # ------------------------------------------------------------------ second read, fresh object, finalised view
    try: o1 = observe(r1, spec, rnd)
    except Exception as ex: fail(f"{S_lab}/reward/mode=raise:{type(ex).__name__}", f"evaluating rewards raised {type(ex).__name__}: {ex}")
    def differ(o2):
        if len(o2) != len(o1): return "count"
        if [x["a"] for x in o2] != [x["a"] for x in o1]:
            return "action-order" if [sorted(map(repr, x["a"])) for x in o2] == [sorted(map(repr, x["a"])) for x in o1] else "actions"
        if [x["c"] for x in o2] != [x["c"] for x in o1]: return "contexts"
        if [x["r"] for x in o2] != [x["r"] for x in o1]: return "rewards"
        return None
    try: r2 = _read(sim)
    except Exception as ex: fail(f"reread{tk}/mode=raise:{type(ex).__name__}", f"second read raised {type(ex).__name__}: {ex}")
    note("oracle.reread")
    if take is not None: note("oracle.take.deterministic")
    if len(r2) == 0 and len(r1) > 0: fail(f"reread{tk}/mode=second-read-empty", f"first read gave {len(r1)} interactions, the second read of the same object none")
    try: d = differ(observe(r2, spec, rnd))
    except Exception as ex: fail(f"reread{tk}/mode=raise:{type(ex).__name__}", f"second read: {type(ex).__name__}: {ex}")
    if d: fail(f"reread{tk}/mode={d}-differ", f"second read of the same object differs from the first ({d})")

    try:
        a, k = build_args(spec, tmpdir, "2")
        r3 = _read(SupervisedSimulation(*a, **k))
    except Exception as ex: fail(f"fresh-object{tk}/mode=raise:{type(ex).__name__}", f"{type(ex).__name__}: {ex}")
    note("oracle.fresh_object")
    try: d = differ(observe(r3, spec, rnd))
    except Exception as ex: fail(f"fresh-object{tk}/mode=raise:{type(ex).__name__}", f"{type(ex).__name__}: {ex}")
    if d: fail(f"fresh-object{tk}/mode={d}-differ", f"a fresh object over the same data differs ({d})")

    has_cat_feats = any(c.get("type") == "nominal" for c in spec.get("cols", []))
    S_fin = f"finalized/feat={fclass}{'+nominal' if has_cat_feats else ''}"
    try:
        a, k = build_args(spec, tmpdir, "3")
        envs = Environments.from_supervised(*a, **k)
        if len(envs) != 1: fail("from_supervised/mode=not-one-environment", f"{len(envs)} environments")
        f1 = _read(envs[0])
        f2 = _read(envs[0])
    except _Stop: raise
    except Exception as ex: fail(f"{S_fin}/mode=raise:{type(ex).__name__}", f"Environments.from_supervised(...)[0].read() raised {type(ex).__name__}: {ex}")
    note("oracle.finalized")
    if len(f1) != len(r1): fail(f"finalized{tk}/mode=count", f"Environments.from_supervised gives {len(f1)} interactions, the simulation {len(r1)}")
    if len(f2) != len(f1): fail(f"reread{tk}/mode=second-read-empty" if not f2 else f"reread{tk}/mode=count-differ", f"Environments.from_supervised(...)[0]: first read {len(f1)} interactions, second read {len(f2)}")
    for j, (it, raw) in enumerate(zip(f1, r1)):
        e = exp[pairing[j]]
        try:
            if not has_cat_feats:
                k_, c_ = materialise_context(it["context"])
                if k_ != e[0] or ckey(c_) != ckey(e[1]): fail(f"{S_ctx}/finalized/mode=context-wrong-value", f"finalised interaction {j}: context {c_!r} != features {e[1]!r}")
            if lt == "c":
                vals = [it["rewards"](a) for a in it["actions"]]
                want = [1 if ckey(a) == ckey(_eff_label(e[2], "c")) else 0 for a in raw["actions"]]
                if vals != want: fail(f"{S_lab}/finalized/mode=rewards-wrong", f"finalised interaction {j}: rewards {vals} over {it['actions']}, expected {want}")
            elif lt == "m":
                for S in ([list(e[2])] * bool(e[2]) + [[a] for a in it["actions"][:4]]):
                    if abs(it["rewards"](S) - jaccard(S, e[2])) > 1e-12: fail(f"{S_lab}/finalized/mode=rewards-wrong", f"finalised interaction {j}: rewards({S})={it['rewards'](S)}")
            else:
                for a in (e[2], e[2] + 2, -3.5):
                    if abs(it["rewards"](a) + abs(a - e[2])) > 1e-9: fail(f"{S_lab}/finalized/mode=rewards-wrong", f"finalised interaction {j}: rewards({a})={it['rewards'](a)} label {e[2]}")
        except _Stop: raise
        except Exception as ex:
            fail(f"{S_lab}/finalized/mode=raise:{type(ex).__name__}", f"finalised interaction {j}: {type(ex).__name__}: {ex}")

    return o1

def _eff_label(l, lt):
    """the label an example carries under classification: singleton lists stand for their element"""
    if lt == "c" and isinstance(l, list): return l[0]
    return l

def _labkey(l, lt):
    if lt == "m": return tuple(sorted((ckey(x) for x in l), key=repr))
    return ckey(_eff_label(l, lt))

def _label_from_reward(it, lt, exp):
    """with take the pairing of a sampled interaction with its example uses the label its reward designates"""
    r, acts = it["rewards"], list(it["actions"])
    try:
        if lt == "c":
            best = [a for a in acts if r(a) == 1]
            return ckey(best[0]) if len(best) == 1 else "?"
        if lt == "m":
            for e in exp:
                if r(list(e[2])) == 1 and all((r([a]) > 0) == (ckey(a) in set(map(ckey, e[2]))) for a in acts): return _labkey(e[2], lt)
            return "?"
        for e in exp:
            if r(e[2]) == 0: return ckey(e[2])
        return "?"
    except Exception:
        return "?"

def _is_with_label(c, e):
    """does context c equal the example's features *plus* its label (the label was not removed)?"""
    kind_e, feats_e, lab = e
    try:
        if kind_e == "dense" and isinstance(c, list):
            return len(c) == len(feats_e) + 1 and any(ckey(c[:i] + c[i+1:]) == ckey(feats_e) and ckey(c[i]) == ckey(lab) for i in range(len(c)))
        if kind_e == "sparse" and isinstance(c, dict):
            extra = [k for k in c if k not in feats_e]
            return len(extra) == 1 and ckey({k: v for k, v in c.items() if k in feats_e}) == ckey(feats_e) and ckey(c[extra[0]]) == ckey(lab)
    except Exception: pass
    return False

# ================================================================================================ cross-process evaluation
def child_observe(spec, tmpdir):
    from coba.environments import SupervisedSimulation
    try:
        spec = expand(spec)
        a, k = build_args(spec, tmpdir, "c")
        r = _read(SupervisedSimulation(*a, **k))
        return {"obs": observe(r, spec, random.Random(spec["pseed"]))}
    except Exception as ex:
        return {"raise": f"{type(ex).__name__}: {ex}"}
    finally: _unlock_all()

def child_main(inp, out):
    with open(inp) as f: specs = json.load(f)
    tmpdir = tempfile.mkdtemp(prefix="vf-c14c-")
    try: res = [child_observe(s, tmpdir) for s in specs]
    finally: shutil.rmtree(tmpdir, ignore_errors=True)
    with open(out, "w") as f: json.dump({"hashseed": os.environ.get("PYTHONHASHSEED"), "res": res}, f)

def cross_process(ctx, specs, tmpdir):
    """the same example sets in two more interpreters with different PYTHONHASHSEED; everything observable must agree"""
    from vf.core import HOME
    inp = os.path.join(tmpdir, "batch.json")
    with open(inp, "w") as f: json.dump(specs, f)
    here = json.loads(json.dumps([child_observe(s, tmpdir) for s in specs]))     # same list/tuple shape as the children's JSON
    outs = []
    for hs in ("1", "4242"):
        out = os.path.join(tmpdir, f"out{hs}.json")
        env = dict(os.environ); env["PYTHONHASHSEED"] = hs
        try:
            if os.path.exists(out): os.remove(out)               # never read the output an earlier batch left behind
            for attempt in (1, 2):                                # a child that died without output is started once more
                p = subprocess.run([sys.executable, "-W", "ignore", "-m", "vf.props.c14", "child", inp, out], env=env, cwd=HOME,
                                   timeout=240, capture_output=True, text=True)
                if p.returncode == 0 and os.path.exists(out): break
                ctx.count("crossprocess.child_restarted")
                if os.path.exists(out): os.remove(out)
            if p.returncode != 0 or not os.path.exists(out):
                ctx.note_inconclusive(f"c14-child-interpreter-failed: exit {p.returncode}: {(p.stderr or '').strip()[-300:]}"); return
            with open(out) as f: res = json.load(f)["res"]
            if len(res) != len(specs): ctx.note_inconclusive("c14-child-interpreter-failed: incomplete output"); return
            outs.append(res)
        except Exception as ex:
            ctx.note_inconclusive(f"c14-child-interpreter-failed: {type(ex).__name__}: {ex}"); return
    ctx.count("oracle.crossprocess.children", 2)
    for i, spec in enumerate(specs):
        views = [here[i]] + [o[i] for o in outs]
        if any("raise" in v for v in views): continue           # reported by the in-process oracle
        ctx.count("oracle.crossprocess.compared")
        if len({ckey(spec["Y"][j]) for j in range(len(spec["Y"]))}) >= 3 and spec["label_kind"] in ("str", "list1", "multi", "cat"):
            ctx.count("oracle.crossprocess.hash_sensitive")
        base = views[0]["obs"]
        for v in views[1:]:
            o = v["obs"]
            if o == base: continue
            tk = "/take" if spec["take"] is not None else ""
            S = f"{spec['mode']}/label={spec['label_kind']}/type={'inferred' if spec['label_type'] is None else effective_ltype(spec)}{tk}"
            if len(o) == len(base) and [x["a"] for x in o] != [x["a"] for x in base] and \
               [sorted(map(repr, x["a"])) for x in o] == [sorted(map(repr, x["a"])) for x in base]:
                ctx.violation(f"crossprocess/type={effective_ltype(spec)}/actions/mode=order-differs-between-processes", f"action order depends on the interpreter's hash seed: {[x['a'] for x in base][:1]} vs {[x['a'] for x in o][:1]}", spec)
            else:
                ctx.violation(f"{S}/output/mode=differs-between-processes", "interactions differ between interpreters with different PYTHONHASHSEED", spec)
            break

# ================================================================================================ entry points
def run_shard(ctx):
    warnings.simplefilter("ignore")
    tmpdir = tempfile.mkdtemp(prefix=f"vf-c14-{ctx.shard}-")
    try:
        nb, bs = ctx.plan.get("child_batches", 1), ctx.plan.get("child_batch", 16)
        every = max(1, ctx.n // max(nb, 1))
        i = done_batches = 0
        while i < ctx.n and ctx.time_left() > 0:
            spec = gen_case(ctx.rng)
            v = check_case(spec, ctx, tmpdir)
            if i < 2: ctx.sample({k: spec[k] for k in ("mode", "label_kind", "label_type", "take", "pattern", "n")} | {"Y": spec["Y"][:5], "X": spec["X"][:3]})
            for sig, what in v: ctx.violation(sig, what, spec)
            i += 1
            if i % every == 0 and done_batches < nb:
                batch = [gen_case(ctx.rng, hash_sensitive=(j % 4 != 3)) for j in range(bs)]
                cross_process(ctx, batch, tmpdir); done_batches += 1
        if done_batches == 0:
            cross_process(ctx, [gen_case(ctx.rng, hash_sensitive=(j % 4 != 3)) for j in range(bs)], tmpdir)
        ctx.count("example_sets", i)
        if i < ctx.n: ctx.extra["example_sets_skipped_for_time"] = ctx.n - i
    finally:
        shutil.rmtree(tmpdir, ignore_errors=True)

def replay(witness):
    warnings.simplefilter("ignore")
    class _C:   # minimal context so that the cross-process part of a witness can be replayed too
        def __init__(s): s.v = []
        def count(s, *a, **k): pass
        def note_inconclusive(s, r): pass
        def violation(s, sig, what, w): s.v.append((sig, what))
    res = check_case(witness)
    if not res:
        c = _C(); d = tempfile.mkdtemp(prefix="vf-c14r-")
        try: cross_process(c, [witness], d)
        finally: shutil.rmtree(d, ignore_errors=True)
        res = c.v
    return res

if __name__ == "__main__":
    if len(sys.argv) == 4 and sys.argv[1] == "child":
        warnings.simplefilter("ignore")
        child_main(sys.argv[2], sys.argv[3])
