"""C03 -- Each evaluation is isolated from every other evaluation.

Differential runtime monitoring with stateful recording learners: for every triple of a generated multi-triple experiment a
fresh single-triple experiment built from the same spec gives the reference rows; the rows recorded for that triple inside
the multi-triple experiment (in listing order, permuted order, and under sampled multi-process configurations) must be the
same.  Fault injection: components raise InjectedFailure at a chosen point (params, k-th read item, k-th predict, k-th learn,
inside a custom evaluator after j rows); a triple whose evaluation raised must have no rows, every other triple must equal its
solo reference, and the failure must be reported in the log.
"""
import os, tempfile, shutil, random
from vf import expkit as X

ID    = "C03"
LEVEL = "exploration"
RULE  = ("one case = (experiment spec with objects shared between triples, fault plan, triple order, execution configuration); distinct & "
         "non-trivial = distinct (sharing pattern, failure point kind, order, configuration class) with >= 2 triples sharing an object")
PLAN  = {"quick":    {"shards": 16, "parallel": 8, "cases": 800,   "timeout": 1500, "budget_s": 100,  "mp_every": 10},
         "thorough": {"shards": 16, "parallel": 8, "cases": 24000, "timeout": 7000, "budget_s": 1500, "mp_every": 10}}
REQUIRED = ["oracle.triple==solo", "oracle.triple==solo.shared-learner", "oracle.permuted==solo", "oracle.failed-triple-has-no-rows",
            "oracle.failure-logged", "oracle.others-complete-despite-failure", "inject.predict", "inject.learn", "inject.read",
            "inject.evaluator", "inject.params", "oracle.multiproc.triple==solo", "oracle.solo-in-fresh-process",
            "oracle.triple==solo.learner-is-logging-policy-elsewhere", "inject.exception-message=empty", "inject.exception-message=multiline"]
ASSUMPTIONS = ["a learner listed in exactly one triple is trained in place by design; only rows are compared, never post-run learner state",
               "only picklable deterministic components; timing columns excluded"]

def gen_case(rng):
    if rng.random() < .06:
        # the object-sharing pattern "learner of one triple = logging policy inside the environment of another"
        return {"spec": X.policy_sharing_spec(rng), "faults": {}, "fault_kind": "none", "perm_seed": rng.randrange(1 << 30)}
    spec = X.gen_spec(rng, max_groups=2, max_lrns=3, max_vals=2)
    # favour stateful learners: any state carried between evaluations changes their action sequence
    for l in spec["lrns"]:
        if rng.random() < .6: l["kind"] = rng.choice(["stateful-ap", "stateful-kw", "stateful-pmf", "stateful-a", "stateful-info", "stateful-info"])
    for g in spec["groups"]:
        g["filters"] = [f for f in g["filters"] if f[0] != "sleepy"]
    faults, kind = {}, "none"
    r = rng.random()
    if r < .6:
        kind = rng.choice(["predict", "learn", "lrn-params", "read", "env-params", "evaluator", "val-params"])
        if kind in ("predict", "learn", "lrn-params"):
            cand = [i for i, l in enumerate(spec["lrns"]) if l["kind"].startswith("stateful")]
            if cand: faults["lrn"] = {str(rng.choice(cand)): ["params" if kind == "lrn-params" else kind, rng.choice([0, 1, 2, 3])]}
            else: kind = "none"
        elif kind in ("read", "env-params"):
            faults["env"] = {str(rng.randrange(4)): ["params" if kind == "env-params" else "read", rng.choice([0, 1, 2])]}
        else:
            cand = [i for i, v in enumerate(spec["vals"]) if v["kind"] == "rec"]
            if not cand:
                spec["vals"][0]["kind"] = "rec"; cand = [0]
            faults["val"] = {str(rng.choice(cand)): ({"fail_params": True} if kind == "val-params" else {"fail_after": rng.choice([0, 1, 2])})}
    # the shape of the exception: with a message, without one (bare `raise E` / `assert x`), several lines with format characters
    style = random.Random(f"style/{faults!r}").choice([None, None, "empty", "multiline"])
    if style and kind != "none":
        for v in (faults.get("lrn") or {}).values(): v.append(style)
        for v in (faults.get("env") or {}).values(): v.append(style)
        for v in (faults.get("val") or {}).values(): v["fail_style"] = style
    return {"spec": spec, "faults": faults, "fault_kind": kind, "perm_seed": rng.randrange(1 << 30), "style": style if kind != "none" else None}

def _rows_by_triple(canon, idx):
    """canonical interaction rows grouped by listed triple index (ids are assigned by first appearance in listing order)"""
    eo, lo, vo = {}, {}, {}
    keys = []
    for e, l, v in idx:
        eo.setdefault(e, len(eo)); lo.setdefault(l, len(lo))
        vk = ("none", len(keys)) if v is None else v        # every un-specified evaluator is its own SequentialCB object
        vo.setdefault(vk, len(vo))
        keys.append((eo[e], lo[l], vo[vk]))
    out = {i: [] for i in range(len(idx))}
    by_id = {}
    for r in canon["interactions"]:
        by_id.setdefault((r.get("environment_id"), r.get("learner_id"), r.get("evaluator_id")), []).append({k: v for k, v in r.items() if not k.endswith("_id")})
    for i, k in enumerate(keys):
        out[i] = sorted(by_id.get(k, []), key=lambda r: r.get("index", 0))
    return out, keys

def check_case(case, ctx=None, workdir=None, use_mp=False):
    viol = []
    spec, faults = case["spec"], case["faults"]
    def note(n, k=1):
        if ctx is not None: ctx.count(n, k)
    logs = []
    res, idx = X.run_inproc(spec, (1, 0, 0), faults=faults, log_sink=logs)
    multi = X.canon_result(res)
    rows_m, keys = _rows_by_triple(multi, idx)
    n = len(idx)
    shared_l = {l for l in {t[1] for t in idx} if sum(1 for t in idx if t[1] == l) > 1}
    shared_e = {e for e in {t[0] for t in idx} if sum(1 for t in idx if t[0] == e) > 1}
    policy = any(f[0] == "logged_lrn" for g in spec["groups"] for f in g["filters"])     # a listed learner object is a logging policy too
    pattern = ("L" if shared_l else "") + ("E" if shared_e else "") + ("P" if policy else "")
    if spec.get("policy_sharing"): note("oracle.triple==solo.learner-is-logging-policy-elsewhere")
    fk = case["fault_kind"]
    struct = (tuple(sorted(l["kind"] for l in spec["lrns"])), tuple(sorted(v["kind"] for v in spec["vals"])), spec["triples"] == "cross", min(n, 6))
    if ctx is not None: ctx.case(("inproc", pattern, fk, struct), nontrivial=bool(pattern))
    if fk in ("predict", "learn", "read", "evaluator"): note("inject." + fk)
    if fk.endswith("params"): note("inject.params")
    feat = f"fault={fk}/shared={pattern or 'none'}" + (f"/exception-message={case['style']}" if case.get("style") else "")
    if case.get("style") and fk != "none": note(f"inject.exception-message={case['style']}")
    solo, failed = {}, set()
    fresh = bool(use_mp and workdir)       # sampled cases: every solo reference comes from its own fresh interpreter ("pristine")
    for i in range(n):
        slog = []
        if fresh:
            out = X.run_subprocess(spec, [1, 0, 0], workdir, faults=faults, only_triple=i)
            if out["status"] != "ok":
                if ctx is not None: ctx.note_inconclusive(f"solo-subprocess-{out['status']}: {str(out)[:200]}")
                return viol
            srows, slog = out["canon"]["interactions"], out["logs"]
            note("oracle.solo-in-fresh-process")
        else:
            r, _ = X.run_inproc(spec, (1, 0, 0), faults=faults, only_triple=i, log_sink=slog)
            srows = X.canon_result(r)["interactions"]
        # in a solo experiment the single triple has ids (0,0,0)
        solo[i] = sorted(({k: v for k, v in row.items() if not k.endswith("_id")} for row in srows), key=lambda r_: r_.get("index", 0))
        raised_in_eval = any("InjectedFailure" in l or any(m in l for m in ("learner-predict", "learner-learn", "environment-read", "evaluator-evaluate")) for l in slog) \
                         and fk in ("predict", "learn", "read", "evaluator")
        if raised_in_eval:
            failed.add(i)
            note("oracle.failed-triple-has-no-rows")
            if solo[i]: viol.append((f"failed-triple-leaves-rows/solo/{feat}", f"triple {idx[i]} raised during evaluation but {len(solo[i])} rows were recorded"))
    for i in range(n):
        note("oracle.triple==solo")
        if idx[i][1] in shared_l: note("oracle.triple==solo.shared-learner")
        if i in failed and rows_m[i]:
            viol.append((f"failed-triple-leaves-rows/{feat}", f"triple {idx[i]} raised during evaluation but {len(rows_m[i])} rows are recorded")); continue
        if rows_m[i] != solo[i]:
            what = "missing" if not rows_m[i] else "extra" if not solo[i] else "differ"
            viol.append((f"triple!=solo/rows-{what}/{feat}", f"triple {i} {idx[i]} of {n}: {len(rows_m[i])} rows in the experiment vs {len(solo[i])} alone; first diff "
                         f"{next(((a, b) for a, b in zip(rows_m[i], solo[i]) if a != b), None)}"))
    if failed:
        note("oracle.failure-logged")
        if not any("InjectedFailure" in l or "learner-" in l or "environment-" in l or "evaluator-" in l for l in logs):
            viol.append((f"failure-not-logged/{feat}", f"triples {sorted(failed)} raised but the log holds no trace: {logs[-5:]}"))
        if len(failed) < n: note("oracle.others-complete-despite-failure")
    # ---- the same triples in another order
    if n > 1 and spec["triples"] != "cross":
        perm = list(range(n)); random.Random(case["perm_seed"]).shuffle(perm)
        pspec = dict(spec, triples=[spec["triples"][j] for j in perm])
    else:
        perm, pspec = None, None
    if pspec is not None:
        # (the de-duplication of listed triples in the builder keeps first occurrences, so map by content)
        r2, idx2 = X.run_inproc(pspec, (1, 0, 0), faults=faults)
        rows_p, _ = _rows_by_triple(X.canon_result(r2), idx2)
        note("oracle.permuted==solo")
        for j, t in enumerate(idx2):
            if t[2] is None: continue
            i = idx.index(t) if t in idx else None
            if i is not None and rows_p[j] != solo[i]:
                viol.append((f"permuted-order!=solo/{feat}", f"triple {t}: rows change when the triples are listed in another order")); break
    else:
        note("oracle.permuted==solo", 0)
    # ---- sampled multi-process configuration
    if use_mp and workdir:
        cfg = random.Random(case["perm_seed"]).choice([[2, 0, 0], [2, 1, 0], [3, 0, 2], [1, 1, 0]])
        out = X.run_subprocess(spec, cfg, workdir, faults=faults)
        if out["status"] == "timeout":              # a watchdog firing decides nothing: one more attempt with a long deadline
            out = X.run_subprocess(spec, cfg, workdir, faults=faults, timeout=900)
        if out["status"] == "ok":
            note("oracle.multiproc.triple==solo")
            rows_x, _ = _rows_by_triple(out["canon"], [tuple(t) for t in out["idx"]])
            if ctx is not None: ctx.case(("multiproc", pattern, fk, tuple(cfg)), nontrivial=bool(pattern))
            for i in range(n):
                if rows_x[i] != solo[i]:
                    viol.append((f"multiproc/triple!=solo/{feat}", f"cfg={cfg} triple {i} {idx[i]}: {len(rows_x[i])} rows vs {len(solo[i])} alone")); break
            if failed and not any("InjectedFailure" in l or "learner-" in l or "environment-" in l or "evaluator-" in l for l in out["logs"]):
                viol.append((f"multiproc/failure-not-logged/{feat}", f"cfg={cfg}: failing triples {sorted(failed)} left no trace in the log"))
        elif out["status"] == "raised":
            viol.append((f"multiproc/raised/{feat}", out["error"]))
        elif ctx is not None: ctx.note_inconclusive(f"multiproc-case-{out['status']}")
    return viol

def run_shard(ctx):
    workdir = tempfile.mkdtemp(prefix=f"vf-c03-{ctx.shard}-")
    mp_every = ctx.plan.get("mp_every", 14)
    try:
        for i in range(ctx.n):
            if ctx.time_left() <= 0:
                ctx.extra["cases_skipped_for_time"] = ctx.n - i; break
            case = gen_case(ctx.rng)
            try:
                v = check_case(case, ctx, workdir, use_mp=(i % mp_every == mp_every - 1))
            except Exception as e:
                import traceback
                v = [(f"harness-or-run/raised:{type(e).__name__}", f"{e} {traceback.format_exc()[-700:]}")]
            if i < 1: ctx.sample({"lrns": [l["kind"] for l in case["spec"]["lrns"]], "vals": [v_["kind"] for v_ in case["spec"]["vals"]],
                                  "triples": case["spec"]["triples"] if case["spec"]["triples"] == "cross" else len(case["spec"]["triples"]), "faults": case["faults"]})
            for sig, what in v: ctx.violation(sig, what, case)
    finally:
        shutil.rmtree(workdir, ignore_errors=True)
    if X.WATCHDOG_LOG:
        # a watchdog that fired decided nothing (the run was repeated), but it is recorded: how often, and what the run was waiting for
        ctx.count("watchdog.multiproc-run-repeated", len(X.WATCHDOG_LOG))
        ctx.extra["watchdog_firings"] = [{"cfg": w["cfg"], "timeout_s": w["timeout_s"], "stacks_tail": w["stacks"][-2500:]} for w in X.WATCHDOG_LOG[:2]]

def replay(witness):
    return check_case(witness)
