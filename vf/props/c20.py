"""C20 -- InteractionsEncoder.encode equals the mathematical polynomial expansion.

Reference model: for every string term the product over its namespaces of
itertools.combinations_with_replacement(features(ns), power(ns)), outer-crossed across namespaces.  Inputs
are (mostly) distinct primes so that the value of a monomial identifies its feature multiset.  Dense output
is cut into [constant] + one segment per term (segment lengths come from the reference) and every segment is
compared as a multiset; sparse output is decoded key by key into feature tokens, every key must decode to a
monomial of the reference, carry the product of the participating values, and every monomial must be present.

Every failing case is shrunk (terms dropped, powers lowered, features dropped, representations simplified)
while it keeps failing in the same way; the signature is built from what is left.

NAMES (gen_hostile / evaluate_names): feature keys and string values that are hard to tell apart once they are written
next to each other in a key (a digit string after an int key or a vector position, text that continues another key, a
namespace letter or a punctuation character inside a feature's name).  The oracle of these cases does not read the keys
at all to find the monomials: numbers are distinct primes, so the multiset of the values must be the multiset of the
reference products (a mapping with fewer entries than monomials has lost one), and every key must mention the texts of
the features of some monomial with its value.
"""
import itertools, math, re
from collections import Counter
from collections.abc import Mapping

ID    = "C20"
LEVEL = "exploration"
RULE  = ("term lists are ENUMERATED: every list of 1..4 terms x^i a^j with 1 <= i+j <= 5 (20 terms, 168420 lists) has an "
         "index; thorough visits every index, quick visits all 1- and 2-term lists plus a seeded sample of the rest; each "
         "list gets a random spelling ('xxa'/'xax'/'axx'), 0-3 numeric constants at random positions and k inputs "
         "(one encoder re-used for the k encodes). An input gives each of x and a one of: absent, None, scalar, string, "
         "list/tuple/LazyDense/HashableDense of 0-6 numbers and/or strings, dict/LazySparse/HashableSparse with str or int "
         "keys and numeric and/or string values; numbers are distinct primes (85%) or small ints/dyadic floats incl. 0, "
         "negatives and repeats. A case is one encode; distinct & non-trivial = distinct (canonical term list with constant "
         "positions, kind and length of x and of a, number family) with a non-empty expected expansion. HISTORIES: every 1- and "
         "2-term list, a seeded share of the others and, in every shard, each one-term list twice more also get a caller "
         "history on ONE encoder: 4-8 encodes that mix the x of one input with the a of another, bring equal values back "
         "(the very object passed before or an equal new one) and, between the calls, edit in place (append / zero / clear "
         "/ grow / item assignment) results handed out earlier and (add / drop / change a feature) the lists and dicts that "
         "were passed; a history is distinct by (term list, step pattern). WIDE: every shard also encodes namespaces far wider "
         "than 6: 1-3 terms of degree <= 3 (+0-2 constants), one encoder for 2 inputs; the wide namespace (x, a or both) has "
         "a width drawn from every scale 2^3..2^14 (2^k-1, 2^k, 2^k+1, 10^k and its neighbours, anything between), lowered until the "
         "whole expansion stays under a monomial cap, and is a list/tuple/LazyDense/HashableDense of numbers (all-dense call, or "
         "with a string / mapping / string-holding vector as the other namespace, or holding 1-3 strings itself, one of them often last) "
         "or a dict/LazySparse/HashableSparse with str or int keys in shuffled order; values are distinct primes, a one-hot "
         "vector (hot position often the last) or small repeating numbers. NAMES: every shard also encodes features whose names are hard to "
         "keep apart: recipes for {int key k with a digit-string value d beside the int key 'kd'; a vector of 11-30 entries with a digit "
         "string at position 1-2 that spells a later position; a str key with a string value beside the key that the two spell together; "
         "keys k1, k2 and k1+<namespace letter>+k2 in one namespace under terms of degree 1 and 2, or across x and a under 'x','xa'; the same "
         "three levels deep under one term; a string VALUE holding the namespace letter; the same with '=', '*', ':', '|' or a backslash next to the "
         "letter; a name that ends in a backslash beside the name it would spell if that backslash quoted a separator} and a soup of 2-4 keys / string values over the alphabet {1,2,x,a,=,*,\\,b}; 0-2 further terms of degree <= 3, 0-1 constant, "
         "numbers are distinct primes >= 5; distinct by (recipe, canonical term list, container kind)")
PLAN  = {"quick":    {"shards": 16, "cases": 20000,  "timeout": 600,  "budget_s": 80,  "inputs": 3, "history_frac": .3, "one_term_histories": 2, "wide": 60, "wide_cap": 60000, "names": 260},
         "thorough": {"shards": 16, "cases": 168420, "timeout": 3000, "budget_s": 2400, "inputs": 4, "history_frac": .25, "one_term_histories": 4, "wide": 400, "wide_cap": 150000, "names": 4000}}
REQUIRED = ["oracle.dense", "oracle.sparse", "oracle.dense.segment", "oracle.sparse.key", "oracle.constant.dense",
            "oracle.constant.sparse", "oracle.ns.scalar", "oracle.ns.none", "oracle.ns.empty", "oracle.ns.absent",
            "oracle.ns.string", "oracle.pow>=4.feat>=3", "oracle.repeated-const", "oracle.repeated-term",
            "oracle.reused-encoder", "termlists.enumerated", "oracle.history", "oracle.history.encode",
            "oracle.history.kept-unchanged", "oracle.history.result-edited", "oracle.history.input-edited",
            "oracle.history.encode-after-result-edit", "oracle.history.encode-after-input-edit",
            "oracle.history.equal-values-after-result-edit", "oracle.history.same-object-again",
            "oracle.wide", "oracle.wide.dense-call", "oracle.wide.mapping-call.vector-ns", "oracle.wide.mapping-call.mapping-ns",
            "oracle.wide.mapping-call.string-in-wide-vector", "oracle.wide.width>=2^8", "oracle.wide.width>=2^10", "oracle.wide.width>=2^12",
            "oracle.wide.pow>=2", "oracle.wide.crossed", "oracle.wide.onehot",
            "oracle.names", "oracle.names.key", "oracle.names.value-multiset", "oracle.names.plain-joining-would-collide",
            "oracle.names.digit-string-after-int-key", "oracle.names.digit-string-in-vector>=11", "oracle.names.text-after-str-key",
            "oracle.names.ns-letter-in-key.same-ns", "oracle.names.ns-letter-in-key.cross-ns", "oracle.names.ns-letter-in-key.three-levels",
            "oracle.names.ns-letter-in-value", "oracle.names.escape-char-in-text", "oracle.names.punctuation-in-text", "oracle.names.soup"]
ASSUMPTIONS = [
    "order of monomials inside one term is not checked (the statement does not claim it); the order of terms and 'constant first' are checked for vectors only - a mapping has no order",
    "several numeric constants: one leading entry equal to their sum (what coba documents in its tests) or each constant in turn are both accepted; a constant (sum) of 0 may be present or omitted",
    "a term list that names the same monomial set twice ('x','x' or 'xa','ax'): the later occurrences may be expanded again or folded into the first one, both are accepted; losing or re-ordering a *different* term is not",
    "enumerated / history / wide cases: sparse keys are decoded as a sequence of features, each spelled namespace letter + feature key/index + string value (what coba's tests show), optionally with one of '=' ':' between key and string value and one of '*|;,&+' between the features of a monomial (the statement fixes no spelling); in these cases feature keys and string values never contain the letters x/a or those characters and are distinct after str(), so decoding is unambiguous",
    "NAMES cases: the statement says the keys identify the participating features and every monomial is there once; it does not say how a key is spelled. So nothing is decoded: the values (distinct primes) must be the multiset of the reference products - between 'every distinct monomial once' and 'once per term that holds it' - and each key must contain the namespace letter, the key text and the string value of every feature of one monomial with its value (backslash escapes are looked through; a text with other characters than letters and digits may be quoted in any way and is not looked for). Two features whose keys are equal after str() (1 and '1') are one name by coba's own tests and are never generated",
    "when a namespace that no term uses is the only sparse/string input, list or mapping output are both accepted",
    "histories: what encode returns is taken to be the caller's own vector / mapping (a caller may edit it in place) and what was passed stays the caller's too: each encode is held against the expansion of the values passed to THAT call (the current content of an edited container), and a result the caller kept must stay as returned / as the caller left it; results that cannot be edited in place (not a list / dict) are only kept and compared; only plain lists and dicts are edited as inputs",
    "wide namespaces: the statement sets no limit on the number of features, so the same oracle is applied unchanged; string values inside wide vectors / mappings are letters only, so that 'position + text' can never spell another position",
    "the empty term '' and namespaces other than x and a are outside the statement and not generated; all arithmetic is exact (ints, dyadic floats)",
]

NS     = ("x", "a")
CANON  = [(px, d - px) for d in range(1, 6) for px in range(d, -1, -1)]     # 20 terms x^px a^pa
NTERM  = len(CANON)
OFFS   = [0, NTERM, NTERM + NTERM**2, NTERM + NTERM**2 + NTERM**3, NTERM + NTERM**2 + NTERM**3 + NTERM**4]
NLISTS = OFFS[4]
PRIMES = [2, 3, 5, 7, 11, 13, 17, 19, 23, 29, 31, 37, 41, 43]
PLAIN  = [0, 1, 1, 2, 3, -1, -2, 4, 0.5, 1.5, -0.25, 2.0]
TEXTS  = ["b", "c", "d", "zz", "Q", "b1", "", " ", "7", "é", "X", "e_f"]
SKEYS  = ["k", "m", "p", "q", "r", "kk", "7", "12", "_", "K"]
IKEYS  = [0, 1, 2, 3, 5, 10, 11, 40]
CONSTS = [1, 1, 1, 2, 3, 0.5, -1, 0, 1.5]
OUT_OPS = ["append", "zero", "clear", "grow", "setitem"]      # in-place edits of a returned vector / mapping
IN_OPS  = ["add", "drop", "change"]                           # in-place edits of a list / dict that was passed
FRESH   = [47, 53, 59, 61, 67, 71, 73, 79, 83, 89, 97, 101, 103, 107, 109, 113]

# ------------------------------------------------------------------------------------------ enumeration
def unrank(i):
    """index -> list of canonical terms (1..4 of them)"""
    for k in range(1, 5):
        if i < OFFS[k]:
            j, out = i - OFFS[k-1], []
            for _ in range(k):
                out.append(CANON[j % NTERM]); j //= NTERM
            return out[::-1]
    raise IndexError(i)

def spell(rng, term):
    px, pa = term
    s = list("x"*px + "a"*pa)
    r = rng.random()
    if   r < .4: pass
    elif r < .6: s.reverse()
    else:        rng.shuffle(s)
    return "".join(s)

# ------------------------------------------------------------------------------------------ generators
def _numbers(rng, n, fam, pool):
    if fam == "prime": return [pool.pop() for _ in range(n)]
    return [rng.choice(PLAIN) for _ in range(n)]

def gen_ns(rng, fam, pool, dense_only=False):
    r = rng.random()
    if dense_only:                                              # absent / None / scalar / numeric sequence only
        r = r * .7
        if .18 <= r < .22: r = .5
    if r < .05: return {"k": "absent"}
    if r < .11: return {"k": "none"}
    if r < .18: return {"k": "scalar", "v": _numbers(rng, 1, fam, pool)[0]}
    if r < .22: return {"k": "str", "v": rng.choice(TEXTS)}
    n = rng.choice([0, 1, 1, 2, 2, 3, 3, 3, 4, 4, 5, 5, 6])
    if r < .70:
        kind = rng.random()
        vals = _numbers(rng, n, fam, pool)
        if kind > .75 and not dense_only: vals = [rng.choice(TEXTS) if rng.random() < (.45 if kind < .93 else 1) else v for v in vals]
        return {"k": "seq", "v": vals, "as": rng.choice(["list", "list", "tuple", "lazy", "hashable"])}
    while True:
        style = rng.random()
        keys = rng.sample(SKEYS, n) if style < .55 else rng.sample(IKEYS, n)
        vals = _numbers(rng, n, fam, list(pool)) if fam == "prime" else _numbers(rng, n, fam, pool)
        if rng.random() < .3: vals = [rng.choice(TEXTS) if rng.random() < .5 else v for v in vals]
        toks = [f"{k}{v}" if isinstance(v, str) else f"{k}" for k, v in zip(keys, vals)]
        if len(set(toks)) == len(toks): break
    if fam == "prime":
        for v in vals:
            if not isinstance(v, str): pool.remove(v)
    return {"k": "map", "items": [[k, v] for k, v in zip(keys, vals)], "as": rng.choice(["dict", "dict", "lazy", "hashable"])}

def gen_input(rng):
    fam  = "prime" if rng.random() < .85 else "plain"
    pool = list(PRIMES); rng.shuffle(pool)
    dense = rng.random() < .4                                   # otherwise one sparse namespace makes the whole encode sparse
    return {"x": gen_ns(rng, fam, pool, dense), "a": gen_ns(rng, fam, pool, dense), "fam": fam}

def gen_history(rng, n_inputs):
    """what one caller does with one encoder: 4-8 encodes over the case's inputs (x of one, a of another), equal values
    coming back (the very object passed before, or an equal new one), and between the calls the caller edits - in place -
    results it was handed earlier and/or the containers it passed"""
    steps, i, j = [], 0, 0
    for s in range(rng.randint(4, 8)):
        r = rng.random()
        if s == 0 or r >= .8: i, j = rng.randrange(n_inputs), rng.randrange(n_inputs)
        elif r < .45: pass                                       # the same x and a again
        elif r < .65: j = rng.randrange(n_inputs)                # the same context with another action
        else:         i = rng.randrange(n_inputs)
        st = {"x": i, "a": j, "same": rng.random() < .5}
        if rng.random() < .6: st["mut_out"] = {"op": rng.choice(OUT_OPS), "which": -1 if rng.random() < .6 else rng.randrange(8)}
        if rng.random() < .3: st["mut_in"]  = {"ns": rng.choice(NS), "op": rng.choice(IN_OPS), "at": rng.randrange(8)}
        steps.append(st)
    return steps

def gen_case(rng, index=None, n_inputs=3, history=False):
    if index is None: index = rng.randrange(NLISTS)
    terms = [spell(rng, t) for t in unrank(index)]
    r = rng.random()
    nconst = 0 if r < .45 else 1 if r < .75 else 2 if r < .93 else 3
    for _ in range(nconst):
        terms.insert(rng.randint(0, len(terms)), rng.choice(CONSTS))
    spec = {"index": index, "terms": terms, "inputs": [gen_input(rng) for _ in range(n_inputs)]}
    if history: spec["history"] = gen_history(rng, n_inputs)
    return spec

# ------------------------------------------------------------------------------------------ wide namespaces
WIDE      = 64                                                  # a namespace this wide counts as 'wide' in the counters
WTERMS    = [(1, 0), (0, 1), (1, 0), (0, 1), (2, 0), (1, 1), (1, 1), (0, 2), (3, 0), (2, 1), (1, 2), (0, 3)]
WTEXTS    = ["b", "c", "d", "zz", "Q", "e_f", "é"]              # letters only: position + text never spells another position
_BIG      = []

def big_primes():
    """the primes 5 <= p < 1000000 (78496 of them: more than two namespaces of the largest width)"""
    if not _BIG:
        n = 1000000
        sieve = bytearray([1]) * n
        sieve[0:2] = b"\0\0"
        for i in range(2, int(n**.5) + 1):
            if sieve[i]: sieve[i*i::i] = bytearray(len(range(i*i, n, i)))
        _BIG.extend(i for i in range(5, n) if sieve[i])
    return _BIG

def draw_width(rng, kmax):
    """a width from every scale up to 2^kmax: just below / at / just above a power of two or of ten, or in between"""
    k = rng.randint(3, max(3, kmax))
    base = 2**k
    r = rng.random()
    if r < .15: return base - 1
    if r < .30: return base
    if r < .50: return base + 1
    if r < .65:
        tens = [t + d for t in (10, 100, 1000, 10000) for d in (-1, 0, 1) if base <= t + d < 2*base]
        if tens: return rng.choice(tens)
    return rng.randint(base, 2*base - 1)

def expansion_size(terms, widths):
    return sum(math.prod(math.comb(widths[ns] + p - 1, p) for ns, p in Counter(t).items()) for t in terms if not is_num(t))

def width_of(inp):
    return {"absent": 0, "none": 0, "scalar": 1, "str": 1}.get(inp["k"]) if inp["k"] not in ("seq", "map") else len(inp.get("v", inp.get("items")))

def gen_wide_ns(rng, n, fam, primes, form):
    """form: 'seq' numbers only, 'seq+str' a vector holding 1-3 strings, 'map'"""
    if   fam == "prime":  vals = [primes.pop() for _ in range(n)]
    elif fam == "onehot":
        vals = [0]*n
        vals[n-1 if rng.random() < .5 else rng.randrange(n)] = 1
    else:                 vals = [rng.choice(PLAIN) for _ in range(n)]
    if form == "seq+str" or (form == "map" and rng.random() < .3):
        where = {n-1} if rng.random() < .6 else set()
        while len(where) < rng.randint(1, 3): where.add(rng.randrange(n))
        for i in where: vals[i] = rng.choice(WTEXTS)
    if form != "map":
        return {"k": "seq", "v": vals, "as": rng.choice(["list", "list", "tuple", "lazy", "hashable"])}
    r = rng.random()
    if   r < .35: keys = [f"f{i}" for i in range(n)]
    elif r < .55: keys = [f"{i}" for i in range(n)]
    elif r < .80: keys = list(range(n))
    else:         keys = rng.sample(range(3*n + 7), n)
    if rng.random() < .6: rng.shuffle(keys)
    return {"k": "map", "items": [[k, v] for k, v in zip(keys, vals)], "as": rng.choice(["dict", "dict", "lazy", "hashable"])}

def gen_wide_case(rng, cap=60000, n_inputs=2):
    terms = [spell(rng, rng.choice(WTERMS)) for _ in range(rng.choice([1, 1, 1, 2, 2, 3]))]
    used  = sorted(set("".join(terms)))
    r = rng.random()
    for _ in range(0 if r < .5 else 1 if r < .85 else 2):
        terms.insert(rng.randint(0, len(terms)), rng.choice(CONSTS))
    inputs = []
    for _ in range(n_inputs):
        fam  = rng.choice(["prime", "prime", "prime", "onehot", "onehot", "plain"])
        wide = list(used) if len(used) > 1 and rng.random() < .2 else [rng.choice(used)]
        r = rng.random()
        call = "dense" if r < .3 else "other-ns-sparse" if r < .6 else "string-in-wide" if r < .75 else "map"
        if call == "other-ns-sparse" and len(wide) > 1: call = "map"
        kmax = 14
        while True:                                              # widths lowered until the expansion stays under the cap
            widths = {ns: draw_width(rng, kmax) if ns in wide else 6 for ns in NS}
            if expansion_size(terms, widths) <= cap or kmax <= 3: break
            kmax -= 1
        primes = big_primes()
        at = rng.randrange(12, len(primes) - sum(widths.values()) - 20)        # the primes <= 43 stay free for the narrow namespace
        pool = primes[at:at + sum(widths.values()) + 20]; rng.shuffle(pool)
        small = [p for p in PRIMES if p not in pool]; rng.shuffle(small)
        inp = {"fam": fam}
        for ns in NS:
            if ns in wide:
                form = "seq" if call in ("dense", "other-ns-sparse") else "seq+str" if call == "string-in-wide" else "map"
                if call == "map" and len(wide) > 1 and ns == wide[1] and rng.random() < .5: form = "seq"
                inp[ns] = gen_wide_ns(rng, widths[ns], fam, pool, form)
            else:
                sfam = "prime" if fam == "prime" else "plain"
                while True:
                    d = gen_ns(rng, sfam, list(small), dense_only=(call == "dense"))
                    if call != "other-ns-sparse" or is_sparse_input(d): break
                inp[ns] = d
        inputs.append(inp)
    return {"index": None, "terms": terms, "inputs": inputs, "wide": True}

# ------------------------------------------------------------------------------------------ reference model
def is_num(t): return not isinstance(t, str)

def features(ns, inp):
    """the namespace as a vector of (key token, value); strings contribute 1 and their text to the token"""
    k = inp["k"]
    if k in ("absent", "none"): return []
    if k == "scalar": return [(f"{ns}0", inp["v"])]
    if k == "str":    return [(f"{ns}0{inp['v']}", 1)]
    if k == "seq":    return [(f"{ns}{i}{v}", 1) if isinstance(v, str) else (f"{ns}{i}", v) for i, v in enumerate(inp["v"])]
    if k == "map":    return [(f"{ns}{key}{v}", 1) if isinstance(v, str) else (f"{ns}{key}", v) for key, v in inp["items"]]
    raise ValueError(k)

KSEP = ("=", ":")                                               # accepted between a feature's key and its string value
FSEP = "*|;,&+"                                                 # accepted between the features of one monomial

def spellings(case):
    """other accepted spellings of a string-valued feature -> the token features() gives it"""
    out = {}
    for ns in NS:
        inp = case[ns]
        if   inp["k"] == "str": named = [("0", inp["v"])]
        elif inp["k"] == "seq": named = [(i, v) for i, v in enumerate(inp["v"]) if isinstance(v, str)]
        elif inp["k"] == "map": named = [(key, v) for key, v in inp["items"] if isinstance(v, str)]
        else: continue
        for key, v in named:
            for sep in KSEP: out[f"{ns}{key}{sep}{v}"] = f"{ns}{key}{v}"
    return out

def read_token(t, known, alias):
    """one feature of a key as features() spells it (an unknown spelling is returned as it is)"""
    for u in ((t, t[:-1]) if t[-1] in FSEP else (t,)):
        if u in known: return u
        if u in alias: return alias[u]
    return t

def is_sparse_input(inp):
    return inp["k"] in ("str", "map") or (inp["k"] == "seq" and any(isinstance(v, str) for v in inp["v"]))

def has_string(inp):
    return inp["k"] == "str" or (inp["k"] == "seq" and any(isinstance(v, str) for v in inp["v"])) or \
           (inp["k"] == "map" and any(isinstance(v, str) for _, v in inp["items"]))

def build(inp):
    k = inp["k"]
    if k == "none": return None
    if k in ("scalar", "str"): return inp["v"]
    if k == "seq":
        how, v = inp.get("as", "list"), list(inp["v"])
        if how == "list": return v
        if how == "tuple": return tuple(v)
        if how == "lazy":
            from coba.pipes import LazyDense
            return LazyDense(v)
        from coba.primitives import HashableDense
        return HashableDense(v)
    if k == "map":
        how, d = inp.get("as", "dict"), {key: v for key, v in inp["items"]}
        if how == "dict": return d
        if how == "lazy":
            from coba.pipes import LazySparse
            return LazySparse(d)
        from coba.primitives import HashableSparse
        return HashableSparse(d)
    raise ValueError(k)

def term_monomials(term, feats):
    """[(sorted feature tokens, product of values)] : combinations with replacement per namespace, outer-crossed"""
    pw = Counter(term)
    per_ns = [list(itertools.combinations_with_replacement(feats.get(ns, []), p)) for ns, p in pw.items()]
    out = []
    for combo in itertools.product(*per_ns):
        fs = [f for part in combo for f in part]
        out.append((tuple(sorted(t for t, _ in fs)), math.prod(v for _, v in fs)))
    return out

def canon(term): return tuple(sorted(Counter(term).items()))

def constant_prefixes(nums):
    if not nums: return [[]]
    s = sum(nums)
    opts = [[s]] if s != 0 else [[], [0]]
    if len(nums) > 1: opts.append(list(nums))
    return opts

def term_variants(sterms):
    """index lists: every first occurrence of a monomial set is mandatory, later occurrences are optional"""
    seen, optional = set(), []
    for i, t in enumerate(sterms):
        c = canon(t)
        if c in seen: optional.append(i)
        seen.add(c)
    out = []
    for r in range(len(optional), -1, -1):                    # first: everything expanded; last: all repeats folded
        for drop in itertools.combinations(optional, len(optional) - r):
            out.append([i for i in range(len(sterms)) if i not in drop])
    return out

# ------------------------------------------------------------------------------------------ the oracle for one encode
def run_encode(case, encoder=None, kw=None):
    from coba.encodings import InteractionsEncoder
    enc = encoder if encoder is not None else InteractionsEncoder(list(case["terms"]))
    if kw is None: kw = {ns: build(case[ns]) for ns in NS if case[ns]["k"] != "absent"}
    return enc.encode(**kw)

def evaluate(case, encoder=None, note=None, kw=None, io=None):
    """-> None when the encode agrees with the reference, else (mode, detail); kw = the objects to pass (built from
    the case when not given), io = dict that receives the returned object under 'out'"""
    note = note or (lambda name, n=1: None)
    terms  = case["terms"]
    sterms = [t for t in terms if not is_num(t)]
    nums   = [t for t in terms if is_num(t)]
    feats  = {ns: features(ns, case[ns]) for ns in NS}
    used   = set("".join(sterms))
    any_sparse  = any(is_sparse_input(case[ns]) for ns in NS)
    used_sparse = any(is_sparse_input(case[ns]) for ns in NS if ns in used)
    try:
        out = run_encode(case, encoder, kw)
    except Exception as e:
        return (f"raise:{type(e).__name__}", f"{type(e).__name__}: {e}")
    if io is not None: io["out"] = out

    if isinstance(out, Mapping):         got_sparse = True
    elif isinstance(out, (list, tuple)): got_sparse = False
    else: return ("wrong-type", f"returned {type(out).__name__}")
    if any_sparse == used_sparse and got_sparse != any_sparse:
        return ("wrong-type", f"{'sparse/string' if any_sparse else 'dense'} inputs gave a {type(out).__name__}")

    monos = [term_monomials(t, feats) for t in sterms]
    if not got_sparse:
        note("oracle.dense")
        if any(isinstance(v, bool) or not isinstance(v, (int, float)) for v in out): return ("wrong-value", f"entries that are not numbers in {list(out)[:8]}")
        if nums: note("oracle.constant.dense")
        for prefix in constant_prefixes(nums):
            for variant in term_variants(sterms):
                segs = [Counter(v for _, v in monos[i]) for i in variant]
                if len(out) != len(prefix) + sum(sum(s.values()) for s in segs): continue
                if list(out[:len(prefix)]) != prefix: continue
                pos, ok = len(prefix), True
                for s in segs:
                    n = sum(s.values())
                    note("oracle.dense.segment")
                    if Counter(out[pos:pos+n]) != s: ok = False; break
                    pos += n
                if ok: return None
        return diagnose_dense(list(out), nums, sterms, monos)

    # ---- mapping
    note("oracle.sparse")
    known = {ns: {t: v for t, v in feats[ns]} for ns in NS}
    alias = spellings(case)
    exp_max = Counter()                                         # monomial -> number of terms that contain it
    for m in monos:
        for toks, val in set(m): exp_max[toks] += 1
    seen = Counter()
    const = None
    for key, val in out.items():
        if key == "const": const = val; continue
        note("oracle.sparse.key")
        if not isinstance(key, str): return ("bad-key", f"key {key!r} is not a string")
        toks = re.findall(r"[xa][^xa]*", key)
        if "".join(toks) != key or not toks: return ("bad-key", f"key {key!r} does not decode into namespace-prefixed features")
        toks = [read_token(t, known[t[0]], alias) for t in toks]
        if any(t not in known[t[0]] for t in toks): return ("bad-key", f"key {key!r} names a feature that is not in the input ({sorted(known['x'])[:8]} {sorted(known['a'])[:8]})")
        mono = tuple(sorted(toks))
        if mono not in exp_max: return ("extra-monomial", f"key {key!r} is no monomial of any term")
        want = math.prod(known[t[0]][t] for t in toks)
        if isinstance(val, bool) or not isinstance(val, (int, float)) or val != want: return ("wrong-value", f"{key!r}: {val!r}, product of the participating features is {want!r}")
        seen[mono] += 1
    for mono, n in seen.items():
        if n > exp_max[mono]: return ("duplicated-monomial", f"{n} keys name the monomial {mono}, {exp_max[mono]} term(s) contain it")
    missing = [m for m in exp_max if m not in seen]
    if missing:
        for i, m in enumerate(monos):
            if m and all(t not in seen for t, _ in m): return ("lost-term", f"no monomial of term {sterms[i]!r} is present; got keys {list(out)[:8]}")
        return ("lost-monomial", f"{len(missing)} of {len(exp_max)} monomials absent, e.g. {missing[0]}")
    if nums:
        note("oracle.constant.sparse")
        s = sum(nums)
        if const is None and s != 0: return ("constant-missing", f"constants {nums} but no 'const' entry")
        if const is not None and (isinstance(const, bool) or not isinstance(const, (int, float)) or const != s): return ("constant-wrong-value", f"'const' is {const!r}, constants are {nums}")
    elif const is not None:
        return ("constant-unrequested", f"'const'={const!r} without a numeric term")
    return None

def diagnose_dense(out, nums, sterms, monos):
    """names the failure mode of a vector that matches no accepted expansion"""
    best = None
    for prefix in constant_prefixes(nums):
        for variant in term_variants(sterms):
            exp = list(prefix) + [v for i in variant for _, v in monos[i]]
            d = sum(((Counter(exp) - Counter(out)) + (Counter(out) - Counter(exp))).values())
            if best is None or d < best[0]: best = (d, prefix, variant, exp)
    _, prefix, variant, exp = best
    co, ce = Counter(out), Counter(exp)
    missing, extra = ce - co, co - ce
    brief = f"got {len(out)} entries {out[:12]}, reference {len(exp)} entries {exp[:12]}"
    if not missing and not extra:
        if prefix and list(out[:len(prefix)]) != list(prefix): return ("constant-not-first", brief)
        return ("term-order", brief)
    if prefix and missing == Counter(prefix) and not extra: return ("constant-missing", brief)
    if missing and not extra:
        for i in variant:
            seg = Counter(v for _, v in monos[i])
            if seg and all(missing[v] >= n for v, n in seg.items()): return ("lost-term", f"term {sterms[i]!r} absent; " + brief)
        return ("lost-monomial", f"missing {sorted(missing.elements())[:6]}; " + brief)
    if extra and not missing:
        if all(v in ce for v in extra): return ("duplicated-monomial", f"extra {sorted(extra.elements())[:6]}; " + brief)
        return ("extra-value", f"extra {sorted(extra.elements())[:6]}; " + brief)
    return ("wrong-value", f"missing {sorted(missing.elements(), key=repr)[:6]} extra {sorted(extra.elements(), key=repr)[:6]}; " + brief)

# ------------------------------------------------------------------------------------------ shrinking and signatures
SHRINK_WORK = [0]                                               # monomials expanded by the shrinker in this process

def _cuts(n):
    """slices to drop from a container of n features: up to 8 every single one (as before); wider ones lose halves,
    quarters, ... and finally single features at either end, so that a wide container shrinks in O(log n) steps"""
    if n <= 1: return
    if n <= 8:
        for i in range(n): yield (i, i + 1)
        return
    size = n // 2
    while size >= 1:
        yield (0, size)
        yield (n - size, n)
        if size > 1: yield ((n - size) // 2, (n - size) // 2 + size)
        size //= 2

def _simpler(case):
    terms = case["terms"]
    for i in range(len(terms)):
        yield dict(case, terms=terms[:i] + terms[i+1:])
    for i, t in enumerate(terms):
        if is_num(t):
            if t != 1: yield dict(case, terms=terms[:i] + [1] + terms[i+1:])
        elif len(t) > 1:
            for c in sorted(set(t)):
                j = t.index(c)
                yield dict(case, terms=terms[:i] + [t[:j] + t[j+1:]] + terms[i+1:])
            if t != "".join(sorted(t, reverse=True)):
                yield dict(case, terms=terms[:i] + ["".join(sorted(t, reverse=True))] + terms[i+1:])
    for t in sorted({t for t in terms if not is_num(t)}):         # the same change to every copy of a term
        if len(t) > 1:
            for c in sorted(set(t)):
                j = t.index(c)
                yield dict(case, terms=[(t[:j] + t[j+1:]) if u == t else u for u in terms])
            for c in sorted(set(t)):
                yield dict(case, terms=[c if u == t else u for u in terms])
    if case.get("fam") != "shrunk-primes":                      # distinct primes >= 5 (never equal to a constant) name the monomials
        pool = iter(big_primes())
        def prime(inp):
            if inp["k"] == "scalar": return dict(inp, v=next(pool))
            if inp["k"] == "seq": return dict(inp, v=[e if isinstance(e, str) else next(pool) for e in inp["v"]])
            if inp["k"] == "map": return dict(inp, items=[[key, e if isinstance(e, str) else next(pool)] for key, e in inp["items"]])
            return inp
        yield dict(case, x=prime(case["x"]), a=prime(case["a"]), fam="shrunk-primes")
    for ns in NS:
        inp = case[ns]
        k = inp["k"]
        if k == "seq":
            v = inp["v"]
            for lo, hi in _cuts(len(v)): yield dict(case, **{ns: dict(inp, v=v[:lo] + v[hi:])})
            if not v: yield dict(case, **{ns: dict(inp, v=[103 if ns == "x" else 107])})
            if inp.get("as", "list") != "list": yield dict(case, **{ns: dict(inp, **{"as": "list"})})
            for i, e in enumerate(v):
                if isinstance(e, str): yield dict(case, **{ns: dict(inp, v=v[:i] + [101 + 2*i] + v[i+1:])})
        elif k == "map":
            it = inp["items"]
            for lo, hi in _cuts(len(it)): yield dict(case, **{ns: dict(inp, items=it[:lo] + it[hi:])})
            if not it: yield dict(case, **{ns: {"k": "seq", "v": [], "as": "list"}})
            if inp.get("as", "dict") != "dict": yield dict(case, **{ns: dict(inp, **{"as": "dict"})})
            for i, (key, e) in enumerate(it):
                if isinstance(e, str): yield dict(case, **{ns: dict(inp, items=it[:i] + [[key, 101 + 2*i]] + it[i+1:])})
            if all(not isinstance(e, str) for _, e in it): yield dict(case, **{ns: {"k": "seq", "v": [e for _, e in it], "as": "list"}})
            if any(not isinstance(key, str) for key, _ in it): yield dict(case, **{ns: dict(inp, items=[[f"i{key}", e] for key, e in it])})
        elif k == "scalar": yield dict(case, **{ns: {"k": "seq", "v": [inp["v"]], "as": "list"}})
        elif k == "str":    yield dict(case, **{ns: {"k": "seq", "v": [inp["v"]], "as": "list"}})
        elif k == "none":   yield dict(case, **{ns: {"k": "seq", "v": [], "as": "list"}})
        elif k == "absent": yield dict(case, **{ns: {"k": "none"}})

def shrink(case, limit=400, work=1500000, ev=None):
    """greedy: adopt the first simpler case that still disagrees with the reference (whatever the mode), repeat.
    Bounded by the number of candidates (narrow cases: 400 as before, wide ones 1500) and by the number of monomials
    the candidates expand to (deterministic, only wide cases can reach it)"""
    n = 0
    if max(width_of(case[ns]) for ns in NS) > 8: limit = max(limit, 1500)
    progress = True
    while progress and n < limit and work > 0:
        progress = False
        for cand in _simpler(case):
            n += 1
            work -= expansion_size(cand["terms"], {ns: width_of(cand[ns]) for ns in NS})
            r = (ev or evaluate)(cand)
            if r is not None:
                case, progress = cand, True
                break
            if n >= limit or work <= 0: break
    SHRINK_WORK[0] += 1500000 - work
    return case

def signature(case, mode):
    sterms = [t for t in case["terms"] if not is_num(t)]
    nums   = [t for t in case["terms"] if is_num(t)]
    flags  = []
    if len(nums) == 1: flags.append("const")
    if len(nums) > 1:  flags.append("repeated-const")
    if len({canon(t) for t in sterms}) < len(sterms): flags.append("repeated-term")
    elif len(sterms) > 1: flags.append("multi-term")
    if any(len(set(t)) > 1 for t in sterms): flags.append("cross")
    best = (0, 0)
    for t in sterms:
        for ns, p in Counter(t).items():
            best = max(best, (p, len(features(ns, case[ns]))))
    if best[0] >= 2:                                            # only what the shrinker could not take away
        flags.append("pow=" + (str(best[0]) if best[0] < 4 else "4+"))
        if best[1] >= 3: flags.append("feat=" + (str(best[1]) if best[1] < 4 else "4+"))
    wmax = max([width_of(case[ns]) for ns in NS if ns in "".join(sterms)] or [0])
    if wmax > 8: flags.append(f"wide-ns>2^{(wmax - 1).bit_length() - 1}")     # what the shrinker left: 257..512 features -> '>2^8'
    kinds = set()
    for ns in NS:
        inp = case[ns]
        k = inp["k"]
        if k in ("absent", "none", "scalar"): kinds.add(k + "-ns")
        elif k == "str": kinds.add("string-ns")
        elif k == "seq":
            if not inp["v"] and ns in "".join(sterms): kinds.add("empty-ns")
            if any(isinstance(v, str) for v in inp["v"]): kinds.add("string-feature")
            if inp.get("as", "list") != "list": kinds.add(inp["as"] + "-seq")
        elif k == "map":
            kinds.add("map")
            if not inp["items"] and ns in "".join(sterms): kinds.add("empty-ns")
            if any(isinstance(v, str) for _, v in inp["items"]): kinds.add("string-feature")
            if any(not isinstance(key, str) for key, _ in inp["items"]): kinds.add("int-key")
            if inp.get("as", "dict") != "dict": kinds.add(inp["as"] + "-map")
    flags += sorted(kinds)
    path = "sparse" if any(is_sparse_input(case[ns]) for ns in NS) else "dense"
    return f"encode/path={path}/mode={mode}/" + ",".join(flags)

# ------------------------------------------------------------------------------------------ histories on one encoder
def report_single(case, fresh):
    small = shrink(case)
    r2 = evaluate(small) or fresh
    return (signature(small, r2[0]), f"{r2[1]} | minimal: terms={small['terms']} x={brief(small['x'])} a={brief(small['a'])} | original: terms={case['terms']} x={brief(case['x'])} a={brief(case['a'])}")

def brief(inp):
    """the description of a namespace with long feature lists cut to both ends (the witness holds all of it)"""
    for f in ("v", "items"):
        if isinstance(inp.get(f), list) and len(inp[f]) > 14: return dict(inp, **{f: inp[f][:6] + [f"... {len(inp[f]) - 12} more ..."] + inp[f][-6:]})
    return inp

def snap(obj):
    if isinstance(obj, Mapping): return ("map", dict(obj))
    if isinstance(obj, (list, tuple)): return ("seq", list(obj))
    return ("other", repr(obj))

def mutate_result(obj, op):
    """what a caller may do to a vector / mapping it was handed; False when the object cannot be edited in place"""
    try:
        if isinstance(obj, list):
            if   op == "append":  obj.append(1)
            elif op == "clear":   obj.clear()
            elif op == "grow":    obj += [7, 7]
            elif op == "zero":
                for i in range(len(obj)): obj[i] = 0
            elif obj:             obj[-1] = 1009
            else:                 obj.append(1009)
            return True
        if isinstance(obj, dict):
            if   op == "append":  obj["zz"] = 9
            elif op == "clear":   obj.clear()
            elif op == "grow":    obj.update({"q1": 7, "q2": 7})
            elif op == "zero":
                for k in obj: obj[k] = 0
            elif obj:             obj[next(reversed(obj))] = 1009
            else:                 obj["zz"] = 1009
            return True
    except Exception: pass
    return False

def mutate_input(inp, live, op, at, new):
    """edits the passed container in place and returns its new description; None when it is no plain list / dict"""
    if inp["k"] == "seq" and inp.get("as", "list") == "list" and type(live) is list:
        v = list(inp["v"])
        if op == "add" or not v: v.append(new); live.append(new)
        elif op == "drop":       i = at % len(v); del v[i]; del live[i]
        else:                    i = at % len(v); v[i] = new; live[i] = new
        return dict(inp, v=v)
    if inp["k"] == "map" and inp.get("as", "dict") == "dict" and type(live) is dict:
        items = [list(it) for it in inp["items"]]
        if op == "add" or not items: items.append([f"n{new}", new]); live[f"n{new}"] = new
        elif op == "drop":           i = at % len(items); del live[items[i][0]]; del items[i]
        else:                        i = at % len(items); items[i][1] = new; live[items[i][0]] = new
        return dict(inp, items=items)
    return None

def run_history(terms, inputs, steps, do_out=True, do_in=True, note=None):
    """plays the steps on ONE encoder. Every encode is held against the reference expansion of the values passed to
    THAT call; every result the caller still holds must stay what it was (as returned, or as the caller last left
    it) whatever is encoded later and whatever the caller does to other results or to the containers it passed.
    -> None or the first failure {kind, mode, detail, step, case}"""
    from coba.encodings import InteractionsEncoder
    note = note or (lambda name, n=1: None)
    enc  = InteractionsEncoder(list(terms))
    used = set("".join(t for t in terms if not is_num(t)))
    cur  = {ns: [inp[ns] for inp in inputs] for ns in NS}       # descriptions, edited together with the live objects
    live = {ns: {} for ns in NS}
    kept = []                                                   # [object, snapshot, description of the inputs, edited by the caller]
    new  = iter(FRESH)
    out_edited = in_edited = False
    def changed():
        for n, k in enumerate(kept):
            note("oracle.history.kept-unchanged")
            if snap(k[0]) != k[1]: return f"result of encode #{n+1} was {k[1][1]} and now is {snap(k[0])[1]}"
    for s, st in enumerate(steps):
        idx, kw = {ns: st[ns] % len(inputs) for ns in NS}, {}
        for ns in NS:
            d = cur[ns][idx[ns]]
            if d["k"] == "absent": continue
            if st.get("same") and idx[ns] in live[ns]: note("oracle.history.same-object-again")
            else: live[ns][idx[ns]] = build(d)
            kw[ns] = live[ns][idx[ns]]
        case = {"terms": list(terms), "x": cur["x"][idx["x"]], "a": cur["a"][idx["a"]], "fam": "history"}
        io = {}
        r = evaluate(case, enc, note, kw, io)
        if s: note("oracle.history.encode")
        if out_edited: note("oracle.history.encode-after-result-edit")
        if in_edited:  note("oracle.history.encode-after-input-edit")
        if any(k[3] and any(ns in used and features(ns, case[ns]) and features(ns, k[2][ns]) == features(ns, case[ns]) for ns in NS) for k in kept):
            note("oracle.history.equal-values-after-result-edit")
        where = f"encode #{s+1} of {len(steps)} on one encoder"
        if r is not None: return {"kind": "encode", "mode": r[0], "detail": f"{where}: {r[1]}", "step": s, "case": case}
        c = changed()
        if c: return {"kind": "kept", "mode": "kept-result-changed-by-later-encode", "detail": f"after {where}: {c}", "step": s, "case": case}
        kept.append([io["out"], snap(io["out"]), {ns: case[ns] for ns in NS}, False])
        m = st.get("mut_out")
        if m and do_out:
            t = kept[-1] if m["which"] < 0 else kept[m["which"] % len(kept)]
            if mutate_result(t[0], m["op"]):
                t[1], t[3], out_edited = snap(t[0]), True, True
                note("oracle.history.result-edited")
                c = changed()
                if c: return {"kind": "kept", "mode": "kept-result-changed-by-editing-another-result", "detail": f"after {where} the caller did '{m['op']}' on one result: {c}", "step": s, "case": case}
            else: note("history.result-not-editable")
        m = st.get("mut_in")
        if m and do_in and m["ns"] in kw:
            ns = m["ns"]
            d = mutate_input(cur[ns][idx[ns]], kw[ns], m["op"], m["at"], next(new))
            if d is not None:
                cur[ns][idx[ns]], in_edited = d, True
                note("oracle.history.input-edited")
                c = changed()
                if c: return {"kind": "kept", "mode": "kept-result-changed-by-editing-the-input", "detail": f"after {where} the caller did '{m['op']}' on the {ns} it had passed: {c}", "step": s, "case": case}
    return None

def check_history(spec, ctx=None):
    terms, inputs, steps = spec["terms"], spec["inputs"], spec["history"]
    sterms = [t for t in terms if not is_num(t)]
    note = ctx.count if ctx else None
    f = run_history(terms, inputs, steps, True, True, note)
    if ctx:
        ctx.case(("history", tuple("c" if is_num(t) else canon(t) for t in terms),
                  tuple((st["x"], st["a"], st.get("same"), (st.get("mut_out") or {}).get("op"), (st.get("mut_in") or {}).get("op")) for st in steps)))
        ctx.count("oracle.history")
    if f is None: return []
    if f["kind"] == "encode":
        fresh = evaluate(f["case"])
        if fresh is not None: return [report_single(f["case"], fresh)]      # one call alone is wrong as well
    needs = "caller-edited-result-and-input"
    for do_out, do_in, name in ((False, False, "reuse-alone"), (True, False, "caller-edited-a-result"), (False, True, "caller-edited-an-input")):
        g = run_history(terms, inputs, steps, do_out, do_in)
        if g is not None and g["kind"] == f["kind"]:
            needs, f = name, g
            break
    mode  = f["mode"] if f["kind"] == "kept" or f["mode"].startswith("raise:") else "differs-from-reference"
    path  = "sparse" if any(is_sparse_input(f["case"][ns]) for ns in NS) else "dense"
    flags = ["one-term" if len(sterms) == 1 else "multi-term"]
    if any(is_num(t) for t in terms): flags.append("const")
    if any(len(set(t)) > 1 for t in sterms): flags.append("cross")
    return [(f"encode-history/path={path}/mode={mode}/needs={needs}/" + ",".join(flags),
             f"{f['detail']} | terms={terms} x={f['case']['x']} a={f['case']['a']} | a fresh encoder is correct on these values")]

# ------------------------------------------------------------------------------------------ names that are hard to keep apart
NPRIMES = [p for p in range(5, 230) if all(p % q for q in range(2, 15) if q < p)]      # 46 primes >= 5: never equal to a constant
NKEYS   = ["k", "m", "p", "q7", "_", "1", "2", "12", "b"]
NJOIN   = ["", "", "", "*", "=", ":", "|", "\\", "\\*", "="]
SOUP    = ["1", "2", "x", "a", "=", "*", "\\", "b"]
PUNCT   = "=*:|\\"

def _nmap(items, rng):
    items = [list(it) for it in items]
    rng.shuffle(items)
    return {"k": "map", "items": items, "as": rng.choice(["dict", "dict", "lazy", "hashable"])}

def _extras(rng, taken, pool, ints):
    """0-3 more features that take part in nothing special"""
    out = []
    for key in rng.sample([0, 4, 6, 8, 9, 55] if ints else ["g", "h", "j", "w", "gg", "t5"], rng.choice([0, 0, 1, 2, 3])):
        if str(key) not in taken: out.append([key, rng.choice(WTEXTS) if rng.random() < .2 else pool.pop()])
    return out

def _benign(rng, pool):
    r = rng.random()
    if r < .25: return {"k": "absent"}
    if r < .35: return {"k": "none"}
    if r < .45: return {"k": "scalar", "v": pool.pop()}
    if r < .55: return {"k": "str", "v": rng.choice(WTEXTS)}
    if r < .80: return {"k": "seq", "v": [pool.pop() for _ in range(rng.randint(0, 3))], "as": rng.choice(["list", "tuple", "lazy", "hashable"])}
    return _nmap([[key, pool.pop()] for key in rng.sample(["g", "h", "j", "w"], rng.randint(1, 3))], rng)

def _cross(rng, n1, n2):
    """a degree-2 term over two namespaces (or the square of one) in which n1 is named first"""
    return n1 + n2

def gen_hostile(rng):
    pool = list(NPRIMES); rng.shuffle(pool)
    recipe = rng.choice(["digit-string-after-int-key", "digit-string-after-int-key", "digit-string-in-vector>=11", "digit-string-in-vector>=11",
                         "text-after-str-key", "text-after-str-key", "ns-letter-in-key.same-ns", "ns-letter-in-key.same-ns",
                         "ns-letter-in-key.cross-ns", "ns-letter-in-key.cross-ns", "ns-letter-in-key.three-levels", "ns-letter-in-value",
                         "ns-letter-in-value", "escape-char-in-text", "soup", "soup", "soup"])
    ns    = rng.choice(NS)
    other = "a" if ns == "x" else "x"
    inp, terms, maxdeg = {}, [], 3
    if recipe == "digit-string-after-int-key":
        k = rng.choice([1, 2, 3, 7, 10, 12])
        d = rng.choice(["0", "2", "5", "00", "13"])
        both = rng.random() < .3                                  # both features string-valued: k:'d'+t and kd:t
        t = rng.choice(["b", "zz", "7"])
        items = [[k, d + t], [int(f"{k}{d}"), t]] if both else [[k, d], [int(f"{k}{d}"), pool.pop()]]
        items += _extras(rng, {str(i[0]) for i in items}, pool, True)
        inp[ns], terms = _nmap(items, rng), [ns]
    elif recipe == "digit-string-in-vector>=11":
        n = rng.randint(11, 30)
        j = rng.choice([j for j in range(10, n) if str(j)[0] in "12"])
        v = [pool.pop() for _ in range(n)]
        v[int(str(j)[0])] = str(j)[1:]
        if rng.random() < .3: v[rng.choice([0] + list(range(3, n)))] = rng.choice(WTEXTS)
        inp[ns], terms, maxdeg = {"k": "seq", "v": v, "as": rng.choice(["list", "list", "tuple", "lazy", "hashable"])}, [ns], 2
    elif recipe == "text-after-str-key":
        k, m, t = rng.choice(["k", "m", "p", "q7", "_"]), rng.choice(["m", "1", "b", "kk", "0", "="]), rng.choice(["1", "b", "zz", "Q", "=v"])
        items = [[k, m + t], [k + m, t]] if rng.random() < .5 else [[k, m + t], [k + m + t, pool.pop()]]
        items += _extras(rng, {str(i[0]) for i in items}, pool, False)
        inp[ns], terms = _nmap(items, rng), [ns]
    elif recipe.startswith("ns-letter-in-key"):
        k1, k2, j = rng.choice(NKEYS), rng.choice(NKEYS), rng.choice(NJOIN)
        if recipe.endswith("same-ns"):
            items = [[key, pool.pop()] for key in dict.fromkeys([k1, k2, k1 + j + ns + k2])]
            terms = [ns, ns + ns]
        elif recipe.endswith("three-levels"):
            items = [[key, pool.pop()] for key in (k1, k1 + j + ns + k1, k1 + j + ns + k1 + j + ns + k1)]
            terms = [ns + ns]
        else:
            items = [[k1, pool.pop()], [k1 + j + other + k2, pool.pop()]]
            inp[other] = _nmap([[k2, pool.pop()]] + _extras(rng, {k2}, pool, False), rng)
            terms = [ns, ns + other]
        items += _extras(rng, {str(i[0]) for i in items}, pool, False)
        inp[ns] = _nmap(items, rng)
    elif recipe == "ns-letter-in-value":
        k1, tail, k3, j = rng.choice(NKEYS), rng.choice(["", "2", "b"]), rng.choice(NKEYS), rng.choice(NJOIN)
        keys = list(dict.fromkeys([k1, k1 + tail, k3]))
        items = [[k1, tail + j + ns + k3]] + [[key, pool.pop()] for key in keys if key != k1]
        if k1 + tail == k1: items.append([k1 + "0", pool.pop()])
        items += _extras(rng, {str(i[0]) for i in items}, pool, False)
        inp[ns], terms = _nmap(items, rng), [ns, ns + ns]
    elif recipe == "escape-char-in-text":                         # a backslash at the end of a name, a separator right after it
        k, k2, t = rng.choice(["k", "m", "1", "k\\"]), rng.choice(NKEYS), rng.choice(["v", "b", "1"])
        if rng.random() < .5:
            items, terms = [[k + "\\", t], [k + rng.choice(KSEP) + t, pool.pop()]], [ns]
        else:
            items = [[key, pool.pop()] for key in dict.fromkeys([k + "\\", k2, k + rng.choice(FSEP[:2]) + ns + k2])]
            terms = [ns, ns + ns]
        items += _extras(rng, {str(i[0]) for i in items}, pool, False)
        inp[ns] = _nmap(items, rng)
    else:
        for n in NS:
            keys = list(dict.fromkeys("".join(rng.choice(SOUP) for _ in range(rng.randint(1, 3))) for _ in range(rng.randint(2, 4))))
            inp[n] = _nmap([[key, "".join(rng.choice(SOUP) for _ in range(rng.randint(0, 2))) if rng.random() < .4 else pool.pop()] for key in keys], rng)
        terms = [spell(rng, rng.choice(WTERMS)) for _ in range(rng.randint(1, 2))]
    if other not in inp: inp[other] = _benign(rng, pool)
    if len(terms) == 2 and rng.random() < .5: terms.reverse()
    more = [t for t in WTERMS if sum(t) <= maxdeg and (maxdeg > 2 or t[0 if ns == "x" else 1] <= 1 or width_of(inp[other]) <= 3)]
    for _ in range(rng.choice([0, 0, 1, 2])): terms.insert(rng.randint(0, len(terms)), spell(rng, rng.choice(more)))
    if rng.random() < .25: terms.insert(rng.randint(0, len(terms)), rng.choice(CONSTS))
    inp["fam"] = "names"
    return {"index": None, "terms": terms, "inputs": [inp], "names": recipe}

def named_features(ns, inp):
    """the namespace as a vector of (key text, string value or None, number)"""
    k = inp["k"]
    if k in ("absent", "none"): return []
    if k == "scalar": return [("0", None, inp["v"])]
    if k == "str":    return [("0", inp["v"], 1)]
    if k == "seq":    return [(str(i), v, 1) if isinstance(v, str) else (str(i), None, v) for i, v in enumerate(inp["v"])]
    if k == "map":    return [(str(key), v, 1) if isinstance(v, str) else (str(key), None, v) for key, v in inp["items"]]
    raise ValueError(k)

def named_monomials(term, feats):
    """the monomials of one term as sorted tuples of (namespace, position in the namespace)"""
    per_ns = [list(itertools.combinations_with_replacement([(ns, i) for i in range(len(feats.get(ns, [])))], p)) for ns, p in Counter(term).items()]
    return [tuple(sorted(f for part in combo for f in part)) for combo in itertools.product(*per_ns)]

def plain_joining_collides(sterms, feats):
    """would writing namespace letter, key and string value of the features one after the other give two monomials one key?"""
    owner = {}
    for t in sterms:
        order = list(dict.fromkeys(t))
        for m in named_monomials(t, feats):
            text = "".join(f"{ns}{feats[ns][i][0]}{feats[ns][i][1] or ''}" for ns, i in sorted(m, key=lambda f: (order.index(f[0]), f[1])))
            if owner.setdefault(text, m) != m: return True
    return False

def evaluate_names(case, encoder=None, note=None):
    """-> None or (mode, detail). The keys are not decoded: the values must be the reference products, every key must
    mention the features of a monomial that has its value"""
    note = note or (lambda name, n=1: None)
    sterms = [t for t in case["terms"] if not is_num(t)]
    nums   = [t for t in case["terms"] if is_num(t)]
    feats  = {ns: named_features(ns, case[ns]) for ns in NS}
    used   = set("".join(sterms))
    if not any(is_sparse_input(case[ns]) for ns in used): return evaluate(case, encoder, note)
    try:
        out = run_encode(case, encoder)
    except Exception as e:
        return (f"raise:{type(e).__name__}", f"{type(e).__name__}: {e}")
    if not isinstance(out, Mapping): return ("wrong-type", f"sparse/string inputs gave a {type(out).__name__}")
    held = Counter()                                            # monomial -> number of terms that contain it
    for t in sterms:
        for m in set(named_monomials(t, feats)): held[m] += 1
    value = {m: math.prod(feats[ns][i][2] for ns, i in m) for m in held}
    least, most, by_value = Counter(), Counter(), {}
    for m, n in held.items():
        least[value[m]] += 1; most[value[m]] += n
        by_value.setdefault(value[m], []).append(m)
    got = {key: val for key, val in out.items() if key != "const"}
    for key, val in got.items():
        if not isinstance(key, str): return ("bad-key", f"key {key!r} is not a string")
        if isinstance(val, bool) or not isinstance(val, (int, float)): return ("wrong-value", f"{key!r}: {val!r} is not a number")
    note("oracle.names.value-multiset")
    have = Counter(got.values())
    show = lambda m: [f"{ns}:{feats[ns][i][0]!r}" + (f"={feats[ns][i][1]!r}" if feats[ns][i][1] is not None else "") for ns, i in m]
    for v in least:
        if have[v] < least[v]:
            gone = least[v] - have[v]
            return ("lost-monomial", f"{len(got)} keys for {len(held)} monomials: {gone} of the {least[v]} monomial(s) with the product {v} "
                                     f"(e.g. {show(by_value[v][0])}) {'are' if gone > 1 else 'is'} not there; got {dict(itertools.islice(got.items(), 8))}")
    for key, val in got.items():
        if val not in least: return ("wrong-value", f"{key!r}: {val!r} is the product of no monomial")
    for v in have:
        if have[v] > most[v]: return ("duplicated-monomial", f"{have[v]} keys carry the product {v}, {most[v]} monomial(s) of the terms have it")
    for key, val in got.items():
        note("oracle.names.key")
        bare = re.sub(r"\\(.)", r"\1", key)
        def mentions(m):
            return all(ns in key and all(not t.isalnum() or t in key or t in bare for t in (text, sv or ""))
                       for ns, i in m for text, sv, _ in [feats[ns][i]])
        if not any(mentions(m) for m in by_value[val]):
            return ("bad-key", f"key {key!r} (value {val!r}) does not name the features of a monomial with that product, e.g. {show(by_value[val][0])}")
    const = out.get("const")
    if nums:
        if const is None and sum(nums) != 0: return ("constant-missing", f"constants {nums} but no 'const' entry")
        if const is not None and (isinstance(const, bool) or not isinstance(const, (int, float)) or const != sum(nums)): return ("constant-wrong-value", f"'const' is {const!r}, constants are {nums}")
    elif const is not None:
        return ("constant-unrequested", f"'const'={const!r} without a numeric term")
    return None

def name_flags(case):
    """what is special about the names that are left (of the namespaces some term uses)"""
    used, flags = set("".join(t for t in case["terms"] if not is_num(t))), set()
    for ns in used:
        inp = case[ns]
        positional = inp["k"] in ("seq", "str")
        for (text, sv, _), raw in zip(named_features(ns, inp), [key for key, _ in inp["items"]] if inp["k"] == "map" else itertools.repeat(0)):
            if not positional:
                if any(c in text for c in used): flags.add("ns-letter-in-key")
                if any(c in text for c in PUNCT): flags.add("punctuation-in-key")
            if sv is None: continue
            if any(c in sv for c in used):  flags.add("ns-letter-in-value")
            if any(c in sv for c in PUNCT): flags.add("punctuation-in-value")
            flags.add("string-value-after-position" if positional else "string-value-after-key")
    return sorted(flags)

def check_names(spec, ctx=None):
    note = ctx.count if ctx else None
    inp  = spec["inputs"][0]
    case = {"terms": list(spec["terms"]), "x": inp["x"], "a": inp["a"], "fam": "names"}
    sterms = [t for t in case["terms"] if not is_num(t)]
    r = evaluate_names(case, None, note)
    if ctx:
        feats = {ns: named_features(ns, case[ns]) for ns in NS}
        recipe = spec.get("names") or "replayed"
        ctx.case(("names", recipe, tuple("c" if is_num(t) else canon(t) for t in case["terms"]), case["x"]["k"], case["x"].get("as"), case["a"]["k"], case["a"].get("as")))
        ctx.count("oracle.names")
        ctx.count("oracle.names." + recipe)
        if plain_joining_collides(sterms, feats): ctx.count("oracle.names.plain-joining-would-collide")
        if any(f.startswith("punctuation") for f in name_flags(case)): ctx.count("oracle.names.punctuation-in-text")
    if r is None: return []
    small = shrink(case, ev=evaluate_names)
    r2 = evaluate_names(small) or r
    # one signature per mechanism: names are spelled without separators, so (a) a string value runs into the text that follows it,
    # (b) a key that contains a namespace letter reads as several features
    fl = name_flags(small)
    mech = ("string-value-runs-into-the-next-name" if any(f.startswith("string-value-after") for f in fl) else
            "name-holding-a-namespace-letter-reads-as-several-features" if any(f.startswith("ns-letter") for f in fl) else "+".join(fl) or "plain")
    return [(f"encode-names/mode={r2[0]}/{mech}",
             f"{r2[1]} | minimal: terms={small['terms']} x={brief(small['x'])} a={brief(small['a'])} | original: terms={case['terms']} x={brief(case['x'])} a={brief(case['a'])}")]

# ------------------------------------------------------------------------------------------ one case
def _structure(case):
    def shape(inp):
        k = inp["k"]
        if k == "seq": return (k, inp.get("as"), len(inp["v"]), sum(isinstance(v, str) for v in inp["v"]))
        if k == "map": return (k, inp.get("as"), len(inp["items"]), sum(isinstance(v, str) for _, v in inp["items"]),
                               any(isinstance(key, int) for key, _ in inp["items"]))
        return (k,)
    return (tuple("c" if is_num(t) else canon(t) for t in case["terms"]), shape(case["x"]), shape(case["a"]), case.get("fam"))

def check_case(spec, ctx=None):
    """one term list, one encoder, several inputs; returns [(sig, what)]"""
    from coba.encodings import InteractionsEncoder
    if spec.get("names"): return check_names(spec, ctx)
    note = ctx.count if ctx else None
    viol = []
    terms = spec["terms"]
    sterms = [t for t in terms if not is_num(t)]
    nums   = [t for t in terms if is_num(t)]
    try: enc = InteractionsEncoder(list(terms))
    except Exception: enc = None                                # evaluate() reports the constructor's exception
    for n, inp in enumerate(spec["inputs"]):
        case = {"terms": list(terms), "x": inp["x"], "a": inp["a"], "fam": inp.get("fam")}
        r = evaluate(case, enc, note)
        if ctx:
            feats = {ns: features(ns, case[ns]) for ns in NS}
            nonempty = any(term_monomials(t, feats) for t in sterms)
            ctx.case(_structure(case), nontrivial=nonempty)
            for ns in NS:
                if ns not in "".join(sterms): continue
                k = case[ns]["k"]
                if k == "scalar": ctx.count("oracle.ns.scalar")
                if k == "none":   ctx.count("oracle.ns.none")
                if k == "absent": ctx.count("oracle.ns.absent")
                if has_string(case[ns]): ctx.count("oracle.ns.string")
                if (k == "seq" and not case[ns]["v"]) or (k == "map" and not case[ns]["items"]): ctx.count("oracle.ns.empty")
            if any(p >= 4 and len(feats[ns]) >= 3 for t in sterms for ns, p in Counter(t).items()): ctx.count("oracle.pow>=4.feat>=3")
            if any(p >= 3 and len(feats[ns]) >= 4 for t in sterms for ns, p in Counter(t).items()): ctx.count("oracle.pow>=3.feat>=4")
            if len(nums) > 1: ctx.count("oracle.repeated-const")
            if len({canon(t) for t in sterms}) < len(sterms): ctx.count("oracle.repeated-term")
            if n > 0: ctx.count("oracle.reused-encoder")
            wide = [ns for ns in NS if ns in "".join(sterms) and len(feats[ns]) >= WIDE]
            if wide and nonempty:
                mapping_call = any(is_sparse_input(case[ns]) for ns in NS)
                ctx.count("oracle.wide")
                if not mapping_call: ctx.count("oracle.wide.dense-call")
                for ns in wide:
                    if mapping_call and case[ns]["k"] == "seq": ctx.count("oracle.wide.mapping-call.vector-ns")
                    if mapping_call and case[ns]["k"] == "map": ctx.count("oracle.wide.mapping-call.mapping-ns")
                    if case[ns]["k"] == "seq" and has_string(case[ns]): ctx.count("oracle.wide.mapping-call.string-in-wide-vector")
                    if spec["inputs"][n].get("fam") == "onehot": ctx.count("oracle.wide.onehot")
                    for k in (8, 10, 12, 14):
                        if len(feats[ns]) >= 2**k: ctx.count(f"oracle.wide.width>=2^{k}")
                    if any(Counter(t)[ns] >= 2 for t in sterms): ctx.count("oracle.wide.pow>=2")
                    if any(len(set(t)) > 1 and all(feats[m] for m in set(t)) and ns in t for t in sterms): ctx.count("oracle.wide.crossed")
        if r is None: continue
        mode, detail = r
        fresh = evaluate(case)
        if fresh is None:
            viol.append((f"encode/mode={mode}/only-on-reused-encoder", f"encode #{n+1} on one encoder: {detail}; a fresh encoder is correct; terms={terms} x={brief(inp['x'])} a={brief(inp['a'])}"))
            continue
        viol.append(report_single(case, fresh))
    if spec.get("history"): viol += check_history(spec, ctx)
    return viol

# ------------------------------------------------------------------------------------------ entry points
def run_shard(ctx):
    k = ctx.plan.get("inputs", 3)
    small = OFFS[2]                                             # all 1- and 2-term lists
    if ctx.tier == "thorough": indices = iter(range(ctx.shard, NLISTS, ctx.nshards))
    else:
        own = list(range(ctx.shard, small, ctx.nshards))
        indices = itertools.chain(own, (ctx.rng.randrange(small, NLISTS) for _ in range(max(0, ctx.n - len(own)))))
    frac = ctx.plan.get("history_frac", .3)
    def visit(spec):
        seen = set()
        for sig, what in check_case(spec, ctx):
            if sig in seen: continue
            seen.add(sig)
            ctx.violation(sig, what, spec)
    nwide, wide_done = ctx.plan.get("wide", 0), [0]
    def visit_wide():                                           # every shard: namespaces far wider than the enumeration uses
        wide_done[0] += 1
        if SHRINK_WORK[0] > 6000000:                             # only on a tree that already has violations reported
            ctx.count("wide.skipped-after-many-violations"); return
        visit(gen_wide_case(ctx.rng, ctx.plan.get("wide_cap", 60000)))
        ctx.count("wide.cases")
    for _ in range(ctx.plan.get("names", 0)):                   # every shard: names that are hard to keep apart (small and quick: first)
        visit(gen_hostile(ctx.rng))
        ctx.count("names.cases")
    every = max(1, ctx.n // max(1, nwide))                      # spread over the enumeration: a time cut takes from both alike
    for rep in range(ctx.plan.get("one_term_histories", 2)):     # every shard: a history on every one-term encoder
        for index in range(OFFS[1]):
            visit(gen_case(ctx.rng, index, k, history=True))
            ctx.count("histories.one-term-extra")
    done = 0
    for index in indices:
        if done >= ctx.n or ctx.time_left() <= 0: break
        spec = gen_case(ctx.rng, index, k, history=index < small or ctx.rng.random() < frac)
        if done < 1: ctx.sample({"terms": spec["terms"], "input": spec["inputs"][0], "history": spec.get("history")})
        visit(spec)
        ctx.count("termlists.enumerated")
        done += 1
        if done % every == 0 and wide_done[0] < nwide: visit_wide()
    while wide_done[0] < nwide and (ctx.time_left() > 0 or wide_done[0] < 8): visit_wide()
    if done < ctx.n:
        ctx.extra["termlists_skipped_for_time"] = ctx.n - done
        if ctx.tier == "thorough": ctx.note_inconclusive(f"shard{ctx.shard}: enumeration cut short by the time budget ({done}/{ctx.n})")

def finalize(merged, tier, seed):
    merged["extra"]["term_lists_total"] = NLISTS
    merged["extra"]["term_lists_visited"] = merged["counters"].get("termlists.enumerated", 0)
    sk = merged["extra"].pop("termlists_skipped_for_time", None)
    if sk: merged["extra"]["term_lists_skipped_for_time"] = sum(sk)

def replay(witness):
    return check_case(witness)
