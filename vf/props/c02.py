"""C02 -- Interrupted experiments resume without losing or repeating work.

Crash-point enumeration (fault_enumeration): a reference run writes a real transaction log; for every chosen byte-prefix of
that log (every record boundary; every byte of small logs, first/middle/last byte of each record plus a seeded sample
otherwise; for .gz: member boundaries and bytes inside header / deflate body / trailer of each member) the prefix is written
to a fresh file and the same experiment -- rebuilt from its spec -- is run again with that file by the real Experiment.run.
Monitors: evaluation recorders inside the evaluators (which triples were evaluated again), canonical Result equality with
the uninterrupted run, record-id multiset of the final file, Result.from_file(final file).
Prefix-model validation: real runs whose DiskSink file object kills the process (os._exit) after k bytes; what is on disk
must be exactly the k-byte prefix of the reference log.
"""
import os, sys, json, gzip, zlib, tempfile, shutil, subprocess
from collections import Counter
from vf import expkit as X

ID    = "C02"
LEVEL = "fault_enumeration"
RULE  = ("one case = (reference log of a generated experiment, plain or .gz) x crash point (byte offset) x resume configuration; "
         "distinct & non-trivial = distinct (log, offset class: record-boundary / inside-record [first|middle|last byte] / gz header|body|"
         "trailer, resume configuration) with at least one triple still pending at the crash point")
PLAN  = {"quick":    {"shards": 16, "cases": 32,  "timeout": 1500, "budget_s": 100, "points": 60,  "mp_every": 40},
         "thorough": {"shards": 16, "cases": 320, "timeout": 7000, "budget_s": 1500, "points": 400, "mp_every": 25}}
REQUIRED = ["oracle.resumed==reference", "oracle.no-recorded-triple-reevaluated", "oracle.pending-evaluated-once", "oracle.no-duplicate-record",
            "oracle.from_file==returned", "crash.record-boundary", "crash.inside-record", "crash.gz", "kill.prefix-model-validated",
            "resume.multiproc", "big-log.cases", "big-record.cases", "big-record.records", "observed.logs-with-non-ascii-params", "oracle.from_file-on-killed-file", "logs.records-in-arrival-order-of-several-workers"]
ASSUMPTIONS = ["a killed run leaves a byte-prefix of the log it would have written (validated by the real-kill runs: append only, flush per line, single writer)",
               "only complete records count as recorded; parameter records (E/L/V) may legitimately be written again"]

def gen_case(rng):
    spec = X.gen_spec(rng, max_groups=2, max_lrns=2, max_vals=2)
    for v in spec["vals"]:
        if v["kind"] == "func": v["kind"] = "rec"            # every evaluator logs what it evaluates
    seen = set()
    for l in spec["lrns"]:                                   # learners must be identifiable in the side log
        if not l["kind"].startswith("stateful"):
            if l["kind"] in seen or l["kind"] in ("fixed",): l["kind"] = "stateful-ap"
            seen.add(l["kind"])
    for g in spec["groups"]:
        g["n"] = min(g["n"], 6); g["filters"] = [f for f in g["filters"] if f[0] != "sleepy"]
    return {"spec": spec, "gz": rng.random() < .35, "seed": rng.randrange(1 << 30), "arrival": rng.randrange(1 << 30) if rng.random() < .3 else None}

def _members(blob):
    """end offsets of the gzip members in blob"""
    ends, pos = [], 0
    while pos < len(blob):
        d = zlib.decompressobj(wbits=31)
        d.decompress(blob[pos:])
        if not d.eof: break
        pos = len(blob) - len(d.unused_data)
        ends.append(pos)
    return ends

def _records(blob, gz):
    """[(start, end, parsed record)] for every complete record of a log"""
    out = []
    if gz:
        start = 0
        for end in _members(blob):
            txt = gzip.decompress(blob[start:end]).decode()
            for line in txt.splitlines():
                if line.strip(): out.append((start, end, json.loads(line)))
            start = end
    else:
        start = 0
        for line in blob.split(b"\n")[:-1]:
            end = start + len(line) + 1
            if line.strip(): out.append((start, end, json.loads(line)))
            start = end
    return out

def _crash_points(rng, blob, recs, gz, budget):
    pts = {}
    def add(n, cls):
        if 0 <= n <= len(blob): pts.setdefault(n, cls)
    add(0, "empty-file"); add(len(blob), "complete-log")
    for s, e, _ in recs: add(e, "record-boundary")
    if len(blob) <= 1500 and not gz:
        for n in range(len(blob)): add(n, "inside-record")
    for s, e, _ in recs:
        if gz:
            add(s + 1, "gz-header"); add(s + 5, "gz-header"); add(s + 10, "gz-body-first"); add((s + e) // 2, "gz-body"); add(e - 9, "gz-body-last"); add(e - 8, "gz-trailer"); add(e - 1, "gz-trailer")
        else:
            add(s + 1, "inside-record-first"); add((s + e) // 2, "inside-record-middle"); add(e - 1, "inside-record-before-newline"); add(e - 2, "inside-record-last")
    for _ in range(budget): add(rng.randrange(len(blob) + 1), "inside-record" if not gz else "gz-body")
    if not gz:
        # a cut in front of a UTF-8 continuation byte leaves the lead byte of a character without its tail
        inside = [n for n in range(len(blob)) if 0x80 <= blob[n] <= 0xBF]
        for n in rng.sample(inside, min(len(inside), 8)): pts[n] = "inside-multibyte-character"
    items = sorted(pts.items())
    ALWAYS = ("empty-file", "complete-log", "inside-multibyte-character")
    if len(items) > budget:
        keep = [it for it in items if it[1] in ALWAYS]
        rest = [it for it in items if it[1] not in ALWAYS]
        rng.shuffle(rest)
        items = sorted(keep + rest[:budget])
    return items

def _lname(x):
    x = str(x)
    x = x[:-7] if x.endswith("Learner") else x
    return x.lower().replace("_", "")

def _keys_from_reference(res):
    """id -> side-log key for environments / learners / evaluators of the reference Result"""
    from coba.results.core import Missing
    def cell(row, cols, name):
        return row[cols.index(name)] if name in cols else None
    ek, lk, vk = {}, {}, {}
    t = res.environments; cols = list(t.columns)
    for row in t:
        tag, ss = cell(row, cols, "tag"), cell(row, cols, "shuffle_seed")
        ss = None if ss is Missing else ss
        ek[cell(row, cols, "environment_id")] = f"{tag}|{ss}"
    t = res.learners; cols = list(t.columns)
    for row in t:
        tag = cell(row, cols, "tag")
        fam = cell(row, cols, "family")
        lk[cell(row, cols, "learner_id")] = tag if tag not in (None, Missing) else _lname(fam)
    t = res.evaluators; cols = list(t.columns)
    for row in t: vk[cell(row, cols, "evaluator_id")] = cell(row, cols, "vf_eval")
    return ek, lk, vk

def check_case(case, ctx=None, only_points=None):
    from coba.results import Result
    import random
    rng = random.Random(case["seed"])
    viol = []
    def note(n, k=1):
        if ctx is not None: ctx.count(n, k)
    wd = tempfile.mkdtemp(prefix="vf-c02-")
    try:
        spec, gz = case["spec"], case["gz"]
        ext = ".log.gz" if gz else ".log"
        refp = os.path.join(wd, "ref" + ext)
        ref, idx = X.run_inproc(spec, (1, 0, 0), result_file=refp)
        cref = X.canon_result(ref)
        blob = open(refp, "rb").read()
        blob_written = blob                                  # what the (single-process) reference run really wrote: used by the real-kill validation
        recs = _records(blob, gz)
        if case.get("arrival") is not None and len(recs) > 4:
            # the log of a multi-process run holds the records in arrival order: the records behind the header are dealt to a few
            # worker streams (each keeps its order) and the streams are interleaved
            note("logs.records-in-arrival-order-of-several-workers")
            prng = random.Random(case["arrival"])
            spans = list(dict.fromkeys((s_, e_) for s_, e_, _ in recs))
            head, rest = spans[:2], spans[2:]
            k = prng.choice([2, 3, 4]); streams = [[] for _ in range(k)]
            for sp in rest: streams[prng.randrange(k)].append(sp)
            order = []
            while any(streams):
                st = prng.choice([x for x in streams if x]); order.append(st.pop(0))
            blob = b"".join(blob[s_:e_] for s_, e_ in head + order)
            recs = _records(blob, gz)
        if any(l.get("uni") for l in spec["lrns"]) and any(r[0] == "L" and "note" in json.dumps(r[2:] if len(r) > 2 else r) for _, _, r in recs):
            note("observed.logs-with-non-ascii-params")
        ek, lk, vk = _keys_from_reference(ref)
        all_I = [tuple(r[1]) if len(r[1]) == 3 else (r[1][0], r[1][1], 0) for _, _, r in recs if r[0] == "I"]
        # every listed triple (ids are assigned by first appearance), also those whose evaluation fails and is therefore never
        # recorded: such a triple is legitimately evaluated again by every run
        eo, lo, vo, listed = {}, {}, {}, []
        for pos_, (e_, l_, v_) in enumerate(idx):
            eo.setdefault(e_, len(eo)); lo.setdefault(l_, len(lo))
            vkey = ("none", pos_) if v_ is None else v_
            vo.setdefault(vkey, len(vo))
            if v_ is not None: listed.append((eo[e_], lo[l_], vo[vkey]))
        listed = list(dict.fromkeys(listed))
        key_of = {t: (ek.get(t[0]), _lname(lk.get(t[1])), vk.get(t[2])) for t in set(all_I) | set(listed)}
        key_of = {t: k for t, k in key_of.items() if k[2] is not None}          # evaluators that do not log are not tracked
        all_I = [t for t in all_I if t in key_of]
        usable_keys = len(set(key_of.values())) == len(key_of) and all(None not in k for k in key_of.values())
        budget = (ctx.plan.get("points", 60) if ctx is not None else 40)
        mp_every = (ctx.plan.get("mp_every", 40) if ctx is not None else 10**9)
        if case.get("big") and only_points is None:
            tail = recs[-4:]
            points = sorted({(e, "record-boundary") for _, e, _ in tail[:-1]} | {((s_ + e_) // 2, "gz-body" if gz else "inside-record-middle") for s_, e_, _ in tail}
                            | {(recs[len(recs) // 2][0] + 3, "gz-header" if gz else "inside-record-first")})
            note("big-log.records", len(recs))
        elif case.get("bigrec") and only_points is None:
            points = set()
            for s_, e_, r_ in recs:
                if e_ - s_ < 16384: continue
                note("big-record.records")
                for off in (1, 100, 4095, 4096, 4097, 8191, 8192, 8193, 8300, 12000, 16385, 32769, 65535, 65536, 65537, 70000, 131071, 131072, 131073, 131500, (e_ - s_) // 2, e_ - s_ - 8193, e_ - s_ - 8192, e_ - s_ - 100, e_ - s_ - 2, e_ - s_ - 1):
                    if 0 < off < e_ - s_: points.add((s_ + off, ("gz-body" if gz else "inside-record-deeper-than-a-buffer" if off > 8192 else "inside-record-middle")))
                points.add((e_, "record-boundary"))
            points = sorted(points)
        else:
            points = _crash_points(rng, blob, recs, gz, budget) if only_points is None else only_points
        if ctx is not None and ctx.extra.get("n_logs", 0) < 1:
            ctx.sample({"log_bytes": len(blob), "gz": gz, "records": [r[0] for _, _, r in recs], "crash_points": [list(p) for p in points[:12]]})
        if ctx is not None: ctx.extra["n_logs"] = ctx.extra.get("n_logs", 0) + 1
        for pi, (n, cls) in enumerate(points):
            if ctx is not None and ctx.time_left() <= 0: break
            path = os.path.join(wd, f"cut{ext}"); side = os.path.join(wd, "side.log")
            for f in (path, side):
                if os.path.exists(f): os.remove(f)
            with open(path, "wb") as f: f.write(blob[:n])
            recorded = {(tuple(r[1]) if len(r[1]) == 3 else (r[1][0], r[1][1], 0)) for s, e, r in recs if e <= n and r[0] == "I"}
            pending = [t for t in listed if t in key_of and t not in recorded]
            use_mp = (pi % mp_every == mp_every - 1)
            cfg = rng.choice([(2, 0, 0), (2, 1, 0), (3, 0, 2)]) if use_mp else (1, 0, rng.choice([0, 0, 2]))
            feat = f"file={'gz' if gz else 'plain'}/point={cls}/resume={'multiproc' if use_mp else 'inproc'}"
            if ctx is not None: ctx.case((len(blob), gz, cls, n, cfg), nontrivial=bool(pending))
            note("crash." + ("gz" if gz else "record-boundary" if cls in ("record-boundary", "complete-log", "empty-file") else "inside-record"))
            # ---- the file as the killed run left it can be read: what it holds is a part of the uninterrupted run's Result
            note("oracle.from_file-on-killed-file")
            try:
                part = X.canon_result(Result.from_file(path))
                ref_rows = Counter(json.dumps(r, sort_keys=True) for r in cref["interactions"])
                extra = Counter(json.dumps(r, sort_keys=True) for r in part["interactions"]) - ref_rows
                if extra:
                    viol.append((f"killed-file/from_file-holds-rows-the-uninterrupted-run-never-produced/{feat}", f"prefix {n}/{len(blob)}: e.g. {list(extra)[:1]}")); continue
            except Exception as e:
                viol.append((f"killed-file/from_file-raised:{type(e).__name__}/{feat}", f"Result.from_file on the first {n} of {len(blob)} bytes raised {type(e).__name__}: {str(e)[:160]}")); continue
            try:
                if use_mp:
                    out = X.run_subprocess(spec, cfg, wd, result_file=path, side=side)
                    if out["status"] == "timeout":
                        # a watchdog firing decides nothing; one more attempt from the same starting point with a long deadline
                        note("resume.multiproc-watchdog-retry")
                        with open(path, "wb") as f: f.write(blob[:n])
                        if os.path.exists(side): os.remove(side)
                        out = X.run_subprocess(spec, cfg, wd, result_file=path, side=side, timeout=900)
                    if out["status"] == "raised": raise RuntimeError(out["error"])
                    if out["status"] != "ok":
                        if ctx is not None: ctx.note_inconclusive(f"resume-subprocess-{out['status']}")
                        continue
                    cres = out["canon"]; note("resume.multiproc")
                else:
                    res, _ = X.run_inproc(spec, cfg, result_file=path, side=side)
                    cres = X.canon_result(res)
            except Exception as e:
                viol.append((f"resume/raised:{type(e).__name__}/{feat}", f"resuming from the first {n} of {len(blob)} bytes raised {type(e).__name__}: {str(e)[:200]}"))
                continue
            note("oracle.resumed==reference")
            d = X.diff_canon(cref, cres)
            if d: viol.append((f"resume/result-differs/table={d[0]}/{feat}", f"prefix {n}/{len(blob)}: {d[1]}")); continue
            # ---- which triples were evaluated by the resumed run
            if usable_keys:
                evals = [(e[0], _lname(e[1]), e[2]) for e in X.read_side(side)]
                rec_keys = {key_of[t] for t in recorded if t in key_of}
                # the record being written at the crash point may or may not count as recorded (its text can be complete
                # while the newline / gzip trailer is missing): it may be evaluated zero or one time
                maybe = {key_of.get(tuple(r[1]) if len(r[1]) == 3 else (r[1][0], r[1][1], 0)) for s_, e_, r in recs if s_ < n < e_ and r[0] == "I"} - {None}
                note("oracle.no-recorded-triple-reevaluated")
                again = [k for k in evals if k in rec_keys]
                if again: viol.append((f"resume/recorded-triple-evaluated-again/{feat}", f"prefix {n}: triples {again[:3]} are recorded in the file but were evaluated again")); continue
                note("oracle.pending-evaluated-once")
                want = sorted(key_of[t] for t in pending if key_of[t] not in maybe)
                got_ = sorted(k for k in evals if k not in maybe)
                twice = [k for k in maybe if evals.count(k) > 1]
                if got_ != want or twice:
                    viol.append((f"resume/pending-triples-not-evaluated-exactly-once/{feat}", f"prefix {n}: evaluated {sorted(evals)[:4]}.. expected {want[:4]}.. (+ optionally {sorted(maybe)})")); continue
            # ---- the final file
            try:
                fblob = open(path, "rb").read()
                frecs = _records(fblob, gz)
                ends = _members(fblob) if gz else None        # (DiskSink closes every batch, so empty gzip members are normal)
                if (not gz and not fblob.endswith(b"\n")) or (gz and (not ends or ends[-1] != len(fblob))) or (not frecs and fblob):
                    viol.append((f"final-file/trailing-garbage/{feat}", f"prefix {n}: the final file does not end with a complete record")); continue
            except Exception as e:
                viol.append((f"final-file/unparseable:{type(e).__name__}/{feat}", f"prefix {n}: the final file cannot be parsed record by record: {e}")); continue
            note("oracle.no-duplicate-record")
            ids = [tuple(r[1]) for _, _, r in frecs if r[0] == "I"]
            if len(ids) != len(set(ids)):
                viol.append((f"final-file/triple-recorded-twice/{feat}", f"prefix {n}: duplicate I records {[i for i in ids if ids.count(i) > 1][:3]}")); continue
            note("oracle.from_file==returned")
            try:
                d = X.diff_canon(cres, X.canon_result(Result.from_file(path)))
                if d: viol.append((f"final-file/from_file-differs/table={d[0]}/{feat}", d[1]))
            except Exception as e:
                viol.append((f"final-file/from_file-raised:{type(e).__name__}/{feat}", str(e)[:200]))
        # ---- prefix-model validation with a real kill
        if only_points is None and (ctx is None or ctx.time_left() > 0):
            k = rng.randrange(1, len(gzip.decompress(blob_written)) if gz else len(blob_written))      # bytes handed to the (Gzip)file object
            kp = os.path.join(wd, "kill" + ext)
            inp = os.path.join(wd, "kill.json")
            with open(inp, "w") as f: json.dump({"spec": spec, "path": kp, "k": k}, f)
            try:
                p = subprocess.run([sys.executable, "-W", "ignore", "-m", "vf.c02_kill", inp], timeout=120, capture_output=True, text=True)
                on_disk = open(kp, "rb").read() if os.path.exists(kp) else b""
                if p.returncode != 137:
                    if ctx is not None: ctx.note_inconclusive(f"kill-run rc={p.returncode} {p.stderr[-200:]}")
                elif gz:
                    # gzip headers carry a timestamp, so members are compared by content: what can be decompressed from the
                    # disk (complete members + the flushed part of the member being written) must be a prefix of the log text
                    note("kill.prefix-model-validated")
                    ref_text = gzip.decompress(blob_written)
                    got, pos = b"", 0
                    while pos < len(on_disk):
                        dz = zlib.decompressobj(wbits=31)
                        try: got += dz.decompress(on_disk[pos:])
                        except zlib.error: break
                        if not dz.eof: break
                        pos = len(on_disk) - len(dz.unused_data)
                    if not ref_text.startswith(got) or len(got) > k:
                        viol.append(("kill/disk-content-not-a-prefix-of-the-log/gz", f"killed after {k} bytes: decompressible content on disk ({len(got)} bytes) is not a prefix of the reference log text"))
                else:
                    note("kill.prefix-model-validated")
                    if on_disk != blob_written[:len(on_disk)] or len(on_disk) < min(k, len(blob_written)) - 1:
                        viol.append(("kill/disk-content-not-a-prefix-of-the-log/plain", f"killed after {k} bytes: {len(on_disk)} bytes on disk, not the prefix of the reference log"))
            except subprocess.TimeoutExpired:
                if ctx is not None: ctx.note_inconclusive("kill-run-timeout")
    finally:
        shutil.rmtree(wd, ignore_errors=True)
    return viol

def big_log_case(rng):
    """a log with more than 1000 records (buffers / batch sizes inside the sinks and sources): one lambda environment fanned out by
    shuffle(n=36) x 30 learners x one recording evaluator"""
    spec = {"groups": [{"kind": "lambda", "n": 2, "seed": 1, "tag": "g0", "filters": [["shuffle_n", 36]]}],
            "lrns": [{"kind": "stateful-a", "tag": f"L{i}", "seed": 1} for i in range(30)],
            "vals": [{"kind": "rec", "tag": "V0", "seed": 1, "nrows": 1}], "seed": 1, "triples": "cross"}
    return {"spec": spec, "gz": rng.random() < .5, "seed": rng.randrange(1 << 30), "big": True}

def big_record_case(rng, gz=False):
    """a log holding records of several buffer sizes (one evaluation of 5200 interactions is ONE record of > 128 KB): crash points at
    every depth class inside such a record (first bytes, around the 4 KB / 8 KB / 64 KB / 128 KB buffer and window sizes on either side, deep inside, last bytes)"""
    spec = {"groups": [{"kind": "linear", "n": 5200, "seed": 1, "tag": "g0", "filters": [], "na": 2, "ncf": 1, "naf": 0}],   # (a LambdaSimulation of 5000+ interactions refuses to be pickled)
            "lrns": [{"kind": "stateful-a", "tag": f"L{i}", "seed": 1} for i in range(3)],
            "vals": [{"kind": "rec", "tag": "V0", "seed": 1, "nrows": 5200}], "seed": 1, "triples": "cross"}
    return {"spec": spec, "gz": gz, "seed": rng.randrange(1 << 30), "bigrec": True}

def run_shard(ctx):
    if ctx.shard == 1 or (ctx.tier == "thorough" and 4 <= ctx.shard < 8):
        case = big_record_case(ctx.rng, gz=(ctx.shard % 2 == 0))      # quick: one plain log; thorough: two plain, two gz
        try:
            v = check_case(case, ctx)
            ctx.count("big-record.cases")
        except Exception as e:
            import traceback
            v = [(f"reference-run/raised:{type(e).__name__}/big-record", f"{e} {traceback.format_exc()[-600:]}")]
        for sig, what in v: ctx.violation(sig + ("/big-record" if not sig.endswith("/big-record") else ""), what, case)
    if ctx.shard == 0 or (ctx.tier == "thorough" and ctx.shard < 4):
        case = big_log_case(ctx.rng)
        # crash points near the end of the log: inside the last records and at their boundaries
        try:
            v = check_case(case, ctx)
            ctx.count("big-log.cases")
        except Exception as e:
            import traceback
            v = [(f"reference-run/raised:{type(e).__name__}/big-log", f"{e} {traceback.format_exc()[-600:]}")]
        for sig, what in v: ctx.violation(sig + ("/big-log" if not sig.endswith("/big-log") else ""), what, case)
    for i in range(ctx.n):
        if ctx.time_left() <= 0:
            ctx.extra["logs_skipped_for_time"] = ctx.n - i; break
        case = gen_case(ctx.rng)
        try:
            v = check_case(case, ctx)
        except Exception as e:
            import traceback
            v = [(f"reference-run/raised:{type(e).__name__}", f"{e} {traceback.format_exc()[-600:]}")]
        for sig, what in v: ctx.violation(sig, what, case)
    if X.WATCHDOG_LOG:
        # a watchdog that fired decided nothing (the run was repeated), but it is recorded: how often, and what the run was waiting for
        ctx.count("watchdog.multiproc-run-repeated", len(X.WATCHDOG_LOG))
        ctx.extra["watchdog_firings"] = [{"cfg": w["cfg"], "timeout_s": w["timeout_s"], "stacks_tail": w["stacks"][-2500:]} for w in X.WATCHDOG_LOG[:2]]

def replay(witness):
    return check_case(witness)
