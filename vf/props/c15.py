"""C15 -- Every supported prediction format is understood the same way (coba/safety.py SafeLearner).

Systematic enumeration of the grid
    format   in {action, (action,prob), PMF, {'action'}, {'action_prob'}, {'pmf'}}
  x kwargs   in {none, {}, payload}  x  the kind of Mapping the kwargs are handed over as
               in {dict, OrderedDict (a dict subclass), types.MappingProxyType, collections.UserDict}
  x batching in {not, row-major, column-major, fallback-per-row}
  x action-set kind (13) x #actions in {1,2,3,4} x batch size in {1,2,3,4}   (incl. the square cases)
Every grid cell is filled several times (seeded): context kind, PMF style, containers, kwargs payload kind,
scripted indices / probabilities, follow-up calls (same layout, shorter last batch, other #actions).
One context kind is *absent*: the interactions have no 'context' key, so the evaluator (SequentialCB: `context = ... if
has_context else None`) calls predict/learn with context None -- also in a batched call, where the actions are a batch
and the context is not (SafeLearner decides "batched" from `is_batch(actions) or is_batch(context)`).
The action kinds include string sets in which a longer string is spelled with the offered one-character strings
(its items are themselves -- by CPython's one-object-per-character -- offered actions).  For PMF learners a share
of the fillings uses a *boundary seed*: the seed is chosen (by running the generator's recurrence backwards, and
confirmed on the real CobaRandom) so that the uniform number behind the draw of one chosen row is a boundary value
of [0,1): exactly 0.0, the largest value below 1, or a dyadic tie (1/4, 1/2, 3/4) -- placed, when there is one, on a
row whose PMF has a zero weight at that boundary (first entry for 0.0, last entry for the largest value).

A *scripted learner* answers every (context, actions) with the offered object at a scripted index in exactly one
documented layout; the real SafeLearner is driven the way SequentialCB drives it (predict, then learn with what
predict returned) and the oracle -- written from the property statement only -- checks
  * the action handed to the evaluator is the offered action the learner named (PMF: an offered action with
    positive probability, the reported probability is exactly the PMF entry of that action, a second SafeLearner
    with the same seed draws the same actions; pooled draw frequencies agree with the PMFs),
  * the probability is the stated one, the kwargs are the returned ones and reach learn unchanged,
  * a learner that cannot take batches is called once per row, in order, and everything the evaluator and the
    learner see equals what row-by-row (unbatched) operation produces with the same seed.
A second, experiment-level workload pushes the same scripted learners through the real SequentialCB evaluator
(Batch filter, Finalize, Unbatch) with an icontract postcondition on SafeLearner.predict (action offered) and
checks the recorded action / probability / reward rows.
"""
import random
from collections import Counter

ID    = "C15"
LEVEL = "exploration"
RULE  = ("full enumeration of format(6) x kwargs(none | {empty,payload} x Mapping kind(dict,OrderedDict,MappingProxyType,UserDict)) x batching(not,row,col,fallback) x action kind(13) x #actions(1-4) "
         "x batch size(1-4); every cell is filled with seeded context kinds (incl. no 'context' key: context None next to a batch of action sets), PMF styles, containers, payload kinds and "
         "follow-up calls; a case is distinct when (format, kwargs, kwargs Mapping kind, batching, kind, #actions, batch size, context kind, "
         "pmf style, payload kind, container, fallback style, key length, boundary draw) differ; trivial = unbatched with 1 action or "
         "a cell outside the quantifier (bare dict action, value readable two ways)")
PLAN  = {"quick":    {"shards": 16, "cases": 68000,  "timeout": 900,  "budget_s": 240},
         "thorough": {"shards": 16, "cases": 400000, "timeout": 3000, "budget_s": 1500}}
REQUIRED = ["oracle.action", "oracle.prob.stated", "oracle.prob.none-stated", "oracle.prob.pmf", "oracle.kwargs.out", "oracle.kwargs.learn",
            "oracle.pmf.same-seed", "oracle.pmf.zero-never", "oracle.fallback.once-per-row", "oracle.fallback.same-effect",
            "grid.cells", "grid.square", "kwargs.as.dict", "kwargs.as.odict", "kwargs.as.proxy", "kwargs.as.userdict",
            "learner.batch-only", "oracle.kwargs.out.non-dict-mapping", "oracle.kwargs.learn.non-dict-mapping", "batching.not", "batching.row", "batching.col", "batching.fallback",
            "oracle.pmf.frequency", "e2e.rows", "contract.predict.action_offered",
            "edge.draw.verified", "edge.draw.zero", "edge.draw.max", "edge.draw.tie", "oracle.pmf.zero-never.u=0-on-leading-zero-weight",
            "oracle.pmf.zero-never.u=max-on-trailing-zero-weight", "oracle.action.str-spelled-with-offered-chars",
            "oracle.no-context.batched", "oracle.no-context.square", "oracle.no-context.fallback", "e2e.rows.no-context-key.batched"]
ASSUMPTIONS = [
    "learners answer consistently in one documented layout and return the offered objects themselves",
    "a bare dict is always read as a format hint, so sparse-dict actions are only asserted with the (action,prob), PMF and hinted formats",
    "values that can be read two ways by object identity are left to the hinted formats: an int one-hot PMF of length 2 whose "
    "first entry is (by small-int identity) an int action the learner was handed -- unbatched calls hand over float copies of "
    "0/1, batched calls hand over the rows unchanged -- and an offered 2-sequence whose first item is itself an offered int",
    "batched layouts are those accepted by the repository's unit tests of batch_order/has_kwargs/first_row: row-major = one "
    "prediction per row; column-major = one column per part then a kwargs mapping of columns, a column-major PMF is one "
    "column per action, hinted column-major values are lists with one entry per row",
    "returned actions are compared by equality (0.0 == 0), the probability of the bare/hinted action formats is not asserted",
    "a bare PMF sums to 1 within 2e-4 (learners that round to 4 decimals; coba's documented tolerance is 1e-3)",
    "a learner that cannot take batches raises (or returns None) from predict and raises from learn when handed a batch",
    "a learner written for batches only (it raises when called with a single row) answers every batch in its one layout",
    "kwargs keys do not collide with learn's parameter names or with the hint names",
    "the kwargs part is a collections.abc.Mapping with str keys (coba.primitives.Kwargs = Mapping[str,Any]): a dict, a dict subclass "
    "(OrderedDict), a read-only types.MappingProxyType or a collections.UserDict; what the evaluator and learn receive is compared "
    "by content (keys and values), not by container type",
    "boundary seeds rely on CobaRandom being the documented 30 bit LCG (a=116646453, c=9, m=2**30, u=state/m); every such seed is "
    "confirmed by drawing from the real CobaRandom, an unconfirmed one is not counted (the run is then INCONCLUSIVE, not a violation); "
    "at an exact tie between two positive-weight actions either of the two is accepted",
    "a str answer is a bare action (a character is not a probability), also when its first character is itself an offered action",
    "an environment without contexts is one whose interactions carry no 'context' key: the evaluator then passes context None, in a "
    "batched call next to a batch of action sets (what SequentialCB does); a learner asked about a batch then sees None for every row, "
    "and row-by-row operation of the same environment calls predict(None, actions) / learn(None, ...)",
]

FORMATS  = ["action", "action_prob", "pmf", "h_action", "h_action_prob", "h_pmf"]
KWMODES  = ["none", "empty", "payload"]
KWCONTS  = ["dict", "odict", "proxy", "userdict"]     # how the learner hands its kwargs over: any Mapping is a kwargs mapping
BATCHING = ["not", "row", "col", "fallback"]
KINDS    = ["int01", "int", "floatp", "float01", "str1", "strn", "strsub", "categorical", "onehot", "tuple2", "list", "dict", "mixed"]
SIZES    = [1, 2, 3, 4]
CTXKINDS = ["none", "int", "str", "tuple", "dict", "float", "absent"]
PMFSTYLE = ["float", "zeros", "onehot", "onehot-int", "uniform", "rounded"]
PAYKINDS = ["scalar", "str", "list", "dict", "nonevalue", "multi"]
CONTS    = ["list", "tuple"]
FBSTYLES = ["raise", "none"]
# the uniform number behind one PMF draw is put on a boundary of [0,1) / on a dyadic tie: name -> numerator of u over 2**30
EDGES    = {"zero": 0, "max": 2**30 - 1, "half": 2**29, "quarter": 2**28, "three-quarters": 3 * 2**28}
EDGEPICK = ["zero", "zero", "zero", "max", "max", "half", "quarter", "three-quarters"]
# strings of several lengths where the longer ones are spelled with the offered one-character strings (keyed by klen)
_STRSUB  = {1: ["u", "d", "ud", "du", "l", "lu"], 2: ["1", "2", "12", "21", "3", "31"],
            3: ["n", "no", "o", "on", "non", "oo"], 4: ["a", "ab", "b", "ba", "abba", "bb"]}
ACLASS   = {"int01": "num", "int": "num", "floatp": "num", "float01": "num", "str1": "str", "strn": "str", "strsub": "str",
            "categorical": "str", "onehot": "seq", "tuple2": "seq", "list": "seq", "dict": "dict", "mixed": "mixed"}

class ContractBroken(AssertionError): pass
class CannotBatch(Exception): pass
class HarnessError(Exception): pass
class Unscripted(Exception): pass
class BatchOnly(Exception): pass

_CNT = Counter()
_QUIET = []
def _quiet():
    """SafeLearner logs a deprecation note for every PMF learner: keep it off the shard's stdout"""
    if _QUIET: return
    from coba.context import CobaContext, NullLogger
    CobaContext.logger = NullLogger()
    _QUIET.append(1)

# ------------------------------------------------------------------------------------------ grid
def grid():
    cells = []
    for fmt in FORMATS:
        for kw in KWMODES:
          for kwc in (KWCONTS if kw != "none" else ["dict"]):
            for kind in KINDS:
                for n in SIZES:
                    cells.append((fmt, kw, "not", kind, n, 0, kwc))
                    for bat in ("row", "col", "fallback"):
                        for b in SIZES:
                            cells.append((fmt, kw, bat, kind, n, b, kwc))
    return cells

# ------------------------------------------------------------------------------------------ values
def _rot(xs, v):
    v %= len(xs)
    return xs[v:] + xs[:v]

_LISTS = {1: [[1.0], [2.5], [0.5], [3], [7], [0.25]],
          2: [[0.5, 0.5], [1.5, 2], [0.25, 0.75], [3, 4.5], [1.0, 0.0], [7, 8]],
          3: [[0.2, 0.3, 0.5], [1, 2, 3], [0.0, 1.0, 0.0], [4, 5.5, 6], [0.5, 0.25, 0.25], [7, 8, 9]],
          4: [[0.25, 0.25, 0.25, 0.25], [1, 2, 3, 4], [0.0, 0.0, 1.0, 0.0], [5, 6, 7.5, 8], [0.1, 0.2, 0.3, 0.4], [9, 8, 7, 6]]}

def make_actions(kind, n, v, klen=2):
    """a fresh list of n distinct action objects; v varies the set from row to row"""
    if kind == "int01":   return _rot([0, 1, 2, 3], v % 2)[:n]
    if kind == "int":     return _rot([5, -2, 7, 10, 3, 8], v)[:n]
    if kind == "floatp":  return _rot({1: [1.0], 2: [0.25, 0.75], 3: [0.5, 0.3, 0.2], 4: [0.1, 0.2, 0.3, 0.4]}[n], v)
    if kind == "float01": return _rot([0.0, 1.0, 0.5, 0.25], v)[:n]
    if kind == "str1":    return _rot(list("abcdef"), v)[:n]
    if kind == "strn":    return _rot(["".join(chr(97 + (i * klen + j) % 26) for j in range(klen)) for i in range(6)], v)[:n]
    if kind == "strsub":  return _rot(list(_STRSUB[klen]), v)[:n]
    if kind == "categorical":
        from coba.primitives import Categorical
        levels = ["lo", "mid", "hi", "top", "x", "y"]
        return [Categorical(l, levels) for l in _rot(levels, v)[:n]]
    if kind == "onehot":  return _rot([tuple(1 if j == i else 0 for j in range(n)) for i in range(n)], v)
    if kind == "tuple2":  return _rot([(0.5, 0.5), (1, 0.5), (2, 0.25), (0.25, 0.75), (4, 1.0)], v)[:n]
    if kind == "list":    return [list(x) for x in _rot(_LISTS[klen], v)[:n]]
    if kind == "dict":    return [dict(d) for d in _rot([{"a": 1}, {"b": 2, "c": 0.5}, {"a": 0.5, "b": 0.5}, {"d": 1, "e": 1, "f": 1}, {"x": 3}, {"y": 1, "z": 2}], v)[:n]]
    if kind == "mixed":   return _rot([0, "b", (0, 1), 2.5, 1, "cd"], v % 2)[:n]
    raise HarnessError(kind)

def make_context(kind, rid):
    if kind == "none":  return None
    if kind == "absent": return None       # no 'context' key: None for every row, handed over un-batched (see _ctx_arg)
    if kind == "int":   return rid
    if kind == "str":   return f"c{rid}"
    if kind == "tuple": return (rid, 0.5)
    if kind == "dict":  return {"r": rid, "x": 1.0}
    if kind == "float": return rid + 0.5
    raise HarnessError(kind)

def canon(x):
    if x is None: return None
    if isinstance(x, str): return ("s", str(x))
    if isinstance(x, bool): return ("b", x)
    if isinstance(x, (int, float)): return ("n", float(x))
    if isinstance(x, dict): return ("d", tuple(sorted((str(k), canon(v)) for k, v in x.items())))
    if isinstance(x, (list, tuple)): return ("q", tuple(canon(v) for v in x))
    return ("o", repr(x))

def _eq(a, b):
    """equality the way an evaluator would look an action up (0.0 == 0; list vs tuple is a difference)"""
    try:
        if isinstance(a, (list, tuple)) or isinstance(b, (list, tuple)):
            return type(a) is type(b) and len(a) == len(b) and all(_eq(x, y) for x, y in zip(a, b))
        return bool(a == b)
    except Exception:
        return False

def make_kwargs(kwc, d):
    """the kwargs mapping the way the learner hands it over (a fresh object every time)"""
    d = dict(d)
    if kwc == "dict":     return d
    if kwc == "odict":
        from collections import OrderedDict
        return OrderedDict(d)
    if kwc == "proxy":
        from types import MappingProxyType
        return MappingProxyType(d)
    if kwc == "userdict":
        from collections import UserDict
        return UserDict(d)
    raise HarnessError(kwc)

def make_pmf(style, ws):
    tot = sum(ws)
    if style == "onehot-int": return [int(w) for w in ws]          # ints 0/1
    if style == "rounded":    return [round(w / tot, 4) + 0.0 for w in ws]   # a learner that rounds: sums to 1 within 2e-4 (coba documents 1e-3)
    return [w / tot for w in ws]                                   # fresh float objects, never identical to an action

# ------------------------------------------------------------------------------------------ boundary seeds
_LCG_A, _LCG_C, _LCG_M = 116646453, 9, 2**30       # CobaRandom's recurrence as documented in coba/random.py (confirmed per seed below)
_LCG_AINV = pow(_LCG_A, -1, _LCG_M)

def seed_for_draw(state, k):
    """the seed whose k-th uniform (1-based) is state/2**30: the recurrence run backwards k times"""
    for _ in range(k):
        state = (_LCG_AINV * (state - _LCG_C)) % _LCG_M
    return state

def edge_confirmed(seed, k, edge):
    """does the real generator, seeded with seed, produce the boundary value as its k-th uniform?"""
    from coba.random import CobaRandom
    try:
        return CobaRandom(seed).randoms(k)[-1] == EDGES[edge] / _LCG_M
    except Exception:
        return False

# ------------------------------------------------------------------------------------------ case generation
def gen_case(params):
    """params -> self-contained spec (JSON-able).  Deterministic in params (incl. params['fill'])."""
    p = dict(params)
    rng = random.Random(f"c15/{p['fill']}")
    fmt, kwm, bat, kind, n, b = p["fmt"], p["kw"], p["batching"], p["kind"], p["n"], p["b"]
    shapes = [(n, b if bat != "not" else 1)]
    if p.get("more", True):
        shapes.append((n, b if bat != "not" else 1))
        b2 = rng.randint(1, b) if bat != "not" else 1
        n2 = rng.choice(SIZES)
        shapes.append((n2, b2))
    calls, seen, rid = [], {}, 0
    ragged = p.get("ragged", False) and bat in ("row", "fallback", "col") and not (bat == "col" and fmt == "pmf")
    same   = p.get("same", False)
    for (n0, bb) in shapes:
        rows = []
        for _ in range(bb):
            nn = rng.choice(SIZES) if ragged and rows else n0          # rows of one batch offer different numbers of actions
            acts = make_actions(kind, nn, 0 if same else rid, p["klen"])
            key = repr(canon((make_context(p["ctx"], rid), acts)))
            if key in seen:
                row = dict(seen[key]); row["rid"] = rid                          # same question => same scripted answer
            else:
                style = p["pmf"]
                if style == "float":    ws = [rng.randint(1, 5) for _ in range(nn)]
                elif style == "rounded": ws = [rng.choice([1, 1, 2, 3, 5, 7]) for _ in range(nn)]
                elif style == "zeros":
                    ws = [rng.choice([0, 0, 1, 2, 3]) for _ in range(nn)]
                    if not any(ws): ws[rng.randrange(nn)] = 2
                elif style in ("onehot", "onehot-int"):
                    ws = [0] * nn; ws[rng.randrange(nn)] = 1
                else: ws = [1] * nn
                if kwm == "none":    kw = None
                elif kwm == "empty": kw = {}
                else:
                    pk = p["pay"]
                    if   pk == "scalar":    kw = {"k": rid * 10 + 1}
                    elif pk == "str":       kw = {"k": f"s{rid}"}
                    elif pk == "list":      kw = {"k": [rid + j for j in range(max(bb, 2))]}   # per-row value as long as the batch
                    elif pk == "dict":      kw = {"k": {"x": rid}}
                    elif pk == "nonevalue": kw = {"k": None}
                    else:
                        # the rows of one batch build their kwargs in different key orders (equal as mappings, different as sequences of values)
                        items = [("k", rid), ("z", [rid]), ("info", f"i{rid}")]
                        kw = dict(items[rid % 3:] + items[:rid % 3])
                row = {"rid": rid, "rep": rid, "v": 0 if same else rid, "n": nn, "idx": rng.randrange(nn),
                       "p": rng.choice([0.5, 0.25, 1.0, 1, 0.125, 0.75]), "w": ws, "kw": kw}
                seen[key] = row
            rows.append(row); rid += 1
        calls.append(rows)
    p["calls"] = calls
    p["seed"] = rng.choice([0, 0, 1]) if rng.random() < .12 else rng.randint(0, 10**6)      # 0 is a legal seed (and falsy)
    p.pop("edge_k", None)
    if p.get("edge") and fmt in ("pmf", "h_pmf"):
        # one uniform is consumed per predicted row, in order: put the boundary value behind the draw of one row -- one whose
        # PMF has a zero weight at that boundary when there is such a row
        flat = [r for rows in calls for r in rows]
        if   p["edge"] == "zero": cand = [i for i, r in enumerate(flat) if r["w"][0] == 0]
        elif p["edge"] == "max":  cand = [i for i, r in enumerate(flat) if r["w"][-1] == 0]
        else:                     cand = [i for i, r in enumerate(flat) if r["n"] > 1]
        k = rng.choice(cand or list(range(len(flat)))) + 1
        p["edge_k"] = k
        p["seed"]   = seed_for_draw(EDGES[p["edge"]], k)
    return p

def fill_params(cell, rng):
    fmt, kw, bat, kind, n, b, kwc = cell
    return {"fmt": fmt, "kw": kw, "kwc": kwc, "batching": bat, "kind": kind, "n": n, "b": b,
            "ctx": rng.choice(CTXKINDS), "pmf": rng.choice(PMFSTYLE), "cont": rng.choice(CONTS), "klen": rng.choice(SIZES),
            "pay": rng.choice(PAYKINDS), "fb": rng.choice(FBSTYLES), "more": rng.random() < .7, "bonly": bat in ("row", "col") and rng.random() < .3, "ragged": rng.random() < .2, "same": rng.random() < .3,
            "edge": (rng.choice(EDGEPICK) if rng.random() < .35 else None) if fmt in ("pmf", "h_pmf") else None,
            "fill": rng.randint(0, 10**9)}

# ------------------------------------------------------------------------------------------ domain of the statement
def _small_int_ident(x, a, batched):
    """can x be identical to the object the learner is handed for the offered action a, other than by being returned?
    only through CPython's small-int identity: unbatched calls hand over float copies of 0/1, batches are unchanged"""
    if type(x) is int and type(a) is int and x == a:
        return batched or a not in (0, 1)
    return False

def out_of_domain(spec, row, offered, batched):
    """None when the row's answer is inside the quantifier, else the reason it is not asserted"""
    fmt, kind = spec["fmt"], spec["kind"]
    if fmt == "pmf" and spec["batching"] == "col" and len(spec["calls"][0]) == 1 and spec["calls"][0][0]["n"] == 1 \
       and any(len(c) > 1 or c[0]["n"] > 1 for c in spec["calls"]):
        # the layout is fixed on the first call and [[1.0]] is the row-major and the column-major PMF of 1 row x 1 action
        return "two-readings:first-call-1x1-pmf-row|col"
    if fmt == "pmf" and spec["batching"] == "col" and spec["kw"] != "none" and any(r["n"] == 1 for c in spec["calls"] for r in c):
        # [lone_column, kwargs] is both "a column of actions + kwargs" and "the PMF column of a single action + kwargs": a value
        # that can be read two ways needs the {'pmf': ...} hint per the quantifier (coba refuses it and recommends that hint)
        return "two-readings:col-pmf-one-action+kwargs|action-column+kwargs"
    if fmt == "action" and any(isinstance(a, dict) for a in offered):
        return "bare-dict-action"
    if fmt == "action":
        v = offered[row["idx"]]
        if isinstance(v, (list, tuple)) and len(v) == 2 and any(_small_int_ident(v[0], a, batched) for a in offered):
            return "two-readings:action|action_prob"
    if fmt == "pmf" and spec["pmf"] == "onehot-int":
        ws = row["w"]
        if len(ws) == 2 and any(_small_int_ident(int(ws[0]), a, batched) for a in offered):
            return "two-readings:pmf|action_prob"
    return None

# ------------------------------------------------------------------------------------------ the scripted learner
class Scripted:
    """answers (context, actions) with the offered object at the scripted index, in exactly one documented layout"""
    def __init__(self, spec, rowwise=False):
        self.spec = spec
        self.layout = "not" if rowwise else spec["batching"]
        self.cont = tuple if spec["cont"] == "tuple" else list
        self.kwc  = spec.get("kwc", "dict")
        self.table = {}
        for rows in spec["calls"]:
            for row in rows:
                acts = make_actions(spec["kind"], row["n"], row["v"], spec["klen"])
                self.table.setdefault(repr(canon((make_context(spec["ctx"], row["rid"]), acts))), row)
        self.row_calls   = []      # rid of every unbatched predict call, in order
        self.batch_calls = []      # sizes of batches handed to predict
        self.learned     = []      # (batched?, context, action, reward, probability, kwargs)
        self.named       = {}      # rid -> object returned as the action (non-PMF formats)
        self.first_pred  = None

    def _row(self, context, actions):
        from coba.primitives import is_batch
        if is_batch(context) or is_batch(actions): raise HarnessError("row answer asked for a batch")
        key = repr(canon((context, list(actions))))
        if key not in self.table: raise Unscripted(f"the learner was asked about (context, actions) = ({context!r}, {actions!r}), which the evaluator never offered")
        row = self.table[key]
        a   = actions[row["idx"]]
        self.named[row["rid"]] = a
        pmf = self.cont(make_pmf(self.spec["pmf"], row["w"]))
        return row, a, row["p"], pmf

    def _one(self, context, actions):
        row, a, p, pmf = self._row(context, actions)
        fmt, kw, C = self.spec["fmt"], row["kw"], self.cont
        if fmt == "action":        core = a
        elif fmt == "action_prob": core = C([a, p])
        elif fmt == "pmf":         core = pmf
        elif fmt == "h_action":    core = {"action": a}
        elif fmt == "h_action_prob": core = {"action_prob": C([a, p])}
        else:                      core = {"pmf": pmf}
        if kw is None: return core
        if fmt == "action_prob": return C([a, p, make_kwargs(self.kwc, kw)])
        return C([core, make_kwargs(self.kwc, kw)])

    def predict(self, context, actions):
        from coba.primitives import is_batch
        batched = is_batch(context) or is_batch(actions)
        if not batched and self.spec.get("bonly") and self.layout in ("row", "col"):
            # a learner written for batches only: it answers every batch in its one layout and nothing else
            raise BatchOnly("this learner only understands batches")
        if not batched:
            out = self._one(context, actions)
            self.row_calls.append(self.table[repr(canon((context, list(actions))))]["rep"])
            if self.first_pred is None: self.first_pred = out
            return out
        self.batch_calls.append(len(actions))
        if self.layout == "fallback":
            if self.spec["fb"] == "none": return None
            raise CannotBatch("this learner does not understand batches")
        if self.layout == "not": raise HarnessError("unbatched case received a batch")
        fmt, C = self.spec["fmt"], self.cont
        if not is_batch(context): context = [context] * len(actions)       # no context: the same None for every row
        if self.layout == "row":
            out = C([self._one(c, A) for c, A in zip(context, actions)])
        else:
            rows = [self._row(c, A) for c, A in zip(context, actions)]
            kws  = [r[0]["kw"] for r in rows]
            has_kw = kws[0] is not None
            KW = make_kwargs(self.kwc, {k: [kw[k] for kw in kws] for k in kws[0]}) if has_kw else None
            A_col = [r[1] for r in rows]; P_col = [r[2] for r in rows]; M = [r[3] for r in rows]
            if   fmt == "action":        parts = [A_col]
            elif fmt == "action_prob":   parts = [C(A_col), C(P_col)]
            elif fmt == "pmf":           parts = [C(col) for col in zip(*M)]              # one column per action
            elif fmt == "h_action":      parts = [{"action": A_col}]
            elif fmt == "h_action_prob": parts = [{"action_prob": [C([a, p]) for a, p in zip(A_col, P_col)]}]
            else:                        parts = [{"pmf": M}]
            if has_kw:                                out = C(parts + [KW])
            elif fmt in ("action",) or fmt.startswith("h_"): out = parts[0]
            else:                                     out = C(parts)
        if self.first_pred is None: self.first_pred = out
        return out

    def learn(self, context, action, reward, probability, **kwargs):
        from coba.primitives import is_batch
        batched = any(map(is_batch, (context, action, reward, probability)))
        if batched and self.layout == "fallback": raise CannotBatch("this learner does not understand batches")
        self.learned.append((batched, context, action, reward, probability, kwargs))

# ------------------------------------------------------------------------------------------ driving the real SafeLearner
def _ctx_arg(spec, ctxs):
    """the context argument of a batched call: a batch of contexts, or -- interactions without a 'context' key -- None"""
    from coba.environments.filters import Batch
    return None if spec["ctx"] == "absent" else Batch.List(ctxs)

def _drive(spec, seed, rowwise=False):
    """the evaluator's protocol: predict, look the reward up, learn with what predict returned.
    returns (learner, [per-call record])"""
    from coba.safety import SafeLearner
    from coba.environments.filters import Batch
    _quiet()
    lrn = Scripted(spec, rowwise)
    sl  = SafeLearner(lrn, seed)
    batched = spec["batching"] != "not" and not rowwise
    recs = []
    for rows in spec["calls"]:
        offered = [make_actions(spec["kind"], r["n"], r["v"], spec["klen"]) for r in rows]
        ctxs    = [make_context(spec["ctx"], r["rid"]) for r in rows]
        rwds    = [float(r["rid"]) + 0.5 for r in rows]
        if batched:
            rec = {"rows": rows, "offered": offered, "ctxs": ctxs, "rwds": rwds, "n_learned0": len(lrn.learned), "n_rowcalls0": len(lrn.row_calls)}
            try:
                rec["out"] = sl.predict(_ctx_arg(spec, ctxs), Batch.List(offered))
            except HarnessError: raise
            except Exception as e:
                rec["exc"] = ("predict", e); recs.append(rec); break
            recs.append(rec)
            try:
                A, P, K = rec["out"]
                sl.learn(_ctx_arg(spec, ctxs), A, Batch.List(rwds), P, **K)
            except HarnessError: raise
            except Exception as e:
                rec["exc"] = ("learn", e); break
            rec["learned"] = lrn.learned[rec["n_learned0"]:]; rec["rowcalls"] = lrn.row_calls[rec["n_rowcalls0"]:]
        else:
            stop = False
            for r, acts, c, w in zip(rows, offered, ctxs, rwds):
                rec = {"rows": [r], "offered": [acts], "ctxs": [c], "rwds": [w], "n_learned0": len(lrn.learned), "n_rowcalls0": len(lrn.row_calls)}
                try:
                    rec["out"] = sl.predict(c, acts)
                except HarnessError: raise
                except Exception as e:
                    rec["exc"] = ("predict", e); recs.append(rec); stop = True; break
                recs.append(rec)
                try:
                    a, p, k = rec["out"]
                    sl.learn(c, a, w, p, **k)
                except HarnessError: raise
                except Exception as e:
                    rec["exc"] = ("learn", e); stop = True; break
                rec["learned"] = lrn.learned[rec["n_learned0"]:]; rec["rowcalls"] = lrn.row_calls[rec["n_rowcalls0"]:]
            if stop: break
    return lrn, recs

def _index_of(a, offered):
    for i, o in enumerate(offered):
        if _eq(a, o): return i
    return None

def _seq(x):
    return isinstance(x, (list, tuple))

def _evaluate(spec, note, freq=None):
    """returns [] or [(mode, what)] -- the first disagreement with the statement"""
    fmt, bat, kwm = spec["fmt"], spec["batching"], spec["kw"]
    batched = bat != "not"
    is_pmf, is_ap = fmt in ("pmf", "h_pmf"), fmt in ("action_prob", "h_action_prob")
    nondict_kw = kwm != "none" and spec.get("kwc", "dict") in ("proxy", "userdict")
    # ---- domain
    for rows in spec["calls"]:
        for r in rows:
            why = out_of_domain(spec, r, make_actions(spec["kind"], r["n"], r["v"], spec["klen"]), batched)
            if why: note("skipped." + why); return None
    edge_row = None
    if spec.get("edge") and spec.get("edge_k"):
        if edge_confirmed(spec["seed"], spec["edge_k"], spec["edge"]):
            note("edge.draw.verified")
            note("edge.draw." + (spec["edge"] if spec["edge"] in ("zero", "max") else "tie"))
            edge_row = [r for rows in spec["calls"] for r in rows][spec["edge_k"] - 1]["rid"]
        else:
            note("edge.draw.unconfirmed")       # the generator is not the documented LCG: nothing is claimed about this seed
    if spec["ctx"] == "absent" and batched:
        note("oracle.no-context.batched")
        if bat == "fallback": note("oracle.no-context.fallback")
        elif spec["n"] == spec["b"]: note("oracle.no-context.square")       # square answers: the layout is probed with the first row alone
    lrn, recs = _drive(spec, spec["seed"])
    per_row = []                     # (rid, action, prob, kwargs) as the evaluator received them
    for ci, rec in enumerate(recs):
        rows, offered = rec["rows"], rec["offered"]
        b = len(rows)
        where = f"call {ci} ({b} row(s), {rows[0]['n']} action(s))"
        if "exc" in rec and rec["exc"][0] == "predict":
            e = rec["exc"][1]
            root = e
            while root is not None and not isinstance(root, Unscripted): root = root.__cause__ or root.__context__
            if root is not None:
                return [("learner-asked-unoffered", f"{where}: {root}")]
            root = e
            while root is not None and not isinstance(root, BatchOnly): root = root.__cause__ or root.__context__
            if root is not None:
                first = e.__cause__ or e.__context__ or e
                return [("batch-answer-refused", f"{where}: the learner's batched answer {lrn.first_pred!r} was not accepted ({type(first).__name__}: {first}) "
                                                 f"and the batch-only learner was then called row by row")]
            return [(f"raise:{type(e).__name__}", f"{where}: predict raised {type(e).__name__}: {e}; learner answered {lrn.first_pred!r}")]
        out = rec["out"]
        if not (_seq(out) and len(out) == 3):
            return [("wrong-shape", f"{where}: predict returned {out!r}")]
        A, P, K = out
        if batched:
            if not (_seq(A) and len(A) == b):
                return [("wrong-shape", f"{where}: expected {b} actions, evaluator received {A!r}; learner answered {lrn.first_pred!r}")]
            if not (_seq(P) and len(P) == b):
                return [("wrong-shape", f"{where}: expected {b} probabilities, evaluator received {P!r}")]
            As, Ps = list(A), list(P)
        else:
            As, Ps = [A], [P]
        if not isinstance(K, dict) and not hasattr(K, "keys"):
            return [("wrong-kwargs", f"{where}: kwargs handed to the evaluator are {K!r}")]
        # ---- action / probability
        for i, (r, a, p, acts) in enumerate(zip(rows, As, Ps, offered)):
            j = _index_of(a, acts)
            if is_pmf:
                pmf = make_pmf(spec["pmf"], r["w"])
                note("oracle.pmf.zero-never")
                if r["rid"] == edge_row:
                    if spec["edge"] == "zero" and pmf[0] == 0: note("oracle.pmf.zero-never.u=0-on-leading-zero-weight")
                    if spec["edge"] == "max" and pmf[-1] == 0: note("oracle.pmf.zero-never.u=max-on-trailing-zero-weight")
                if j is None:
                    return [("action-not-offered", f"{where} row {i}: {a!r} is not one of {acts!r}")]
                if not pmf[j] > 0:
                    return [("pmf-draw-inconsistent", f"{where} row {i}: drew {a!r} whose probability is {pmf[j]!r} in {pmf!r}")]
                note("oracle.prob.pmf")
                if p is None:
                    return [("pmf-prob-missing", f"{where} row {i}: drew {a!r} (index {j}) from {pmf!r} but no probability was reported")]
                if not (isinstance(p, (int, float)) and p == pmf[j]):
                    return [("pmf-draw-inconsistent", f"{where} row {i}: drew {a!r} (index {j}) from {pmf!r} but probability {p!r} was reported")]
                # (cases that share one of the few fixed small seeds draw the same uniforms: they are not independent samples)
                if freq is not None and len(pmf) > 1 and spec["seed"] > 1 and not spec.get("edge"):
                    freq[0] += 1 if j == 0 else 0; freq[1] += pmf[0]; freq[2] += pmf[0] * (1 - pmf[0]); freq[3] += 1
            else:
                note("oracle.action")
                named = acts[r["idx"]]
                if isinstance(named, str) and len(named) > 1 and any(isinstance(o, str) and o == named[0] for o in acts):
                    note("oracle.action.str-spelled-with-offered-chars")
                if j is None:
                    return [("action-not-offered", f"{where} row {i}: evaluator received {a!r}, offered {acts!r}; learner named {acts[r['idx']]!r}")]
                if j != r["idx"]:
                    return [("wrong-action", f"{where} row {i}: learner named {acts[r['idx']]!r}, evaluator received {a!r}")]
                if is_ap:
                    note("oracle.prob.stated")
                    if not (isinstance(p, (int, float)) and not isinstance(p, bool) and p == r["p"]):
                        return [("wrong-prob", f"{where} row {i}: learner stated {r['p']!r}, evaluator received {p!r}")]
                else:
                    # the learner stated no probability: what value stands for "none stated" is not asserted, but it is
                    # not some other part of the answer (the kwargs mapping, a container)
                    note("oracle.prob.none-stated")
                    if not (p is None or (isinstance(p, (int, float)) and not isinstance(p, bool))):
                        return [("prob-is-not-a-probability", f"{where} row {i}: learner named {acts[r['idx']]!r} and stated no probability, evaluator received the probability {p!r}; learner answered {lrn.first_pred!r}")]
        # ---- kwargs as the evaluator receives them
        note("oracle.kwargs.out")
        if nondict_kw: note("oracle.kwargs.out.non-dict-mapping")
        want_keys = sorted(rows[0]["kw"] or {})
        if sorted(K.keys()) != want_keys:
            return [("wrong-kwargs", f"{where}: learner returned kwargs {rows[0]['kw']!r}, evaluator received {dict(K)!r}")]
        for k in want_keys:
            if batched:
                col = K[k]
                ok = _seq(col) and len(col) == b and all(_eq(col[i], rows[i]["kw"][k]) for i in range(b))
            else:
                ok = _eq(K[k], rows[0]["kw"][k])
            if not ok:
                return [("wrong-kwargs", f"{where}: key {k!r}: learner returned {[r['kw'][k] for r in rows]!r}, evaluator received {K[k]!r}")]
        for i in range(b):
            per_row.append((rows[i]["rid"], As[i], Ps[i], {k: (K[k][i] if batched else K[k]) for k in want_keys}))
        # ---- learn
        if "exc" in rec:
            e = rec["exc"][1]
            return [(f"learn-raise:{type(e).__name__}", f"{where}: learn(context, action, reward, prob, **kwargs) raised {type(e).__name__}: {e}")]
        new = rec["learned"]
        note("oracle.kwargs.learn")
        if nondict_kw: note("oracle.kwargs.learn.non-dict-mapping")
        if bat == "fallback":
            note("oracle.fallback.once-per-row")
            got_rids = rec["rowcalls"]
            if got_rids != [r["rep"] for r in rows]:
                return [("fallback-calls", f"{where}: rows {[r['rep'] for r in rows]} were predicted through unbatched calls for rows {got_rids}")]
            if len(new) != b or any(x[0] for x in new):
                return [("fallback-learn-calls", f"{where}: {b} rows but learn was called {len(new)} time(s)")]
            for i, (bt, c, a, w, p, kw) in enumerate(new):
                want_kw = rows[i]["kw"] or {}
                if not (_eq(c, rec["ctxs"][i]) and _eq(a, As[i]) and w == rec["rwds"][i] and (p is Ps[i] or p == Ps[i])):
                    return [("fallback-learn-args", f"{where} row {i}: learn received ({c!r},{a!r},{w!r},{p!r}), evaluator passed ({rec['ctxs'][i]!r},{As[i]!r},{rec['rwds'][i]!r},{Ps[i]!r})")]
                if sorted(kw) != sorted(want_kw) or any(not _eq(kw[k], want_kw[k]) for k in want_kw):
                    return [("learn-kwargs-changed", f"{where} row {i}: predict returned kwargs {want_kw!r}, learn received {kw!r}")]
        else:
            if len(new) != 1:
                return [("learn-calls", f"{where}: learn reached the learner {len(new)} times for one evaluator call")]
            kw = new[0][5]
            if sorted(kw) != want_keys:
                return [("learn-kwargs-changed", f"{where}: predict returned kwargs {rows[0]['kw']!r}, learn received {kw!r}")]
            for k in want_keys:
                if batched: ok = _seq(kw[k]) and len(kw[k]) == b and all(_eq(kw[k][i], rows[i]["kw"][k]) for i in range(b))
                else:       ok = _eq(kw[k], rows[0]["kw"][k])
                if not ok:
                    return [("learn-kwargs-changed", f"{where}: key {k!r}: predict returned {[r['kw'][k] for r in rows]!r}, learn received {kw[k]!r}")]
    # ---- PMF draws are a function of the seed
    if is_pmf:
        note("oracle.pmf.same-seed")
        _, recs2 = _drive(spec, spec["seed"])
        d1 = [(canon(r["out"][0]), canon(r["out"][1])) for r in recs if "out" in r]
        d2 = [(canon(r["out"][0]), canon(r["out"][1])) for r in recs2 if "out" in r]
        if d1 != d2:
            return [("pmf-not-reproducible", f"two SafeLearners with seed {spec['seed']} drew {d1!r} and {d2!r}")]
    # ---- a learner that cannot take batches: same effect as row-by-row operation
    if bat == "fallback":
        lrn3, recs3 = _drive(spec, spec["seed"], rowwise=True)
        if any("exc" in r for r in recs3):
            note("fallback.reference-raised")
        else:
            note("oracle.fallback.same-effect")
            ref = [(r["rows"][0]["rid"],) + tuple(r["out"]) for r in recs3]
            if len(ref) != len(per_row):
                return [("fallback-differs", f"row-by-row operation produced {len(ref)} results, batched fallback {len(per_row)}")]
            for (rid, a, p, k), (rid3, a3, p3, k3) in zip(per_row, ref):
                if rid != rid3 or not _eq(a, a3) or not (p == p3) or canon(k) != canon(dict(k3)):
                    return [("fallback-differs", f"row {rid}: batched fallback gave ({a!r},{p!r},{k!r}), row-by-row operation gave ({a3!r},{p3!r},{dict(k3)!r})")]
            l1 = [canon(x[1:]) for x in lrn.learned]; l3 = [canon(x[1:]) for x in lrn3.learned]
            if l1 != l3:
                return [("fallback-differs", f"learn calls differ: batched fallback {lrn.learned!r} vs row-by-row {lrn3.learned!r}")]
    return []

# ------------------------------------------------------------------------------------------ experiment-level workload
def _install_contract():
    import icontract
    from coba.safety import SafeLearner
    from coba.primitives import is_batch
    if getattr(SafeLearner, "_vf_c15", False): return
    def action_offered(context, actions, result):
        _CNT["contract.predict.action_offered"] += 1
        if not actions: return True
        A = result[0]
        if is_batch(actions) or is_batch(context):
            return _seq(A) and len(A) == len(actions) and all(_index_of(a, row) is not None for a, row in zip(A, actions))
        return _index_of(A, actions) is not None
    SafeLearner._vf_plain_predict = SafeLearner.predict
    SafeLearner._vf_checked_predict = icontract.ensure(action_offered, error=ContractBroken)(SafeLearner.predict)
    SafeLearner._vf_c15 = True

class _Reward:
    def __init__(self, rid, offered): self.rid, self.offered = rid, offered
    def __call__(self, action):
        j = _index_of(action, self.offered)
        if j is None: raise LookupError(f"reward asked for {action!r} which is not one of {self.offered!r}")
        return self.rid * 100 + j

class _Env:
    def __init__(self, interactions): self._i = interactions
    @property
    def params(self): return {}
    def read(self): return iter(self._i)

def _evaluate_e2e(spec, note):
    """the same scripted learner under the real SequentialCB (Finalize, Batch, Unbatch) with the contract on predict"""
    from coba.safety import SafeLearner
    from coba.evaluators import SequentialCB
    from coba.environments.filters import Batch
    fmt, bat = spec["fmt"], spec["batching"]
    _quiet()
    if spec["kind"] == "categorical": return None           # Finalize re-encodes Categoricals: the script keys on the raw objects
    batched = bat != "not"
    for rows in spec["calls"]:
        for r in rows:
            if out_of_domain(spec, r, make_actions(spec["kind"], r["n"], r["v"], spec["klen"]), batched): return None
    # BatchSafe re-batches everything with the size of the first batch: keep the batches aligned with the calls
    calls = [rows for rows in spec["calls"]]
    if batched:
        b = len(calls[0]); calls = [rows for rows in calls if len(rows) == b] + [rows for rows in calls if len(rows) != b][-1:]
    inter, script = [], []
    for rows in calls:
        group = []
        for r in rows:
            acts = make_actions(spec["kind"], r["n"], r["v"], spec["klen"])
            group.append({"context": make_context(spec["ctx"], r["rid"]), "actions": acts, "rewards": _Reward(r["rid"], acts)})
            if spec["ctx"] == "absent": del group[-1]["context"]
            script.append((r, acts))
        inter.extend(Batch(len(rows)).filter(group) if batched else group)
    sub = dict(spec); sub["calls"] = calls
    lrn = Scripted(sub)
    _install_contract()
    SafeLearner.predict = SafeLearner._vf_checked_predict
    try:
        try:
            got = list(SequentialCB(record=["action", "probability", "reward"], seed=spec["seed"]).evaluate(_Env(inter), lrn))
        except HarnessError: raise
        except ContractBroken as e:
            return [("e2e:contract:action-not-offered", f"SafeLearner.predict handed the evaluator an action that was not offered: {str(e)[:300]}")]
        except Exception as e:
            return [(f"e2e:raise:{type(e).__name__}", f"SequentialCB.evaluate raised {type(e).__name__}: {e}; learner answered {lrn.first_pred!r}")]
    finally:
        SafeLearner.predict = SafeLearner._vf_plain_predict
    if len(got) != len(script):
        return [("e2e:rows", f"{len(script)} interactions, {len(got)} result rows")]
    if fmt in ("pmf", "h_pmf") and any(sum(1 for x in make_pmf(spec["pmf"], r["w"]) if x > 0) > 1 for r, _ in script):
        # PMF draws are a function of the evaluator's seed: a second evaluation with the same seed records the same actions
        import time as _t
        note("e2e.pmf.same-seed")
        _t.sleep(.002)
        again = list(SequentialCB(record=["action", "probability", "reward"], seed=spec["seed"]).evaluate(_Env(inter), Scripted(sub)))
        if canon([g.get("action") for g in again]) != canon([g.get("action") for g in got]):
            return [("e2e:pmf-not-reproducible-from-evaluator-seed" + ("/seed=0" if spec["seed"] == 0 else ""),
                     f"SequentialCB(seed={spec['seed']}) recorded {[g.get('action') for g in got]!r} and then {[g.get('action') for g in again]!r}")]
    for i, (g, (r, acts)) in enumerate(zip(got, script)):
        note("e2e.rows")
        if spec["ctx"] == "absent" and batched: note("e2e.rows.no-context-key.batched")
        j = _index_of(g.get("action"), acts)
        if j is None:
            return [("e2e:action-not-offered", f"row {i}: recorded action {g.get('action')!r}, offered {acts!r}")]
        if g.get("reward") != r["rid"] * 100 + j:
            return [("e2e:reward-of-other-row", f"row {i}: recorded reward {g.get('reward')!r} is not the reward of {g.get('action')!r} in row {r['rid']}")]
        if fmt in ("pmf", "h_pmf"):
            pmf = make_pmf(spec["pmf"], r["w"])
            if not pmf[j] > 0 or g.get("probability") != pmf[j]:
                return [("e2e:pmf-prob-mismatch", f"row {i}: recorded {g.get('action')!r} with probability {g.get('probability')!r}, pmf {pmf!r}")]
        else:
            if j != r["idx"]:
                return [("e2e:wrong-action", f"row {i}: learner named {acts[r['idx']]!r}, recorded {g.get('action')!r}")]
            if fmt in ("action_prob", "h_action_prob") and g.get("probability") != r["p"]:
                return [("e2e:wrong-prob", f"row {i}: learner stated {r['p']!r}, recorded {g.get('probability')!r}")]
    want_kw = [(s[0]["kw"] or {}) for s in script]
    got_kw = []
    for (bt, c, a, w, p, kw) in lrn.learned:
        if bt: got_kw.extend({k: kw[k][i] for k in kw} for i in range(len(w)))
        else:  got_kw.append(kw)
    if canon(got_kw) != canon(want_kw):
        return [("e2e:learn-kwargs-changed", f"predict returned kwargs {want_kw!r}, learn received {got_kw!r}")]
    return []

# ------------------------------------------------------------------------------------------ signatures
NEUTRAL = [("edge", None), ("ragged", False), ("same", False), ("kind", "str1"), ("klen", 2), ("ctx", "int"), ("pmf", "float"), ("cont", "list"), ("more", False), ("bonly", False), ("fb", "raise"),
           ("kw", "none"), ("kwc", "dict"), ("pay", "scalar"), ("n", 3), ("b", 2)]

def _first(spec, e2e):
    try:
        r = (_evaluate_e2e if e2e else _evaluate)(spec, lambda *_: None)
    except HarnessError as e:
        return [("harness-error", str(e))]
    return r or []

def signature(spec, mode, e2e=False):
    """mechanism-level signature: batching/format + those features of the case that cannot be replaced by a neutral value
    without the violation (same failure mode) disappearing"""
    cur = {k: v for k, v in spec.items() if k not in ("calls", "seed")}
    def still(trial):
        try: r = _first(gen_case(trial), e2e)
        except Exception: r = []
        return bool(r) and r[0][0] == mode
    def refilled(trial):
        """the neutralised case, or a refill of it (other scripted indices / weights / shapes), that still fails the same way:
        a feature is only named when the violation does not come back without it"""
        for df in range(12):
            t = dict(trial); t["fill"] = trial["fill"] + df
            if still(t): return t
        return None
    if cur.get("ctx") == "absent" and cur["batching"] != "not":
        # one mechanism whatever the format / action kind / sizes: the context of a batched call is not a batch.  It is named
        # as such when the very same case holds with the same Nones handed over as a batch of contexts
        trial = dict(cur); trial["ctx"] = "none"
        try: holds = not _first(gen_case(trial), e2e)
        except Exception: holds = False
        if holds:
            return f"{cur['batching']}/context=absent-beside-batched-actions/mode={mode}"
    for _pass in range(3):          # a feature can become replaceable once a later one has been (one action -> three actions)
        before = dict(cur)
        for key, neutral in NEUTRAL:
            if cur.get(key, neutral) == neutral or (key == "b" and cur["batching"] == "not"): continue
            if key == "kwc" and cur["kw"] == "none": cur["kwc"] = "dict"; continue
            trial = dict(cur); trial[key] = neutral
            t = refilled(trial)
            if t: cur = t
            elif key == "kw" and cur["kw"] == "empty":          # kwargs matter: is it their emptiness or their presence?
                trial = dict(cur); trial["kw"] = "payload"; trial["pay"] = "scalar"
                t = refilled(trial)
                if t: cur = t
        if cur == before: break
    if cur["kw"] != "none" and cur.get("kwc", "dict") != "dict":
        # the kind of Mapping the kwargs come in is what matters: one mechanism, whose failure mode varies with the other
        # features.  Those are neutralised as long as the case keeps failing *because of* the Mapping kind (it does not fail
        # with a plain dict) and the failure mode named is that of the neutralised case
        def first_mode(trial):
            try: r = _first(gen_case(trial), e2e)
            except Exception: r = []
            return r[0][0] if r else None
        def by_mapping_kind(trial):
            plain = dict(trial); plain["kwc"] = "dict"
            return first_mode(trial) is not None and first_mode(plain) is None
        if by_mapping_kind(cur):
            for _ in range(3):
                before = dict(cur)
                for key, neutral in NEUTRAL:
                    if key in ("kw", "kwc") or cur.get(key, neutral) == neutral or (key == "b" and cur["batching"] == "not"): continue
                    trial = dict(cur); trial[key] = neutral
                    if by_mapping_kind(trial): cur = trial
                if cur["kw"] == "empty":
                    trial = dict(cur); trial["kw"] = "payload"; trial["pay"] = "scalar"
                    if by_mapping_kind(trial): cur = trial
                if cur == before: break
            mode = first_mode(cur) or mode
    kwas = None
    if cur["kw"] != "none" and cur.get("kwc", "dict") != "dict":
        # is it this very Mapping type, or any Mapping that is not a dict (subclass)?
        kwas = {"odict": "dict-subclass", "proxy": "MappingProxyType", "userdict": "UserDict"}[cur["kwc"]]
        if cur["kwc"] in ("proxy", "userdict"):
            trial = dict(cur); trial["kwc"] = "userdict" if cur["kwc"] == "proxy" else "proxy"
            if still(trial): kwas = "non-dict-mapping"
    feats = []
    if cur["kind"] != "str1":   feats.append(f"actions={cur['kind']}")
    if cur["kind"] in ("list", "strn") and cur["klen"] != 2: feats.append(f"seq-len={cur['klen']}")
    if cur["kind"] == "strsub" and cur["klen"] != 2: feats.append(f"alphabet={cur['klen']}")
    if cur["ctx"] != "int":     feats.append(f"context={cur['ctx']}")
    if cur["fmt"] in ("pmf", "h_pmf") and cur["pmf"] != "float": feats.append(f"pmf={cur['pmf']}")
    if cur.get("edge") and cur["fmt"] in ("pmf", "h_pmf"):
        feats.append("uniform-draw=" + {"zero": "0.0", "max": "largest-below-1"}.get(cur["edge"], "dyadic-tie"))
    if cur["cont"] != "list":   feats.append("tuple-containers")
    if cur["more"]:             feats.append("later-call")
    if cur.get("bonly"):        feats.append("batch-only-learner")
    if cur.get("ragged"):       feats.append("ragged-rows")
    if cur.get("same"):         feats.append("same-actions-every-row")
    if cur["batching"] == "fallback" and cur["fb"] != "raise": feats.append(f"on-batch={cur['fb']}")
    if cur["kw"] == "empty":    feats.append("kwargs=empty")
    elif cur["kw"] == "payload": feats.append("kwargs" + ("" if cur["pay"] == "scalar" else f"={cur['pay']}"))
    if kwas:                    feats.append(f"kwargs-as={kwas}")
    if cur["n"] != 3:           feats.append("one-action" if cur["n"] == 1 else f"n-actions={cur['n']}")
    if cur["batching"] != "not" and cur["b"] != 2: feats.append(f"batch-size={cur['b']}")
    return f"{cur['batching']}/{cur['fmt']}" + "".join("/" + f for f in feats) + f"/mode={mode}"

def case_key(spec):
    return (spec["fmt"], spec["kw"], spec.get("kwc", "dict") if spec["kw"] != "none" else "-", spec["batching"], spec["kind"], spec["n"], spec["b"], spec["ctx"],
            spec["pmf"] if "pmf" in spec["fmt"] else "-", spec["pay"] if spec["kw"] == "payload" else "-", spec["cont"],
            spec["fb"] if spec["batching"] == "fallback" else "-", spec["klen"] if spec["kind"] in ("list", "strn", "strsub") else "-", spec.get("edge") or "-", spec["more"], spec.get("bonly", False), spec.get("ragged", False), spec.get("same", False))

def check_case(spec, ctx=None, freq=None, e2e=None):
    """returns [(sig, what)]"""
    note = (lambda name: ctx.count(name)) if ctx else (lambda name: None)
    out = []
    try:
        r = _evaluate(spec, note, freq)
    except HarnessError as e:
        return [("harness-error", f"{e}")]
    if ctx: ctx.case(case_key(spec), nontrivial=(r is not None and not (spec["batching"] == "not" and spec["n"] == 1)))
    if r:
        mode, what = r[0]
        out.append((signature(spec, mode), what))
    if e2e is None: e2e = True
    if e2e:
        try:
            r2 = _evaluate_e2e(spec, note)
        except HarnessError as e:
            return out + [("harness-error", f"e2e: {e}")]
        if r2 and not r:        # the unit-level oracle already explains a failing case
            mode, what = r2[0]
            out.append((signature(spec, mode, e2e=True), what))
        elif r2: note("e2e.confirms-unit-violation")
    return out

# ------------------------------------------------------------------------------------------ entry points
def run_shard(ctx):
    cells = grid()
    mine = [c for i, c in enumerate(cells) if i % ctx.nshards == ctx.shard]
    freq = [0, 0.0, 0.0, 0]
    done = 0
    rep = 0
    while done < ctx.n and ctx.time_left() > 0:
        for cell in mine:
            if done >= ctx.n or ctx.time_left() <= 0: break
            params = fill_params(cell, ctx.rng)
            if rep == 0:
                # the first pass over the grid pins the fillings that matter most for the layout logic
                params["more"] = True
            spec = gen_case(params)
            ctx.count("grid.cells" if rep == 0 else "grid.refills")
            ctx.count("batching." + cell[2])
            if cell[2] != "not" and cell[4] == cell[5]: ctx.count("grid.square")
            if cell[1] != "none": ctx.count("kwargs.as." + cell[6])
            if spec.get("bonly"): ctx.count("learner.batch-only")
            v = check_case(spec, ctx, freq, e2e=(rep % 2 == 0))
            if done < 2: ctx.sample({k: spec.get(k) for k in ("fmt", "kw", "kwc", "batching", "kind", "n", "b", "ctx", "pmf", "cont", "pay", "edge")} | {"first_call": spec["calls"][0]})
            for sig, what in v:
                ctx.violation(sig, what, spec)
            done += 1
        rep += 1
    ctx.count("cases", done)
    for k, n in _CNT.items(): ctx.count(k, n)
    ctx.extra["grid_cells_total"] = len(cells)
    ctx.extra["_freq"] = freq
    if rep == 0 or (rep == 1 and done < len(mine)): ctx.note_inconclusive(f"grid not covered once: {done}/{len(mine)} cells of shard {ctx.shard}")

def finalize(merged, tier, seed):
    """pooled draw frequencies: over all PMF draws the first action must come up about as often as the PMFs say"""
    x = e = var = n = 0
    for f in merged["extra"].get("_freq", []):
        x += f[0]; e += f[1]; var += f[2]; n += f[3]
    if n >= 500:
        merged["counters"]["oracle.pmf.frequency"] += n
        if abs(x - e) > 6 * (var ** .5) + 1:
            merged["viol_counts"]["pmf/draw-frequency/mode=not-distributed-as-pmf"] += 1
            merged["violations"].append({"sig": "pmf/draw-frequency/mode=not-distributed-as-pmf",
                                         "what": f"over {n} draws the first action was drawn {x} times, the PMFs say {e:.1f} +- {var**.5:.1f}", "witness": None})
    merged["extra"]["pmf_draws_first_action"] = [{"draws": n, "first_action_drawn": x, "expected": round(e, 1), "sd": round(var ** .5, 1)}]

def replay(witness):
    if witness is None: return []
    return check_case(witness)
