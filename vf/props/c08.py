"""C08 -- Multi-process filtering delivers every output exactly once and never hangs.

Every case runs the real coba Multiprocessor / CobaMultiprocessor (real spawn-ed workers) in its own
subprocess (vf.c08_case) under seeded delay / yield injection; the history (loaded uids, processed (uid,pid)
records from the workers' O_APPEND side file, received outputs, worker lineage callbacks) is checked offline:
exactly-once, pid quota, exception contract, clean abandonment, and -- when the in-case watchdog fires --
whether a logical deadlock state was reached.
"""
import os, sys, json, time, subprocess, tempfile, shutil, hashlib
from collections import Counter

ID    = "C08"
LEVEL = "exploration"
RULE  = ("one case = one real Multiprocessor.filter call in a fresh process: (n_processes, maxtasksperchild, item count class, "
         "outputs-per-item pattern, raising subset, abandonment point, via plain/CobaMultiprocessor, perturbation profile+seed); "
         "distinct & non-trivial = distinct such tuple with >= 2 items and a multi-process path; distinct interleavings are "
         "counted separately as hashes of (worker-callback order, restart order, output arrival order)")
PLAN  = {"quick":    {"shards": 8, "parallel": 5, "cases": 120,  "timeout": 900},
         "thorough": {"shards": 8, "parallel": 5, "cases": 3000, "timeout": 6000}}
REQUIRED = ["oracle.exactly-once", "oracle.pid-quota", "oracle.exception-contract", "oracle.abandon", "observed.restarts",
            "observed.multi-worker-runs", "perturb.line-events", "oracle.reuse-same-object", "oracle.reuse-same-object-after-abandon", "oracle.none-outputs", "oracle.exception-hard-to-transport", "oracle.big-outputs-slow-consumer"]
ASSUMPTIONS = ["resource exhaustion over hundreds of worker replacements (descriptors kept per finished worker until RLIMIT_NOFILE is reached) is not explored: the deadlock inspector of the case process keeps every started worker object alive itself, so a low descriptor limit makes the harness run out of descriptors on the unchanged code too",
               "items and outputs can be pickled (an output that cannot travel between processes is outside the quantifier); None is a legal item and a legal output",
               "CobaMultiprocessor deliberately turns the RuntimeError family into coba_exit (spawn bootstrapping guard): through it such an exception may reach the caller as CobaExit carrying the message", "order of outputs is not asserted (multiset)",
               "a hang is a violation only when the logical deadlock state is established (all workers dead, loader and callback "
               "threads finished, consumer blocked in queue.get); any other watchdog firing is inconclusive",
               "INSTRUCTION-level yields inside the two completion closures emulate the pre-3.10 evaluation loop (coba declares "
               "python>=3.8) where a thread switch may occur between any two bytecodes"]

PERTURB = [{"kind": "none"}, {"kind": "line", "p_line": .25, "max_ms": 3}, {"kind": "line", "p_line": .6, "max_ms": 1},
           {"kind": "instr", "p_line": .2, "p_instr": .15, "max_ms": 2}, {"kind": "instr", "p_line": .05, "p_instr": .4, "max_ms": 1}]

def gen_case(rng, idx=0):
    n = rng.choice([1, 2, 2, 3, 3, 4, 5, 6])
    m = rng.choice([0, 0, 1, 2, 3, 5])
    if n == 1 and m == 0 and rng.random() < .7: m = rng.choice([1, 2])          # mostly the multi-process path
    base = rng.choice(["0", "1", "n-1", "n", "n+1", "km", "km+1", "km-1", "4n+1", "many"])
    k = rng.randint(1, 4)
    items = {"0": 0, "1": 1, "n-1": n-1, "n": n, "n+1": n+1, "km": k*max(m, 1), "km+1": k*max(m, 1)+1, "km-1": max(k*max(m, 1)-1, 0),
             "4n+1": 4*n+1, "many": rng.randint(10, 30)}[base]
    via = rng.choice(["plain", "plain", "coba"])
    mode = "gen" if via == "coba" else rng.choice(["gen", "gen", "value"])
    pat = rng.choice(["one", "zero-some", "multi", "mixed"])
    kmap = {}
    for uid in range(items):
        kmap[uid] = {"one": 1, "zero-some": rng.choice([0, 1]), "multi": 3, "mixed": rng.choice([0, 1, 3])}[pat]
    rkind = rng.choice(["none", "none", "none", "first", "last", "every", "all", "all", "random"])
    if rkind == "all" and rng.random() < .6: items = max(items, 4 * n + 3)      # every worker fails while the loader still holds items
    for uid in range(items): kmap.setdefault(uid, 1)
    if items == 0: rkind = "none"
    raising = {"none": [], "first": [0], "last": [items-1], "every": list(range(0, items, max(m, 2))), "all": list(range(items)),
               "random": [u for u in range(items) if rng.random() < .3]}[rkind]
    abandon = None
    if rkind == "none" and rng.random() < .25:
        total = sum(kmap.values()) if mode == "gen" else items
        abandon = rng.choice([0, 1, max(total // 2, 1)])
    perturb = rng.choice(PERTURB)
    wj, lj, cj = rng.choice([0, 0, 5, 20]), rng.choice([0, 0, 5, 15]), rng.choice([0, 0, 5])
    if rng.random() < .2 and rkind == "none" and abandon is None:
        # "finish-together" burst: many workers, no jitter, dense bytecode-level yields in the completion callbacks
        n = max(n, rng.choice([4, 5, 6])); wj = lj = cj = 0
        perturb = {"kind": "instr", "p_line": .1, "p_instr": .5, "max_ms": 4, "burst": True}
    tail = 0
    if m > 0 and rng.random() < .65:
        # slow source + slow process launch: the loader may finish while a retired worker is being replaced
        tail = rng.choice([50, 100, 150, 250]); perturb = dict(perturb, slow_start=True) if perturb["kind"] != "none" else {"kind": "line", "p_line": .5, "max_ms": 30, "slow_start": True}
        items = max(items, 2); wj = rng.choice([0, 0, 5])
        for uid in range(items): kmap.setdefault(uid, 1)
    fdr = False
    if m in (1, 2, 3) and rkind == "none" and abandon is None and rng.random() < .3:
        fdr = True; n = min(n, 3); items = n * (m - 1) + 2 + rng.choice([0, 1, 2]); tail = 0; lj = 0
        kmap = {u: kmap.get(u, 1) for u in range(items)}
    reuse = rng.choice([2, 3, 5, 7]) if (abandon is None and rng.random() < .35) else 0
    raa = 0
    if abandon is not None and abandon > 0 and rng.random() < .6:
        # the abandoned call leaves workers that are busy with an item (slow items); the same object is then used again at once
        raa = rng.choice([3, 5, 8]); wj = rng.choice([150, 300]); n = max(n, 2); items = max(items, 2 * n + 2)
        for uid in range(items): kmap.setdefault(uid, 1)
    none_items = [rng.choice([0, 0, items // 2, items - 1])] if (items > 0 and rng.random() < .2) else []     # one item is None
    none_outputs = sorted({rng.randrange(items) for _ in range(rng.choice([1, 1, 2]))} - set(raising)) if (items > 0 and abandon is None and rng.random() < .2) else []   # outputs that are None
    return {"reuse_after_abandon": raa, "none_outputs": none_outputs, "none_items": none_items, "reuse": reuse, "finish_during_replacement": fdr, "tail_delay_ms": tail, "n": n, "m": m, "n_items": items, "items_class": base, "via": via, "mode": mode, "pattern": pat, "kmap": kmap,
            "raising_kind": rkind, "raising": raising, "abandon": abandon, "perturb": perturb, "perturb_seed": rng.randrange(1 << 30),
            "worker_jitter_ms": wj, "loader_jitter_ms": lj, "consumer_jitter_ms": cj, "watchdog_s": 45, "exc_type": rng.choice(["ValueError", "KeyError", "InjectedFailure", "AssertionError", "EOFError", "TypeError", "RuntimeError", "NotImplementedError", "RecursionError", "OSError", "LookupError", "BigValueError", "TwoArgError"])}   # (StopIteration is excluded: Python itself turns it into RuntimeError inside generators, PEP 479)

def run_case(spec, workdir):
    side = os.path.join(workdir, "side.log")
    for f in (side, side + ".fresh"):
        if os.path.exists(f): os.remove(f)
    spec = dict(spec, side=side)
    sp, op = os.path.join(workdir, "spec.json"), os.path.join(workdir, "out.json")
    if os.path.exists(op): os.remove(op)
    with open(sp, "w") as f: json.dump(spec, f)
    t0 = time.time()
    errp = os.path.join(workdir, "stderr.txt")
    with open(errp, "w") as ef:
        # own session: on an outer timeout the whole group (case process + its spawn-ed workers) is killed
        proc = subprocess.Popen([sys.executable, "-W", "ignore", "-m", "vf.c08_case", sp, op], stdout=ef, stderr=ef,
                                stdin=subprocess.DEVNULL, start_new_session=True)
        try:
            proc.wait(timeout=spec["watchdog_s"] + 45)
        except subprocess.TimeoutExpired:
            try: os.killpg(proc.pid, 9)
            except Exception: pass
            proc.wait()
            return {"status": "outer-timeout"}, [], time.time() - t0
        finally:
            try: os.killpg(proc.pid, 9)       # stragglers of the group (orphaned workers)
            except Exception: pass
    err = open(errp).read()[-1500:]
    if not os.path.exists(op):
        return {"status": "no-output", "stderr": err}, [], time.time() - t0
    res = json.load(open(op))
    processed = []
    if os.path.exists(side):
        for line in open(side):
            a = line.split()
            if len(a) == 3 and a[0] == "P": processed.append((int(a[1]), int(a[2])))
    return res, processed, time.time() - t0

def judge(spec, res, processed):
    """offline history checker.  returns (violations[(sig, what)], inconclusive reason or None, observations dict)"""
    v, obs = [], {}
    n, m = spec["n"], spec["m"]
    multi = not (n == 1 and m == 0)
    feat = f"via={spec['via']}/mode={spec['mode']}/{'multi' if multi else 'inproc'}/m={'0' if m == 0 else 'pos'}"
    st = res.get("status")
    if st == "deadlock":
        w = res["watchdog"]
        shape = w.get("shape", "all-workers-dead")
        v.append((f"hang/deadlock-state/{shape}/phase={w['phase']}/{feat}", f"{shape}: loader finished, consumer blocked in queue.get, no transition enabled; "
                  f"_n_procs={w['n_procs']} got={w['n_got']} workers={w['workers']} live_idle={w.get('live_workers_idle')} queues_empty={w.get('queues_empty')}"))
        return v, None, obs
    if st in ("watchdog-inconclusive", "outer-timeout", "no-output", "harness-error", "started"):
        return v, f"case-{st}: {json.dumps(res.get('watchdog') or res.get('error') or res.get('stderr') or '')[:3000]}", obs
    got = [tuple(g) for g in res["got"]]
    kmap = {int(k): c for k, c in spec["kmap"].items()}
    expected = Counter()
    for uid in range(spec["n_items"]):
        if uid in spec["raising"]: continue
        if uid in (spec.get("none_outputs") or []):
            expected[("None", -1)] += 1
            if spec["mode"] == "value": continue
        for j in range(1 if spec["mode"] == "value" else kmap[uid]): expected[(uid, j)] += 1
    if spec.get("none_outputs"): obs["none_outputs"] = 1
    gotc = Counter((g[0], g[1]) for g in got)
    proc_by_pid = {}
    for uid, pid in processed: proc_by_pid.setdefault(pid, []).append(uid)
    obs["pids"] = len(proc_by_pid)
    obs["restarts"] = max(0, sum(1 for e in res["events"] if e[0] == "start") - n) if multi else 0
    # ---- nothing bogus, nothing duplicated (holds in every scenario)
    dup = {k: c for k, c in gotc.items() if c > max(1, expected.get(k, 0))}      # (several items may each have the output None)
    if dup: v.append((f"duplicated-output/{feat}", f"outputs received more than once: {sorted(dup)[:5]}"))
    bogus = [k for k in gotc if k not in expected]
    if bogus: v.append((f"unexpected-output/{feat}", f"outputs that the wrapped filter never produces: {bogus[:5]}"))
    pc = Counter(u for u, _ in processed)
    twice = [u for u, c in pc.items() if c > 1]
    if twice: v.append((f"item-processed-twice/{feat}", f"items handed to the filter more than once: {twice[:5]}"))
    # ---- pid quota
    if m > 0 and multi:
        over = {pid: len(us) for pid, us in proc_by_pid.items() if len(us) > m}
        if over: v.append((f"pid-quota-exceeded/{feat}", f"maxtasksperchild={m} but worker pids handled {over}"))
    # ---- scenario specific
    if spec["raising"]:
        r = res.get("raised")
        ok_msgs = {f"boom-{u}" for u in spec["raising"]}
        ok_type = spec.get("exc_type", "ValueError")
        if r is None:
            v.append((f"exception-swallowed/{feat}", f"filter raises for items {spec['raising'][:5]} but the call returned normally with {len(got)} outputs"))
        elif ok_type == "BigValueError":
            if r["type"] != "ValueError" or not any(r["msg"].startswith(m + "|") for m in ok_msgs):
                v.append((f"wrong-exception/{feat}", f"expected ValueError(boom-<uid>|xxx...) got {str(r)[:200]}"))
        elif ok_type == "TwoArgError":
            # it cannot be rebuilt in the parent: either the class itself or an error carrying its type and message reaches the caller
            if not any(m in r["msg"] for m in ok_msgs):
                v.append((f"wrong-exception/{feat}", f"expected an error carrying TwoArgError boom-<uid> got {str(r)[:200]}"))
        elif spec["via"] == "coba" and ok_type in ("RuntimeError", "NotImplementedError", "RecursionError"):
            # CobaMultiprocessor turns the RuntimeError family into coba_exit(message): either form reaches the caller
            if r["type"] not in (ok_type, "CobaExit") or not any(m in r["msg"] for m in ok_msgs):
                v.append((f"wrong-exception/{feat}", f"expected {ok_type}(boom-<uid>) or CobaExit(boom-<uid>) got {r}"))
        elif r["type"] != ok_type or r["msg"].strip("'\"") not in ok_msgs:
            v.append((f"wrong-exception/{feat}", f"expected {ok_type}(boom-<uid>) got {r}"))
    elif spec["abandon"] is not None:
        if not res.get("closed"): v.append((f"abandon/close-did-not-return/{feat}", "close() did not return"))
        if res.get("raised"): v.append((f"abandon/raised/{feat}", f"abandoning raised {res['raised']}"))
        if res.get("fresh") != [[0, 0], [1, 0], [1, 1]]: v.append((f"abandon/fresh-call-broken/{feat}", f"a fresh Multiprocessor call afterwards returned {res.get('fresh')}"))
    else:
        if res.get("raised"):
            v.append((f"unexpected-exception/{feat}", f"no item raises but the call raised {res['raised']}"))
        elif gotc != expected:
            lost = sorted((expected - gotc).elements())
            v.append((f"lost-output/{feat}", f"{len(lost)} outputs never delivered, e.g. {lost[:5]}; loaded={sum(1 for e in res['events'] if e[0]=='loaded')} processed={len(pc)}"))
    n2 = spec.get("reuse") if spec["abandon"] is None else spec.get("reuse_after_abandon")
    if n2:
        obs["reuse" if spec["abandon"] is None else "reuse_after_abandon"] = 1
        want2 = Counter((1000 + i, 0) for i in range(n2))
        got2 = Counter((g[0], g[1]) for g in res.get("got2", []))
        if res.get("raised2"):
            v.append((f"reuse/second-call-raised/first-call-{'abandoned' if spec['abandon'] is not None else 'raised' if spec['raising'] else 'ok'}/{feat}", f"a second call on the same object with a healthy stream raised {res['raised2']}"))
        elif got2 != want2:
            v.append((f"reuse/second-call-wrong-outputs/first-call-{'abandoned' if spec['abandon'] is not None else 'raised' if spec['raising'] else 'ok'}/{feat}", f"second call delivered {sorted(got2.elements())} expected {sorted(want2.elements())}"))
    return v, None, obs

def trace_hash(res):
    ev = [(e[0], e[1]) for e in res.get("events", []) if e[0] in ("start", "cb-enter")]
    order = [g[0] for g in res.get("got", [])]
    return hashlib.blake2b(repr((ev, order)).encode(), digest_size=8).hexdigest()

def check_case(spec, ctx=None, workdir=None):
    own = workdir is None
    if own: workdir = tempfile.mkdtemp(prefix="vf-c08-")
    try:
        res, processed, wall = run_case(spec, workdir)
        v, inc, obs = judge(spec, res, processed)
        if inc and ctx is not None:            # one retry: a watchdog without a deadlock state decides nothing
            res, processed, wall = run_case(spec, workdir)
            v, inc, obs = judge(spec, res, processed)
        if ctx is not None:
            multi = not (spec["n"] == 1 and spec["m"] == 0)
            ctx.case((spec["n"], spec["m"], spec["items_class"], spec["pattern"], spec["raising_kind"], spec["abandon"] is not None and min(spec["abandon"], 2),
                      spec["via"], spec["mode"], spec["perturb"]["kind"]), nontrivial=multi and spec["n_items"] >= 2)
            if inc: ctx.note_inconclusive(inc)
            else:
                ctx.count("oracle.exactly-once")
                if spec["m"] > 0: ctx.count("oracle.pid-quota")
                if spec["raising"]: ctx.count("oracle.exception-contract")
                if spec["abandon"] is not None: ctx.count("oracle.abandon")
                if obs.get("reuse"): ctx.count("oracle.reuse-same-object")
                if obs.get("reuse_after_abandon"): ctx.count("oracle.reuse-same-object-after-abandon")
                if obs.get("none_outputs"): ctx.count("oracle.none-outputs")
                if spec["raising"] and spec.get("exc_type") in ("BigValueError", "TwoArgError") and multi: ctx.count("oracle.exception-hard-to-transport")
                if obs.get("restarts", 0) > 0: ctx.count("observed.restarts", obs["restarts"])
                if obs.get("pids", 0) > 1: ctx.count("observed.multi-worker-runs")
                st = res.get("stats", {})
                ctx.count("perturb.line-events", st.get("line_events", 0)); ctx.count("perturb.line-sleeps", st.get("line_sleeps", 0))
                ctx.count("perturb.instr-events", st.get("instr_events", 0)); ctx.count("perturb.instr-sleeps", st.get("instr_sleeps", 0))
                ctx.count("events.recorded", len(res.get("events", [])) + len(processed) + len(res.get("got", [])))
                ctx.extra.setdefault("_traces", set()).add(trace_hash(res))
        return v
    finally:
        if own: shutil.rmtree(workdir, ignore_errors=True)

def run_shard(ctx):
    workdir = tempfile.mkdtemp(prefix=f"vf-c08-{ctx.shard}-")
    try:
        for i in range(ctx.n):
            spec = gen_case(ctx.rng, i)
            if i == 1 and ctx.shard == 3:
                # outputs much larger than a pipe buffer and a caller that does not read for a while: workers that are done with their
                # items stay alive flushing their outputs; every output must still arrive exactly once
                spec.update(n=2, m=ctx.rng.choice([0, 1, 2]), n_items=6, kmap={str(u): 1 for u in range(6)}, raising=[], raising_kind="none", abandon=None,
                            perturb={"kind": "none"}, worker_jitter_ms=0, loader_jitter_ms=0, consumer_jitter_ms=0, none_items=[], none_outputs=[], reuse=0,
                            reuse_after_abandon=0, finish_during_replacement=False, tail_delay_ms=0, mode="gen", via="plain", pattern="big-outputs-slow-consumer",
                            big_out_kb=2000, consumer_pause_s=7.0, watchdog_s=70)
                ctx.count("oracle.big-outputs-slow-consumer")
            v = check_case(spec, ctx, workdir)
            if i < 1: ctx.sample({k: spec[k] for k in ("n", "m", "n_items", "via", "mode", "pattern", "raising", "abandon", "perturb")})
            for sig, what in v: ctx.violation(sig, what, spec)
    finally:
        shutil.rmtree(workdir, ignore_errors=True)
    ctx.extra["distinct_interleaving_traces"] = sorted(ctx.extra.pop("_traces", set()))

def finalize(merged, tier, seed):
    tr = set()
    for lst in merged["extra"].pop("distinct_interleaving_traces", []): tr.update(lst)
    merged["extra"]["distinct_interleaving_traces"] = len(tr)

def replay(witness):
    return check_case(witness)
