"""C05 -- CobaRandom: random streams are a pure, contract-respecting function of the seed.

Monitors (all on the real coba.random code):
 (a) icontract postconditions bound onto the real CobaRandom methods (vf/lcg_c05.py): range, permutation,
     member-with-non-zero-weight, member's-own-weight, finite-float;
 (b) metamorphic purity replay: a generated call script is run on a fresh instance alone (-> R) and then on fresh
     equal-seed instances (built by constructor / pickle / copy) while equal-seed instances, other instances, the
     coba.random module functions and Python's random are driven in between; in lock step with an equal-seed twin;
     through the module functions after coba.random.seed(seed); and in a child process started with a different
     PYTHONHASHSEED.  Every result list must equal R; so must the run in which the mutable arguments (sequences, weights,
     shuffle inputs) are NOT fresh objects but long-lived buffers the caller updates in place between the calls: the
     values are a function of the seed and the argument VALUES of the call sequence, not of object identity/history;
 (c) adversarial seeds: the LCG s <- (116646453 s + 9) mod 2^30 is inverted so that a chosen state (uniform 0.0, the
     largest uniform, the smallest positive one, cumulative-weight / floor thresholds) lands on a chosen draw of a chosen
     call after an arbitrary prefix; the LCG state read from the generator frame confirms the target was reached;
 (d) thorough tier: full-period sweep -- 16 shards x 2^26 consecutive states through the real randoms()/gausses()
     (both Box-Muller alignments) under the contracts, compared chunk-wise with the LCG model for reach accounting;
     plus coba's own unit tests that draw random numbers, run with the contracts switched on;
 (e) the consumers of the stream in the anchor files (pipes.filters.Shuffle/Reservoir, environments.filters.Reservoir,
     learners.utilities.PMFPredictor/PMFInfoPredictor, SafeLearner's pmf route) run on the real code under the same contracts:
     generated requests plus adversarial seeds that put the extreme states on EVERY draw position of the consumer's stream
     (each draw of the reservoir's initial shuffle, each of the three draws of the first skip-loop triples and of the triples
     around the refill of its batch of uniforms, each round of a predictor); no raise, a sample of distinct input positions /
     an action with non-zero probability and that probability, and the same result when re-run under interference, from
     another container with the same items, from a pickled/deep-copied filter and through the inheriting class.
"""
import os, sys, json, math, time, copy, pickle, base64, random as pyrandom, subprocess, tempfile, shutil, glob
from itertools import accumulate, islice
from fractions import Fraction
from vf import lcg_c05 as L
from vf.lcg_c05 import A, C, M, M1, step, jump, seed_for, state_of, draws_between, ContractBroken

ID    = "C05"
LEVEL = "exploration"
RULE  = ("seeded call scripts over the 9 CobaRandom methods x int/float/str seeds x argument classes (bounds in the "
         "2^20 box incl. its corners, weights with leading/embedded/trailing zeros, lengths 0/1/2/many, sequences with distinct members and with equal members "
         "at several positions incl. 1/1.0/True; weights of int, float and fractions.Fraction type, alone and mixed; pmf-style histories of weighted draws over one action set), each run solo "
         "under the postconditions and replayed under 5 interference families + twin + module route + child process + re-used/in-place-updated argument objects; "
         "adversarial seeds by LCG inversion for every draw position of every method and of every consumer of the stream in the anchor files "
         "(Shuffle/Reservoir filters, PMF predictors, SafeLearner pmf route; also generated requests to them); a case is one method call in the "
         "solo run (or one replay/sweep chunk); distinct & non-trivial = distinct (method, LCG state class of the "
         "uniforms the call consumed, argument class) with at least one uniform consumed")
PLAN  = {"quick":    {"shards": 16, "cases": 32000,  "timeout": 600,  "budget_s": 75},
         "thorough": {"shards": 16, "cases": 320000, "timeout": 6000, "budget_s": 840}}
EXHAUSTIVE = {"thorough": True}      # random() with default bounds: every one of the 2^30 LCG states is observed
REQUIRED = ["contract.random.in_range", "contract.randoms.in_range", "contract.randint.in_range",
            "contract.randints.in_range", "contract.shuffle.permutation", "contract.choice.member",
            "contract.choice.member_nonzero_weight", "contract.choicew.member_and_weight",
            "contract.gauss.finite", "contract.gausses.finite",
            "oracle.purity.plain-rerun", "oracle.purity.noise=equal-seed-instances", "oracle.purity.noise=other-instances",
            "oracle.purity.noise=module-functions", "oracle.purity.noise=python-random", "oracle.purity.noise=mixed",
            "oracle.purity.twin", "oracle.purity.module-route", "oracle.purity.child-process",
            "oracle.purity.child-unpickle", "oracle.purity.reused-argument-objects", "workload.choicew.weighted.equal-members",
            "oracle.purity.route=pickle", "oracle.purity.route=copy", "oracle.purity.route=deepcopy",
            "adversarial.reached.u=0", "adversarial.reached.u=largest", "adversarial.reached.threshold",
            "oracle.attain.randint", "oracle.shuffle.iterator-permutation", "model.calls_following_lcg",
            "contract.weights.fraction", "workload.weighted.fraction-weights",
            "oracle.consumer.reservoir", "oracle.consumer.env-reservoir", "oracle.consumer.shuffle-filter", "oracle.consumer.pmf-predictor",
            "oracle.consumer.pmf-info-predictor", "oracle.consumer.safe-learner-pmf", "oracle.purity.consumer",
            "adversarial.consumer.reached.u=0@shuffle-draw", "adversarial.consumer.reached.u=0@skip-loop-draw-1-of-3",
            "adversarial.consumer.reached.u=0@skip-loop-draw-2-of-3", "adversarial.consumer.reached.u=0@skip-loop-draw-3-of-3",
            "adversarial.consumer.reached.u=largest@skip-loop-draw-1-of-3", "adversarial.consumer.reached.u=0@predict-draw",
            "adversarial.consumer.reached.threshold@predict-draw"]
ASSUMPTIONS = [
    "seed=None is excluded (time-seeded by design); every other int, float (incl. nan/inf) and str seed is in scope",
    "uniform bounds: |min|,|max| <= 2^20 and max-min >= 2^-20; gauss mu/sigma within 2^20; outside that nothing is asserted",
    "weights are non-negative with a positive sum and as long as the sequence (documented precondition); sequences may hold equal "
    "members at several positions (also 1 / 1.0 / True): a returned (item, w) is accepted when SOME position holds a member equal to "
    "item whose weight is w and w > 0 (which of several equal members was drawn is not observable, so nothing more is demanded)",
    "weights are int, float or fractions.Fraction values (an exact rational is an ordinary real argument value that the call accepts; "
    "decimal.Decimal cannot be multiplied with the float uniform by Python itself and is not generated; bool weights are not generated)",
    "consumers of the stream (anchor files): only what the statement entails is asserted -- a legal seed never makes the consumer raise, "
    "equal seed and argument values give the equal result whatever runs in between, a Shuffle/Reservoir result holds members of the input "
    "taken from distinct positions (all of them / min(count, n) of them, none when strict and n < count), a predictor returns an offered action "
    "whose probability is non-zero together with exactly that probability; WHICH sample is drawn is not asserted.  The model of the "
    "reservoir's skip loop is used for reach accounting only (was the aimed triple read), never as an oracle",
    "re-used argument objects: the caller only updates its own lists between calls (never during one); tuples/ranges/numbers are "
    "immutable and are passed as they are",
    "choice/choicew on an empty sequence may raise anything but must not return a value; any other call in the domain must not raise",
    "randint/randints 'in [a,b]' is read with the documented *inclusive* upper bound: on ranges of <= 4 values every value "
    "must be attained within 256 consecutive draws (a correct uniform generator misses one with probability < 1e-30)",
    "the LCG model (constants of the statement) is used only to aim adversarial seeds and to account which states were "
    "observed; if the real generator does not follow it the run is INCONCLUSIVE, not violated",
    "pickle/copy routes are taken from a never-drawn instance, so restart-from-seed and keep-position semantics agree",
]

METHODS = ["random", "randoms", "randint", "randints", "shuffle", "choice", "choicew", "gauss", "gausses"]
B20 = float(2**20); E20 = 2.0**-20
CORNERS = [[B20 - E20, B20], [-B20, -B20 + E20], [-B20, B20], [0, E20], [-E20, 0], [1 - E20, 1], [B20 - 1, B20],
           [-B20, 0], [0, B20], [1024, 1024 + 2.0**-15], [-1, 1], [0.1, 0.3], [0, 10], [-5, 5], [1, 2**20],
           [-1024 - 2.0**-15, -1024], [3.5, 4.5], [0, 1]]

# ========================================================================================== seeds
def seed_spec(x):
    if isinstance(x, bool): raise ValueError
    if isinstance(x, int):   return {"k": "int", "v": str(x)}
    if isinstance(x, float): return {"k": "float", "v": x.hex()}
    return {"k": "str", "v": x}

def seed_value(sd):
    k, v = sd["k"], sd["v"]
    if k == "int":   return int(v)
    if k == "float": return float.fromhex(v)
    return v

def seed_class(x):
    if isinstance(x, int):   return "int-negative" if x < 0 else ("int>=2^30" if x >= M else "int")
    if isinstance(x, float):
        if x != x or abs(x) == math.inf: return "float-nonfinite"
        return "float-integral" if x.is_integer() else "float-fraction"
    return "str-empty" if x == "" else "str"

def seed_kind(x):
    """the coarse seed type used in violation signatures"""
    c = seed_class(x)
    return c if c == "str-empty" else c.split("-")[0].split(">")[0]

STR_SEEDS = ["", "a", "abc", "0", "1", "1.5", "None", " ", "\n", "é", "中文", "seed", "A" * 40, "0.0", "nan", "-1"]
def gen_seed(rng):
    r = rng.random()
    if r < .30: return rng.choice([0, 1, 2, 10, rng.randrange(2**20), rng.randrange(2**30), M1, M - 2])
    if r < .40: return -rng.choice([1, 2, M, rng.randrange(1, 2**40), rng.randrange(1, 2**70)])
    if r < .50: return rng.choice([M, M + 1, 2**64, 2**64 + rng.randrange(M), rng.randrange(M, 2**70)])
    if r < .62: return rng.choice([0.0, -0.0, 1.0, float(rng.randrange(-2**40, 2**53)), 1e300, -1e22, float(rng.randrange(M))])
    if r < .76: return rng.choice([0.5, 1e-300, 2.0**-30, rng.uniform(-1000, 1000), rng.random(), math.nan, math.inf, -math.inf, 1.0000000001])
    if r < .93: return rng.choice(STR_SEEDS)
    return "".join(rng.choice("abcXYZ019 _-.é") for _ in range(rng.randint(1, 12)))

# ========================================================================================== calls
def gen_bounds(rng):
    """None = default arguments; otherwise [min,max] inside the box of the statement"""
    r = rng.random()
    if r < .2: return None
    if r < .55: return list(rng.choice(CORNERS))
    for _ in range(30):
        w  = 2.0 ** rng.uniform(-20, 21)
        lo = rng.choice([rng.uniform(-B20, B20), rng.choice([-1, 1]) * 2.0 ** rng.uniform(-20, 20), 0.0, float(rng.randint(-1000, 1000))])
        hi = lo + w
        if abs(lo) <= B20 and abs(hi) <= B20 and hi - lo >= E20: return [lo, hi]
    return [0, 1]

def gen_int_range(rng):
    r = rng.random()
    if r < .5: return list(rng.choice([[0, 0], [5, 5], [0, 1], [0, 2], [-3, -1], [1, 6], [1, 10], [0, 2**20], [-2**20, 2**20], [0, M1],
                                       [0, M], [-2**31, 2**31], [-1, 0], [0, 9], [-7, 7], [2**40, 2**40 + 3]]))
    a = rng.randint(-2**20, 2**20)
    return [a, a + rng.choice([0, 1, 2, 3, 10, 1000, 2**20, 2**31])]

def gen_members(rng, n):
    kind = rng.choice(["int", "str", "negint"])
    if kind == "int":    return list(range(n)) if rng.random() < .5 else rng.sample(range(1000), n)
    if kind == "negint": return [-(i + 1) for i in range(n)]
    return [f"m{i}" for i in rng.sample(range(100), n)]

MIXED = [1, 1.0, True, 0, 0.0, False, 2, 2.0, -1, -1.0]      # equal values of different types are equal members
def gen_equal_members(rng, n):
    """n >= 2 members of which at least two positions compare equal (the same action offered twice, 1 next to 1.0, ...)"""
    kind = rng.choice(["str", "int", "mixed"])
    pool = ([f"m{i}" for i in rng.sample(range(100), max(1, n // 2))] if kind == "str" else
            rng.sample(range(50), max(1, n // 2)) if kind == "int" else rng.sample(MIXED, min(len(MIXED), max(2, n // 2 + 1))))
    seq = [rng.choice(pool) for _ in range(n)]
    if len(set(seq)) == n:                                   # (only possible for "mixed" with few positions)
        i, j = rng.sample(range(n), 2); seq[j] = seq[i]
    return seq

def dec_w(w):
    """weights as the call gets them: a str 'n/d' in a (JSON-able) spec stands for fractions.Fraction(n, d)"""
    return None if w is None else [Fraction(x) if isinstance(x, str) else x for x in w]
def enc_w(w):
    return [f"{x.numerator}/{x.denominator}" if isinstance(x, Fraction) else x for x in w]
def _has_fraction(w): return w is not None and any(isinstance(x, str) for x in w)

def gen_fraction_weights(rng, n):
    """exact rational weights (a pmf kept as fractions sums to exactly 1), alone or next to int weights; zeros of either type"""
    style = rng.choice(["all-fractions", "all-fractions", "normalised", "with-ints"])
    raw = [rng.choice([0, 0, 1, 2, 3]) for _ in range(n)]
    if sum(raw) == 0: raw[rng.randrange(n)] = 1
    if style == "normalised": w = [Fraction(x, sum(raw)) for x in raw]
    else:
        w = [Fraction(x, rng.choice([1, 2, 3, 4, 7, 10])) for x in raw]
        if style == "with-ints": w = [int(x) if x.denominator == 1 and rng.random() < .7 else x for x in w]
        if not any(isinstance(x, Fraction) for x in w):
            j = rng.randrange(n); w[j] = Fraction(w[j])
    return enc_w(w)

def gen_weights(rng, n):
    if rng.random() < .12: return gen_fraction_weights(rng, n)
    style = rng.choice(["dyadic-zeros", "dyadic-zeros", "ints", "normalised", "floats", "one-hot"])
    if style == "dyadic-zeros": w = [rng.choice([0, 0, 1, 2, 3, 4]) / rng.choice([1, 2, 4, 8]) for _ in range(n)]
    elif style == "ints":       w = [rng.choice([0, 1, 2, 5]) for _ in range(n)]
    elif style == "floats":     w = [0.0 if rng.random() < .3 else rng.random() for _ in range(n)]
    elif style == "one-hot":    w = [0] * n
    else:
        raw = [rng.choice([0, 1, 2, 3, 7]) for _ in range(n)]
        if sum(raw) == 0: raw[rng.randrange(n)] = 1
        w = [x / sum(raw) for x in raw]
    if sum(w) <= 0: w[rng.randrange(n)] = rng.choice([1, 1.0, 0.5])
    return w

def gen_call(rng, small=False):
    m = rng.choice(METHODS)
    ns = [0, 1, 2, 3] if small else [0, 1, 2, 3, 5, 17, 64]
    if m == "random":
        b = gen_bounds(rng); return ["random"] + (b or [])
    if m == "randoms":
        b = gen_bounds(rng); return ["randoms", rng.choice(ns)] + (b or [])
    if m == "randint":  return ["randint"] + gen_int_range(rng)
    if m == "randints": return ["randints", rng.choice(ns)] + gen_int_range(rng)
    if m == "shuffle":
        n = rng.choice([0, 1, 2, 3, 5] if small else [0, 1, 2, 3, 5, 8, 20, 64])
        mode = rng.choice(["list", "inplace", "tuple", "range", "iter"])
        if mode != "range" and n >= 2 and rng.random() < .25: return ["shuffle", gen_equal_members(rng, n), mode]
        return ["shuffle", list(range(n)) if mode == "range" else gen_members(rng, n), mode]
    if m in ("choice", "choicew"):
        n = rng.choice([0, 1, 2, 3, 5] if small else [0, 1, 1, 2, 2, 3, 5, 9, 40])
        cont = rng.choice(["list", "tuple", "range"])
        if n >= 2 and rng.random() < .35:
            cont = rng.choice(["list", "tuple"]); seq = gen_equal_members(rng, n)
        else:
            seq = list(range(n)) if cont == "range" else gen_members(rng, n)
        w = None if (n == 0 or rng.random() < .3) else gen_weights(rng, n)
        return [m, seq, w, cont]
    if m == "gauss":
        return ["gauss"] + list(rng.choice([[], [], [0, 1], [5, 2], [-B20, B20], [0, 0], [1.5, -2], [0, E20]]))
    return ["gausses", rng.choice([0, 1, 2, 3, 4, 7])] + list(rng.choice([[], [0, 1], [5, 2], [-3.5, 0.25]]))

def build_args(call):
    m = call[0]
    if m == "shuffle":
        items, mode = call[1], call[2]
        if mode == "list":    return (list(items),)
        if mode == "inplace": return (list(items), True)
        if mode == "tuple":   return (tuple(items),)
        if mode == "range":   return (range(len(items)),)
        return (iter(list(items)),)
    if m in ("choice", "choicew"):
        seq, w, cont = call[1], call[2], call[3]
        seq = range(len(seq)) if cont == "range" else (tuple(seq) if cont == "tuple" else list(seq))
        return (seq,) if w is None else (seq, dec_w(w))
    return tuple(call[1:])

class ReusedArgs:
    """builds the arguments of each call with the VALUES of the call but out of objects that outlive the call: the caller keeps
    one list per role (weights / sequence / shuffle input) and updates it in place before handing it over again, the way a
    learner keeps its pmf in a pre-allocated buffer.  `per_length`: one buffer per role and length instead of one per role;
    `elementwise`: update by item assignment where the length allows it, else by slice assignment."""
    def __init__(self, per_length=False, elementwise=False):
        self.per_length, self.elementwise = per_length, elementwise
        self.bufs, self.handed, self.reuses = {}, set(), 0
    def _buf(self, role, values):
        key = (role, len(values)) if self.per_length else role
        b = self.bufs.setdefault(key, [])
        if key in self.handed: self.reuses += 1
        self.handed.add(key)
        if self.elementwise and len(b) == len(values):
            for i, v in enumerate(values): b[i] = v
        else: b[:] = values
        return b
    def __call__(self, call):
        m = call[0]
        if m == "shuffle" and call[2] in ("list", "inplace"):
            b = self._buf("items", call[1])
            return (b,) if call[2] == "list" else (b, True)
        if m in ("choice", "choicew"):
            seq, w, cont = call[1], call[2], call[3]
            seq = self._buf("seq", seq) if cont == "list" else build_args(call)[0]
            return (seq,) if w is None else (seq, self._buf("weights", dec_w(w)))
        return build_args(call)

def expects_raise(call):
    return call[0] in ("choice", "choicew") and len(call[1]) == 0

def _nclass(n): return "0" if n == 0 else "1" if n == 1 else "2" if n == 2 else "few" if n <= 8 else "many"
def _bounds_class(b):
    if not b: return "default"
    lo, hi = b
    rel = (hi - lo) / max(abs(lo), abs(hi))
    return "narrow-far-from-zero" if rel < 2.0**-20 else "ordinary"
def _members_class(seq):
    try: distinct = len(set(seq)) == len(seq)
    except TypeError: return "unhashable"
    if distinct: return "distinct"
    return "equal-members" if len(set(map(repr, seq))) == len(set(seq)) else "equal-members-mixed-type"
def _weight_flags(w):
    if w is None: return "unweighted"
    frac = "fraction-" if _has_fraction(w) else ""
    w  = dec_w(w)
    nz = [i for i, x in enumerate(w) if x > 0]
    f = []
    if nz[0] > 0: f.append("leading-zero")
    if any(w[i] == 0 for i in range(nz[0], nz[-1])): f.append("embedded-zero")
    if nz[-1] < len(w) - 1: f.append("trailing-zero")
    return frac + "weights=" + ("+".join(f) if f else "all-positive")

def arg_sig(call):
    """coarse, mechanism-level description of the arguments (for violation signatures)"""
    m = call[0]
    if m == "random":  return "bounds=" + _bounds_class(call[1:])
    if m == "randoms": return "bounds=" + _bounds_class(call[2:])
    if m in ("randint", "randints"):
        a, b = call[-2], call[-1]; n = b - a + 1
        return ("range=1-value" if n == 1 else "range<=16" if n <= 16 else "range<=2^30" if n <= M else "range>2^30") + ("/a=0" if a == 0 and m == "randints" else "")
    if m == "shuffle": return f"mode={call[2]}"
    if m in ("choice", "choicew"):
        return "empty-seq" if not call[1] else (("unweighted" if call[2] is None else "weighted") + ("+fraction-weights" if _has_fraction(call[2]) else "")
                                                + ("" if _members_class(call[1]) == "distinct" or _has_fraction(call[2]) else "+equal-members"))
    return "args=" + ("default" if len(call) == (1 if m == "gauss" else 2) else "given")

def sig_args(call):
    return "" if call[0] in ("gauss", "gausses") else arg_sig(call) + "/"

def arg_class(call):
    """finer argument class used to count distinct non-trivial cases"""
    m = call[0]
    if m == "random":  b = call[1:]; return (_bounds_class(b), _sign(b))
    if m == "randoms": b = call[2:]; return (_nclass(call[1]), _bounds_class(b), _sign(b))
    if m == "randint": return (arg_sig(call), _sign(call[1:]))
    if m == "randints": return (_nclass(call[1]), arg_sig(call), _sign(call[2:]))
    if m == "shuffle": return (_nclass(len(call[1])), call[2], _members_class(call[1]))
    if m in ("choice", "choicew"): return (_nclass(len(call[1])), _weight_flags(call[2]) if call[1] else "empty", call[3], _members_class(call[1]))
    if m == "gauss": return (arg_sig(call),)
    return (_nclass(call[1]), arg_sig(call))
def _sign(b):
    if not b: return "default"
    lo, hi = b
    return "neg" if hi <= 0 else "pos" if lo >= 0 else "straddle"

# ========================================================================================== execution
def do_call(target, call, build=build_args):
    """-> (record, value); record = ['ok', repr] | ['raise', type] | ['contract', tag, mode]"""
    args = build(call)
    try:
        v = getattr(target, call[0])(*args)
    except ContractBroken as e:
        return ["contract", e.tag, L.DETAIL[0]], None
    except Exception as e:
        return ["raise", type(e).__name__, str(e)[:120]], None
    return ["ok", repr(v)], v

def exec_plain(target, script, between=None, build=build_args):
    out = []
    for i, call in enumerate(script):
        if between: between(i)
        out.append(do_call(target, call, build)[0][:2])
    return out

def make_instance(seed, route):
    from coba.random import CobaRandom
    r = CobaRandom(seed)
    if route == "pickle":   return pickle.loads(pickle.dumps(r))
    if route == "deepcopy": return copy.deepcopy(r)
    if route == "copy":     return copy.copy(r)
    return r

def state_class(states):
    if states is None: return "u=unknown"
    if 0 in states:  return "u=0"
    if M1 in states: return "u=largest"
    return "u=other"

def consumed_states(sb, nd):
    out, s = [], sb
    for _ in range(nd):
        s = step(s); out.append(s)
    return out

# ------------------------------------------------------------------------------------------ interference
class Noise:
    """drives other generators between the calls of the script under test"""
    def __init__(self, family, seed, nseed):
        from coba.random import CobaRandom
        self.rng = pyrandom.Random(nseed)
        self.family = family
        other = [self.rng.randrange(2**32), "other", 0.25]
        if isinstance(seed, int): other += [seed + 1, seed + M]       # seed+2^30: different seed, same LCG state
        self.equal  = [CobaRandom(seed) for _ in range(2)]
        self.others = [CobaRandom(s) for s in other]
        self.seed = seed
    def __call__(self, i):
        rng = self.rng
        if rng.random() < .25: return
        for _ in range(rng.randint(1, 3)):
            fam = self.family if self.family != "mixed" else rng.choice(["equal-seed-instances", "other-instances", "module-functions", "python-random"])
            try: self.act(fam)
            except Exception: pass                                       # noise may hit defects of its own; not judged here
    def act(self, fam):
        import coba.random as cr
        rng = self.rng
        if fam == "equal-seed-instances":
            t = rng.choice(self.equal); c = gen_call(rng, small=True); getattr(t, c[0])(*build_args(c))
        elif fam == "other-instances":
            t = rng.choice(self.others); c = gen_call(rng, small=True); getattr(t, c[0])(*build_args(c))
        elif fam == "module-functions":
            if rng.random() < .3: cr.seed(rng.choice([self.seed, rng.randrange(1000), "x"]))
            else:
                c = gen_call(rng, small=True); getattr(cr, c[0])(*build_args(c))
        else:
            k = rng.randrange(6)
            if   k == 0: pyrandom.seed(rng.choice([self.seed if self.seed == self.seed else 0, rng.randrange(1000)]))
            elif k == 1: pyrandom.random()
            elif k == 2: pyrandom.shuffle(list(range(5)))
            elif k == 3: pyrandom.gauss(0, 1)
            elif k == 4: pyrandom.setstate(pyrandom.getstate())
            else:        pyrandom.getrandbits(64)

_VISITED = set()          # distinct LCG states the solo runs of this shard went through (capped)
class shifted_clock:
    """re-binds the `time` name of coba.random to a clock that reads `shift` seconds off: a generator that is a function of its
    seed cannot notice"""
    def __init__(self, mod, shift): self.mod, self.shift = mod, shift
    def __enter__(self):
        real, shift = self.mod.time, self.shift
        self.real = real
        class Clock:
            def __getattr__(self, n): return getattr(real, n)
            def time(self): return real.time() + shift
        self.mod.time = Clock()
    def __exit__(self, *a):
        self.mod.time = self.real

FAMILIES = ["equal-seed-instances", "other-instances", "module-functions", "python-random", "mixed"]

def first_diff(R, got):
    for i, (a, b) in enumerate(zip(R, got)):
        if a[:2] != b[:2]: return i
    return None if len(R) == len(got) else min(len(R), len(got))

# ========================================================================================== the checker
def check_case(spec, ctx=None):
    kind = spec.get("kind", "script")
    L.install()
    if kind == "attain": return check_attain(spec, ctx)
    if kind == "consumer": return check_consumer(spec, ctx)
    if kind == "child":  return check_child(spec["hashseed"], spec["noise"], [spec["case"]], ctx)
    return check_script(spec, ctx)[0]

def check_script(spec, ctx=None):
    """solo run under the contracts, then the purity replays.  returns (violations, R or None)"""
    from coba.random import CobaRandom
    import coba.random as cr
    def note(name, n=1):
        if ctx: ctx.count(name, n)
    viol = []
    seed   = seed_value(spec["seed"])
    script = spec["script"]
    sclass = seed_class(seed)
    skind  = seed_kind(seed)
    adv    = spec if spec.get("kind") == "adv" else None

    # ---- solo run: R, with every call judged
    rng = CobaRandom(seed)
    R, visited, drew = [], set(), []
    for i, call in enumerate(script):
        m  = call[0]
        sb = state_of(rng)
        if adv and i == adv["target_index"]:
            hit = sb is not None and jump(sb, adv["k"]) == adv["t"]
            note("adversarial.cases")
            if hit:
                note("adversarial.reached"); note("adversarial.reached." + adv["tname"])
            else: note("adversarial.missed")
        rec, val = do_call(rng, call)
        sa = state_of(rng)
        nd = draws_between(sb, sa)
        if nd is None: note("model.mismatch"); states = None
        else:
            note("model.calls_following_lcg"); states = consumed_states(sb, nd); visited.update(states)
        sc = state_class(states)
        if sc == "u=0" and m in ("gauss", "gausses"):
            sc += "@box-muller-input-" + ("1" if states.index(0) % 2 == 0 else "2")
        if ctx: ctx.case((m, state_class(states), arg_class(call), "adv" if adv else "gen"), nontrivial=bool(nd))
        R.append(rec[:2]); drew.append(bool(nd) or nd is None)
        if m in ("choice", "choicew") and call[1] and call[2] is not None and _members_class(call[1]) != "distinct":
            note(f"workload.{m}.weighted.equal-members")
        if m in ("choice", "choicew") and call[1] and _has_fraction(call[2]):
            note("workload.weighted.fraction-weights")
        bad = None
        if rec[0] == "contract":
            bad = (f"{m}/{sig_args(call)}{rec[2]}/{sc}", f"call #{i} {call} broke postcondition {rec[1]} ({rec[2]}) with LCG state before the call {sb}")
        elif rec[0] == "raise" and not expects_raise(call):
            bad = (f"{m}/{sig_args(call)}raise:{rec[1]}/{sc}", f"call #{i} {call} raised {rec[1]}: {rec[2]} with LCG state before the call {sb}")
        elif rec[0] == "ok" and expects_raise(call):
            bad = (f"{m}/empty-seq/returned-a-value", f"call #{i} {call} returned {rec[1]} although the sequence has no member")
        elif rec[0] == "ok" and m == "shuffle" and call[2] == "iter":
            note("oracle.shuffle.iterator-permutation")
            if not (isinstance(val, (list, tuple)) and L.same_multiset(list(val), list(call[1]))):
                bad = (f"shuffle/mode=iter/not-a-permutation/{sc}", f"call #{i} {call} returned {rec[1]}")
        if bad:
            viol.append(bad)
            return viol, None                                   # the rest of the stream is judged by other cases
    if len(_VISITED) < 2000000: _VISITED.update(visited)

    # ---- purity replays: everything must equal R
    nseed = spec.get("noise", 0)
    routes = ["ctor", "pickle", "deepcopy", "copy"]
    def judge(mode, got, extra=""):
        note("oracle.purity." + mode)
        if ctx: ctx.case(("purity", mode, sclass), nontrivial=len(script) > 0)
        d = first_diff(R, got)
        if d is not None:
            viol.append((f"purity/{mode}/seed={skind}" + (("/from-first-draw" if not any(drew[:d]) else "/after-earlier-draws") if mode.startswith("noise=") else ""),
                         f"{mode}{extra}: call #{d} {script[d] if d < len(script) else None} gave {got[d] if d < len(got) else None}, solo run gave {R[d] if d < len(R) else None}"))
            return False
        return True
    saved = cr._random
    try:
        # an undisturbed second instance first: if that already differs, the interference replays add nothing
        for shift in (977.123, 12345.6789, -3.1415926):          # built under clocks that read differently
            with shifted_clock(cr, shift): again = CobaRandom(seed)
            if again.seed != rng.seed:                          # the documented "initial seed" differs for one given seed
                note("oracle.purity.plain-rerun")
                viol.append((f"purity/plain-rerun/seed={skind}", f"two CobaRandom({seed!r}) report initial seeds {rng.seed} and {again.seed}"))
                return viol, None
        if not judge("plain-rerun", exec_plain(again, script)): return viol, None
        # other ways of obtaining "a CobaRandom created with this seed": pickle / copy of a never-drawn instance
        for route in routes[1:]:
            note("oracle.purity.route=" + route)
            if not judge("route=" + route, exec_plain(make_instance(seed, route), script)): return viol, None
        # the same argument VALUES handed over in re-used objects that the caller updates in place between the calls
        for j, (per_length, elementwise) in enumerate([(False, False), (True, True)]):
            shared = ReusedArgs(per_length, elementwise)
            x = make_instance(seed, routes[(nseed + j) % 4]) if j else CobaRandom(seed)
            if j and nseed % 3 == 0:                              # ... through the module functions
                cr.seed(seed); x = cr
            got = exec_plain(x, script, build=shared)
            cr._random = saved
            if not shared.reuses: continue                        # no object was handed over twice: nothing beyond plain-rerun
            mode = "reused-argument-objects"
            note("oracle.purity." + mode)
            if ctx: ctx.case(("purity", mode, "buffer-per-length" if per_length else "one-buffer-per-role"), nontrivial=True)
            d = first_diff(R, got)
            if d is not None:
                c = script[d] if d < len(script) else ["?"]
                viol.append((f"purity/{mode}/{c[0]}/{sig_args(c).replace('+equal-members', '')}" + ("contract-broken" if d < len(got) and got[d][0] == "contract" else "other-value"),
                             f"{mode} ({'one buffer per role and length, item assignment' if per_length else 'one buffer per role, slice assignment'}): "
                             f"call #{d} {c} gave {got[d] if d < len(got) else None}, the run with fresh equal objects gave {R[d] if d < len(R) else None}"))
                return viol, R
        for j, fam in enumerate(FAMILIES):
            x = make_instance(seed, routes[(nseed + j) % 4])
            if not judge("noise=" + fam, exec_plain(x, script, Noise(fam, seed, nseed * 7 + j))): return viol, R
        # twin: two equal-seed instances advance through the same script in a random alternation
        nr = pyrandom.Random(nseed * 7 + 5)
        X, Y, Z = CobaRandom(seed), CobaRandom(seed), CobaRandom(nr.randrange(1000))
        gx, gy = [], []
        while len(gx) < len(script) or len(gy) < len(script):
            who = nr.random()
            if who < .45 and len(gx) < len(script): gx.append(do_call(X, script[len(gx)])[0][:2])
            elif who < .9 and len(gy) < len(script): gy.append(do_call(Y, script[len(gy)])[0][:2])
            else:
                try: Z.randoms(nr.randrange(3)); Z.gauss()
                except Exception: pass
        if not judge("twin", gx, " (first twin)") or not judge("twin", gy, " (second twin)"): return viol, R
        # module route: coba.random.seed(seed) makes the module functions a CobaRandom(seed)
        cr.seed(seed)
        got = exec_plain(cr, script, Noise(nr.choice(["equal-seed-instances", "other-instances", "python-random"]), seed, nseed * 7 + 6))
        if not judge("module-route", got): return viol, R
    finally:
        cr._random = saved
    return viol, R


# ========================================================================================== consumers of the stream
# The anchor files hold the places where coba itself draws from a seeded CobaRandom: pipes.filters.Shuffle / Reservoir (and
# environments.filters.Reservoir, which inherits filter), learners.utilities.PMFPredictor / PMFInfoPredictor and SafeLearner's
# pmf route.  What the statement says about the generator carries over to them: for EVERY state of the stream (incl. the one
# whose uniform is exactly 0.0, at whichever draw of the consumer it lands) the result is a function of the seed and the
# argument values, made of contract-respecting values -- so a legal seed does not make the consumer raise, the sample is made
# of members of the input at distinct positions, the predicted action has non-zero probability and comes with its own one.
FILTERS    = ("reservoir", "env-reservoir", "shuffle-filter")
PREDICTORS = ("pmf-predictor", "pmf-info-predictor", "safe-learner-pmf")

class recording_rngs:
    """re-binds the CobaRandom name of a consumer's module to a factory that builds the real class and remembers the instances
    (a filter creates its generator inside filter(): this is the only way to read how far it drew)"""
    def __init__(self, mod): self.mod = mod
    def __enter__(self):
        real = self.real = self.mod.CobaRandom
        made = []
        def factory(*a, **k):
            r = real(*a, **k); made.append(r)
            return r
        self.mod.CobaRandom = factory
        return made
    def __exit__(self, *a): self.mod.CobaRandom = self.real

class _PmfLearner:
    """a learner that answers with an explicit pmf over the offered actions (one per round)"""
    def __init__(self, pmfs): self.pmfs, self.t = pmfs, 0
    def _next(self):
        p = self.pmfs[self.t % len(self.pmfs)]; self.t += 1
        return list(p)
    def __call__(self, context, actions): return self._next()
    def predict(self, context, actions): return {"pmf": self._next()}
    def learn(self, *a, **k): pass
class _PmfInfo(_PmfLearner):
    def __call__(self, context, actions): return self._next(), {"round": self.t}

def _items(n, container):
    vals = range(1000, 1000 + n)
    if container == "list":  return list(vals)
    if container == "tuple": return tuple(vals)
    if container == "range": return vals
    if container == "iter":  return iter(list(vals))
    return (v for v in vals)                                       # generator

def run_consumer(spec, between=None, variant=None):
    """-> (records, values, generators the consumer drew from).  variant: another equivalent way of putting the same request
    (other container with the same items, the subclass that inherits filter, a pickled/deep-copied filter)"""
    import coba.pipes.filters as pf, coba.environments.filters as ef, coba.learners.utilities as lu, coba.safety as sf
    what, a, seed = spec["what"], spec["args"], seed_value(spec["seed"])
    recs, vals = [], []
    def call(f):
        try: v = f()
        except ContractBroken as e: recs.append(["contract", e.tag, L.DETAIL[0]]); vals.append(None); return False
        except Exception as e:      recs.append(["raise", type(e).__name__, str(e)[:120]]); vals.append(None); return False
        recs.append(["ok", repr(v)]); vals.append(v)
        return True
    if what in FILTERS:
        cont = a["container"]
        if variant == "other-container": cont = {"list": "iter", "iter": "range", "range": "generator", "generator": "tuple", "tuple": "list"}[cont]
        if what == "shuffle-filter": flt = pf.Shuffle(seed)
        else:
            cls = ef.Reservoir if (what == "env-reservoir") != (variant == "other-class") else pf.Reservoir
            flt = cls(a["count"], strict=a["strict"], seed=seed)
        if variant == "pickled":  flt = pickle.loads(pickle.dumps(flt))
        if variant == "deepcopy": flt = copy.deepcopy(flt)
        if between: between(0)
        with recording_rngs(pf) as made:
            call(lambda: list(flt.filter(_items(a["n"], cont))))
        return recs, vals, list(made)
    pmfs, actions = [dec_w(p) for p in a["pmfs"]], list(a["actions"])
    if what == "pmf-predictor":        c = lu.PMFPredictor(_PmfLearner(pmfs), seed);     rng = c._pmfrng
    elif what == "pmf-info-predictor": c = lu.PMFInfoPredictor(_PmfInfo(pmfs), seed);    rng = c._pmfrng
    else:                              c = sf.SafeLearner(_PmfLearner(pmfs), seed=seed); rng = c._rng
    for t in range(len(pmfs)):
        if between: between(t)
        if not call(lambda: c.predict(None, actions if variant != "fresh-actions" else list(actions))): break
    return recs, vals, [rng]

def _shuffle_draws(count, n):
    """uniforms the initial in-place shuffle of the reservoir takes (Durstenfeld: one per position but the last)"""
    k = min(count, n) if count is not None else n
    return max(k - 1, 0)

def reservoir_triples_read(sb, count, n):
    """ACCOUNTING ONLY (never an oracle): how many (r1,r2,r3) triples the skip loop of Algorithm L (Li 1994, as coba's Reservoir
    documents it) reads before the items run out or the skip becomes infinite, for the stream that starts at state sb"""
    try:
        if not count or n < count: return 0
        s, W, pos, k = jump(sb, _shuffle_draws(count, n)), 1.0, count, 0
        while k < 10000:
            s1 = step(s); s2 = step(s1); s = step(s2); k += 1
            if s1 == 0 or s2 == 0: return k
            W *= (s1 / M) ** (1 / count)
            pos += math.floor(math.log(s2 / M, 1 - W)) + 1
            if pos > n: return k
        return k
    except Exception:
        return None

def consumer_class(spec):
    a = spec["args"]
    if spec["what"] in FILTERS:
        c, n = a.get("count", None), a["n"]
        if spec["what"] == "shuffle-filter": return "items=" + _nclass(n)
        if c is None: return "count=None"
        if c == 0:    return "count=0"
        return ("count=1" if c == 1 else "count>1") + ("/fewer-items-than-count" + ("/strict" if a["strict"] else "") if n < c else "")
    flags = sorted({_weight_flags(p).split("=")[1] for p in a["pmfs"]})
    return "pmf=" + ("all-positive" if flags == ["all-positive"] else "with-zeros")

def draw_slot(spec, d):
    """which draw of the consumer the d-th uniform of its stream is (mechanism level)"""
    a = spec["args"]
    if spec["what"] in PREDICTORS: return "predict-draw"
    sh = _shuffle_draws(a.get("count"), a["n"])
    if d <= sh: return "shuffle-draw"
    return f"skip-loop-draw-{(d - sh - 1) % 3 + 1}-of-3"

def judge_consumer(spec, rec, val, t=0):
    """-> failure mode or None, for one result of the consumer"""
    a, what = spec["args"], spec["what"]
    if rec[0] == "contract": return f"{rec[1]}:{rec[2]}"
    if rec[0] == "raise":    return "raise:" + rec[1]
    if what in FILTERS:
        n, c = a["n"], a.get("count")
        if not isinstance(val, list): return "not-a-list"
        items = range(1000, 1000 + n)
        if any(not (isinstance(v, int) and v in items) for v in val): return "non-member"
        if len(set(val)) != len(val): return "same-position-twice"
        want = n if (what == "shuffle-filter" or c is None) else 0 if c == 0 else c if n >= c else (0 if a["strict"] else n)
        return None if len(val) == want else "wrong-size"
    pmf, actions = dec_w(a["pmfs"][t]), a["actions"]
    if not isinstance(val, tuple) or len(val) != (2 if what == "pmf-predictor" else 3): return "wrong-shape"
    act, p = val[0], val[1]
    if act not in actions: return "non-member"
    i = actions.index(act)                                         # (actions are distinct)
    if not pmf[i] > 0: return "zero-probability-action"
    return None if p == pmf[i] else "wrong-probability"

def check_consumer(spec, ctx=None):
    from coba.random import CobaRandom
    import coba.random as cr
    from coba.context import CobaContext, NullLogger
    CobaContext.logger = NullLogger()                              # SafeLearner announces the pmf route on the logger
    def note(name, n=1):
        if ctx: ctx.count(name, n)
    what, seed = spec["what"], seed_value(spec["seed"])
    aim = spec.get("aim")
    sb  = state_of(CobaRandom(seed))
    recs, vals, rngs = run_consumer(spec)
    nd  = draws_between(sb, state_of(rngs[0]), limit=1 << 14) if len(rngs) == 1 else None
    if sb is None: aim = None                                      # (the state cannot be read: nothing can be aimed or accounted)
    if nd is None: note("model.mismatch")
    else: note("model.calls_following_lcg")
    sc, slot = "u=other", ""
    if aim:
        note("adversarial.cases")
        used = nd is not None and nd >= aim["d"] and jump(sb, aim["d"]) == aim["t"]
        if used and what in ("reservoir", "env-reservoir") and aim["d"] > _shuffle_draws(spec["args"]["count"], spec["args"]["n"]):
            k = reservoir_triples_read(sb, spec["args"]["count"], spec["args"]["n"])
            used = k is None or (aim["d"] - _shuffle_draws(spec["args"]["count"], spec["args"]["n"]) - 1) // 3 < k
            if not used: note("adversarial.consumer.target-in-unread-triple")
        slot = "@" + draw_slot(spec, aim["d"])
        if used:
            note("adversarial.reached"); note("adversarial.consumer.reached"); note(f"adversarial.consumer.reached.{aim['tname']}{slot}")
            sc = aim["tname"] if aim["tname"] in ("u=0", "u=largest") else "u=other"
        elif jump(sb, aim["d"]) != aim["t"] or nd is None: note("adversarial.missed")
    elif nd is not None:
        sc = state_class(consumed_states(sb, nd))
    cls = consumer_class(spec)
    if ctx: ctx.case(("consumer", what, cls, sc + slot, seed_kind(seed), "adv" if aim else "gen"), nontrivial=bool(nd) or nd is None)
    note("oracle.consumer." + what)
    for t, (rec, val) in enumerate(zip(recs, vals)):
        mode = judge_consumer(spec, rec, val, t)
        if mode:
            # (environments.filters.Reservoir inherits filter: one mechanism, one signature; the slot is named when the chosen state is extreme)
            return [(f"consumer/{what.replace('env-', '')}/{cls}/{mode}/{sc}{slot if sc != 'u=other' else ''}",
                     f"{what} seed={seed!r} args={ {k: v for k, v in spec['args'].items() if k != 'pmfs'} }: result #{t} is {rec[1:]}"
                     + (f" (pmf {spec['args']['pmfs'][t]})" if what in PREDICTORS else "") + f"; the stream starts at LCG state {sb}"
                     + (f", state {aim['t']} is draw #{aim['d']}" if aim else ""))]
    # ---- the result is a function of the seed and the argument values
    R = [r[:2] for r in recs]
    nseed = spec.get("noise", 0)
    saved = cr._random
    try:
        variants = [None, "noise"] + (["other-container", "pickled", "deepcopy"] + (["other-class"] if what != "shuffle-filter" else [])
                                      if what in FILTERS else ["fresh-actions"])
        for v in variants:
            between = Noise("mixed", seed if seed == seed else 0, nseed * 11 + 3) if v == "noise" else None
            got = [r[:2] for r in run_consumer(spec, between, None if v == "noise" else v)[0]]
            mode = "consumer-" + (v or "plain-rerun")
            note("oracle.purity.consumer")
            if ctx: ctx.case(("purity", mode, what), nontrivial=True)
            d = first_diff(R, got)
            if d is not None:
                return [(f"purity/{mode}/{what.replace('env-', '')}/{cls}", f"{mode}: {what} seed={seed!r} result #{d} is {got[d] if d < len(got) else None}, "
                                                         f"the first run gave {R[d] if d < len(R) else None}")]
    finally:
        cr._random = saved
    return []

def gen_pmfs(rng, n, rounds):
    out = []
    for _ in range(rounds):
        style = rng.choice(["one-hot", "epsilon-greedy", "dyadic", "dyadic", "normalised"])
        if style == "one-hot": w = [0] * n; w[rng.randrange(n)] = 1
        elif style == "epsilon-greedy" and n > 1: w = [1 / 8 / (n - 1)] * n; w[rng.randrange(n)] = 7 / 8
        elif style == "normalised":
            raw = [rng.choice([0, 1, 2, 3, 7]) for _ in range(n)]
            if sum(raw) == 0: raw[rng.randrange(n)] = 1
            w = [x / sum(raw) for x in raw]
        else:
            while True:                                            # dyadic: eighths that add up to one, zeros anywhere
                cuts = sorted(rng.choice(range(9)) for _ in range(n - 1))
                w = [(b - a) / 8 for a, b in zip([0] + cuts, cuts + [8])]
                if sum(w) == 1: break
        out.append(w)
    return out

def gen_consumer(rng):
    what = rng.choice(["reservoir", "reservoir", "env-reservoir", "shuffle-filter", "pmf-predictor", "pmf-info-predictor", "safe-learner-pmf"])
    seed = gen_seed(rng)
    if what == "shuffle-filter":
        seed = rng.choice([0, 1, 2, rng.randrange(2**20), rng.randrange(M), M1, M, 2**64 + rng.randrange(M)])   # (int >= 0 is all it takes)
        args = {"n": rng.choice([0, 1, 2, 3, 5, 17, 64]), "container": rng.choice(["list", "tuple", "range", "iter", "generator"])}
    elif what in FILTERS:
        count = rng.choice([None, 0, 1, 1, 2, 3, 5, 8, 20])
        n = rng.choice([0, 1, 2, 5, 17, 64] if count is None else
                       [0, max(count - 1, 0), count, count + 1, 2 * count + 3, 10 * count + 7, 50, 500, 5000, 50000])
        args = {"count": count, "strict": rng.random() < .3, "n": n, "container": rng.choice(["list", "tuple", "range", "iter", "generator"])}
    else:
        n = rng.choice([1, 2, 3, 3, 4, 5, 8])
        args = {"actions": [f"a{i}" for i in rng.sample(range(20), n)], "pmfs": gen_pmfs(rng, n, rng.choice([1, 2, 3, 5, 8]))}
    return {"kind": "consumer", "what": what, "seed": seed_spec(seed), "args": args, "noise": rng.randrange(10**6)}

def adversarial_consumers(rng):
    """the chosen states (uniform 0.0, the largest one, the smallest positive one, cumulative-probability thresholds) on every
    draw position of a consumer's stream: each draw of the initial shuffle, each draw of the first skip-loop triples and of the
    triples around the point where the loop fetches its next batch of uniforms; every round of a predictor"""
    EXT3 = [("u=0", 0), ("u=largest", M1), ("u=smallest-positive", 1)]
    out = []
    def seed_forms(s, i):
        return [s, s + M * (1 + i % 5), s - M * (1 + i % 3), float(s + M * (i % 4))][i % 4]
    for what in ("reservoir", "env-reservoir"):
        for count in (1, 2, 3, 5, 8):
            for n in ((12 * count + 5, 2500 * count) if what == "reservoir" else (400 * count,)):
                sh = _shuffle_draws(count, n)
                ds = list(range(1, sh + 9 + 1))
                if n >= 2500 * count and count >= 5: ds += list(range(sh + 55, sh + 67))      # the loop fetches 60 uniforms at a time
                for d in ds:
                    for name, t in EXT3:
                        out.append({"kind": "consumer", "what": what, "seed": seed_spec(seed_forms(seed_for(t, d), len(out))),
                                    "args": {"count": count, "strict": len(out) % 5 == 0, "n": n, "container": ["iter", "list", "range", "generator"][len(out) % 4]},
                                    "noise": len(out), "aim": {"d": d, "t": t, "tname": name}})
    for n in (2, 3, 6):
        for d in range(1, n):
            for name, t in EXT3[:2]:
                out.append({"kind": "consumer", "what": "shuffle-filter", "seed": seed_spec(seed_for(t, d) + M * (len(out) % 3)),
                            "args": {"n": n, "container": ["iter", "list", "range"][len(out) % 3]}, "noise": len(out), "aim": {"d": d, "t": t, "tname": name}})
    for what in PREDICTORS:
        for pmf in ([0, 1], [1, 0], [0, 0.5, 0.5], [0.5, 0.5, 0], [0.25, 0, 0.75], [0, 0.25, 0.25, 0, 0.5, 0], [0, 0, 1], [0.125, 0.875]):
            n = len(pmf)
            thr = [("threshold", s + e) for s in _dyadic_thresholds(list(accumulate(pmf)), 1) for e in (-1, 0)]
            for d in (1, 3):
                for name, t in EXT3[:2] + thr:
                    pmfs = gen_pmfs(rng, n, d - 1) + [pmf] + gen_pmfs(rng, n, 1)
                    out.append({"kind": "consumer", "what": what, "seed": seed_spec(seed_forms(seed_for(t, d), len(out))),
                                "args": {"actions": [f"a{i}" for i in range(n)], "pmfs": pmfs}, "noise": len(out), "aim": {"d": d, "t": t, "tname": name}})
    return out

# ------------------------------------------------------------------------------------------ attainability of [a,b]
def check_attain(spec, ctx=None):
    from coba.random import CobaRandom
    rng = CobaRandom(seed_value(spec["seed"]))
    a, b, via = spec["a"], spec["b"], spec["via"]
    try:
        vals = [rng.randint(a, b) for _ in range(256)] if via == "randint" else rng.randints(256, a, b)
    except ContractBroken as e:
        return [(f"{via}/range<=16/{L.DETAIL[0]}/u=other", f"{via}({a},{b}) broke {e.tag}")]
    except Exception as e:
        return [(f"{via}/range<=16/raise:{type(e).__name__}/u=other", f"{via}({a},{b}) raised {e}")]
    if ctx:
        ctx.count("oracle.attain.randint"); ctx.case(("attain", via, b - a + 1, "a=0" if a == 0 else "a!=0"))
    missing = sorted(set(range(a, b + 1)) - set(vals))
    if missing:
        which = "upper-bound" if b in missing else "lower-bound" if a in missing else "interior-value"
        return [(f"{via}/range<=16/{which}-never-attained", f"{via}({a},{b}) x256 from seed {spec['seed']} never returned {missing}")]
    return []

# ------------------------------------------------------------------------------------------ child process
def check_child(hashseed, noise, cases, ctx=None):
    """cases: script specs.  Each is run solo here (-> R) and in a child interpreter started with PYTHONHASHSEED=hashseed,
    once on an instance built there from the seed and once on an instance unpickled from this process."""
    from coba.random import CobaRandom
    viol, items, Rs = [], [], []
    for spec in cases:
        seed = seed_value(spec["seed"])
        R = exec_plain(CobaRandom(seed), spec["script"])
        items.append({"spec": spec, "pickle": base64.b64encode(pickle.dumps(CobaRandom(seed))).decode()})
        Rs.append(R)
    env = dict(os.environ); env["PYTHONHASHSEED"] = str(hashseed)
    home = os.environ.get("VERIF_HOME") or os.path.dirname(os.path.dirname(os.path.dirname(os.path.abspath(__file__))))
    try:
        p = subprocess.run([sys.executable, "-W", "ignore", "-m", "vf.props.c05", "--child"], input=json.dumps({"noise": noise, "cases": items}),
                           capture_output=True, text=True, timeout=300, env=env, cwd=home)
        out = json.loads(p.stdout)
    except Exception as e:
        if ctx: ctx.note_inconclusive(f"child-process-failed: {type(e).__name__}: {str(e)[:300]}")
        return viol
    if ctx:
        ctx.count("child.processes")
        for k, n in out["counters"].items(): ctx.count("child." + k, n)
        if str(out["hashseed"]) != str(hashseed): ctx.note_inconclusive("child ran with an unexpected PYTHONHASHSEED")
    for spec, R, (a, b) in zip(cases, Rs, out["results"]):
        sclass, skind = seed_class(seed_value(spec["seed"])), seed_kind(seed_value(spec["seed"]))
        for mode, got in (("child-process", a), ("child-unpickle", b)):
            if ctx:
                ctx.count("oracle.purity." + mode); ctx.case(("purity", mode, sclass), nontrivial=len(R) > 0)
            d = first_diff(R, got)
            if d is not None:
                viol.append((f"purity/{mode}/seed={skind}",
                             f"{mode} PYTHONHASHSEED={hashseed}: call #{d} gave {got[d] if d < len(got) else None}, parent gave {R[d] if d < len(R) else None}",
                             {"kind": "child", "hashseed": hashseed, "noise": noise, "case": spec}))
                break
    return viol

def child_main():
    import coba.random as cr
    from coba.random import CobaRandom
    data = json.load(sys.stdin)
    L.install()
    nr = pyrandom.Random(data["noise"])
    res = []
    for it in data["cases"]:
        spec = it["spec"]
        pyrandom.seed(nr.random()); cr.seed(nr.randrange(100)); CobaRandom(nr.randrange(10**6)).randoms(nr.randrange(4)); cr.random()
        a = exec_plain(CobaRandom(seed_value(spec["seed"])), spec["script"])
        b = exec_plain(pickle.loads(base64.b64decode(it["pickle"])), spec["script"])
        res.append([a, b])
    json.dump({"results": res, "counters": dict(L.CNT), "hashseed": os.environ.get("PYTHONHASHSEED"), "pid": os.getpid()}, sys.stdout)

# ========================================================================================== generators of cases
def gen_history(rng):
    """a pmf-style history: many weighted draws over ONE action set whose weights change from call to call (sometimes they stay),
    with other calls in between -- what a learner does with its generator"""
    n    = rng.choice([2, 2, 3, 3, 4, 5, 8])
    seq  = gen_equal_members(rng, n) if rng.random() < .35 else gen_members(rng, n)
    cont = rng.choice(["list", "list", "tuple"])
    ms   = rng.choice([["choice"], ["choicew"], ["choice", "choicew"]])
    style = rng.choice(["one-hot-moving", "any", "any", "epsilon-greedy"])
    script, w = [], None
    for t in range(rng.choice([2, 3, 5, 8, 12])):
        if w is None or rng.random() < .8:
            if style == "one-hot-moving":   w = [0] * n; w[rng.randrange(n)] = 1
            elif style == "epsilon-greedy": w = [1 / 8 / (n - 1)] * n; w[rng.randrange(n)] = 7 / 8
            else:                           w = gen_weights(rng, n)
        script.append([rng.choice(ms), list(seq), list(w), cont])
        if rng.random() < .3: script.append(gen_call(rng, small=True))
    return script

def gen_case(rng):
    if rng.random() < .25:
        return {"kind": "script", "seed": seed_spec(gen_seed(rng)), "script": gen_history(rng) + [["random"]], "noise": rng.randrange(10**6)}
    n = rng.choice([1, 2, 4, 8, 12, 16, 24])
    # the closing random() exposes the position in the stream with 30 bits, so two runs that differ cannot agree by chance
    return {"kind": "script", "seed": seed_spec(gen_seed(rng)), "script": [gen_call(rng) for _ in range(n)] + [["random"]], "noise": rng.randrange(10**6)}

def gen_attain(rng):
    w = rng.choice([2, 3, 4]); a = rng.choice([0, 0, 1, -3, -1, 10, -2**20, 2**30])
    return {"kind": "attain", "seed": seed_spec(rng.randrange(2**40)), "a": a, "b": a + w - 1, "via": rng.choice(["randint", "randints"])}

class _Counting:
    def __init__(self, it): self.it, self.n = it, 0
    def __iter__(self): return self
    def __next__(self):
        self.n += 1
        return next(self.it)

def calibrate(script, target_index):
    """number of uniforms the real code draws before the target call and inside it (state independent)"""
    from coba.random import CobaRandom
    rng = CobaRandom(20240607)
    cnt = _Counting(rng._randu); rng._randu = cnt
    for c in script[:target_index]: do_call(rng, c)
    d0 = cnt.n
    do_call(rng, script[target_index])
    return d0, cnt.n - d0

def _dyadic_thresholds(cums, tot):
    out = []
    for c in sorted(set(cums)):
        if 0 < c < tot:
            s = c * M / tot
            if s == int(s): out.append(int(s))
    return out

def adversarial_protos(rng):
    """(prefix, target call, [(name, state)]) for every method; expanded over every draw position after calibration"""
    EXT = [("u=0", 0), ("u=largest", M1)]
    EXT4 = EXT + [("u=smallest-positive", 1), ("u=second-largest", M1 - 1)]
    protos = []
    def add(target, states, prefixes=None):
        for p in (prefixes if prefixes is not None else [[], [gen_call(rng, small=True) for _ in range(rng.randint(1, 3))]]):
            protos.append((p, target, states))
    for b in [[]] + CORNERS: add(["random"] + b, EXT4)
    for n in (1, 3):
        for b in ([], CORNERS[0], CORNERS[1], CORNERS[9], CORNERS[15], [0, 10]): add(["randoms", n] + list(b), EXT)
    for a, b in ([0, 0], [0, 1], [0, 2], [-3, -1], [1, 6], [0, 2**20], [-2**20, 2**20], [0, M1], [7, 7 + M1], [-2**31, 2**31]):
        n = b - a + 1
        thr = []
        if 1 < n <= M:
            for j in {1, n - 1}:
                s = -(-j * M // n); thr += [("threshold", s), ("threshold", s - 1)]
        add(["randint", a, b], EXT + thr)
    for a, b in ([0, 2], [1, 6], [-3, -1], [0, M1]): add(["randints", 3, a, b], EXT)
    for n in (2, 3, 5):
        for mode in ("list", "inplace", "tuple", "range", "iter"): add(["shuffle", list(range(n)), mode], EXT)
    for m in ("choice", "choicew"):
        for n in (1, 2, 3, 7):
            thr = [("threshold", s) for j in range(1, n) for s in (-(-j * M // n), -(-j * M // n) - 1)]
            add([m, list(range(n)), None, "list"], EXT + thr[:4])
        for w in ([0, 1], [1, 0], [0, 0, 1], [0, 1, 0, 2, 1], [1, 0, 1, 0], [0.25, 0, 0.75], [0.5, 0.5], [0, 0.25, 0.25, 0, 0.5, 0],
                  [0, 0, 3, 1], [2, 0, 0, 2], [0.0, 1.0], [0, 0.1, 0.2, 0.7], [1, 1, 1], [0, 5]):
            thr = [("threshold", s + d) for s in _dyadic_thresholds(list(accumulate(w)), sum(w)) for d in (-1, 0, 1)]
            add([m, [f"m{i}" for i in range(len(w))] if m == "choice" else list(range(10, 10 + len(w))), w, rng.choice(["list", "tuple"])], EXT + thr)
        # exact rational weights, alone and next to ints
        F = Fraction
        for w in ([F(0), F(1, 2), F(1, 2)], [F(1, 4), F(0), F(3, 4)], [0, F(1, 2), F(1, 2)], [F(0), 1, 1], [F(1, 2), F(1, 2), F(0)],
                  [F(0), F(0), F(1, 3), F(2, 3)]):
            thr = [("threshold", int(s) + d) for s in _dyadic_thresholds(list(accumulate(w)), sum(w)) for d in (-1, 0)]
            add([m, [f"m{i}" for i in range(len(w))], enc_w(w), rng.choice(["list", "tuple"])], EXT + thr, prefixes=[[]])
        # equal members at several positions (the first of them without weight), and the same draw after an earlier weighted
        # draw over the same members with other weights
        for seq, w in ([[10, 11, 10], [0, 1, 1]], [["a", "b", "a"], [0.0, 0.5, 0.5]], [[1, 2, 1.0], [0, 0.25, 0.75]],
                       [[5, 6, 5, 6, 5, 6], [0, 0.25, 0.25, 0, 0.5, 0]], [[7, 7], [0, 2]], [[True, 0, 1, 0.0], [0, 0, 3, 1]]):
            thr = [("threshold", s + d) for s in _dyadic_thresholds(list(accumulate(w)), sum(w)) for d in (-1, 0)]
            first = [1 if i == 0 else 0 for i in range(len(w))]
            add([m, seq, w, rng.choice(["list", "tuple"])], EXT + thr, prefixes=[[], [[mm, seq, first, "list"]  for mm in ("choice", "choicew")]])
    G = EXT + [("u=smallest-positive", 1), ("threshold", 2**28), ("threshold", 2**29), ("threshold", 3 * 2**28)]
    for args in ([], [5, 2]):
        add(["gauss"] + args, G, prefixes=[[], [["gauss"], ["gauss"]], [["random"], ["gauss"], ["randint", 0, 5], ["gauss"]], [["gausses", 3], ["gausses", 1]]])
    for n in (2, 3, 4):
        add(["gausses", n], EXT + [("u=smallest-positive", 1)], prefixes=[[], [["gauss"]], [["shuffle", [1, 2, 3], "list"]]])
    return protos

def expand_proto(proto, idx):
    prefix, target, states = proto
    script = prefix + [target, ["random"]]
    d0, nd = calibrate(script, len(prefix))
    ks = list(range(1, nd + 1))
    if len(ks) > 4: ks = ks[:2] + ks[-2:]
    out = []
    for k in ks:
        for name, t in states:
            if not 0 <= t <= M1: continue
            s = seed_for(t, d0 + k)
            form = (idx + k + len(out)) % 4
            if   form == 1: sd = s + M * (1 + idx % 5)
            elif form == 2: sd = s - M * (1 + idx % 3)
            elif form == 3: sd = float(s + M * (idx % 4))
            else:           sd = s
            out.append({"kind": "adv", "seed": seed_spec(sd), "script": script, "target_index": len(prefix), "k": k, "t": t,
                        "tname": name, "noise": idx * 31 + k})
    return out

# ========================================================================================== sweeps (thorough)
def _witness_state(s_before, call):
    return {"kind": "script", "seed": seed_spec(s_before), "script": [call], "noise": 0}

def sweep_uniform(ctx, lo, hi, chunk=1 << 20):
    """draw indices lo+1..hi of the cycle that starts at state 0, through the real randoms() under its contract"""
    from coba.random import CobaRandom
    s0 = jump(0, lo)
    rng, model = CobaRandom(s0), L.lcg_stream(s0)
    pos, matched = lo, 0
    while pos < hi:
        n = min(chunk, hi - pos)
        sb = state_of(rng)
        ctx.case(("sweep", "uniform"))
        try: got = rng.randoms(n)
        except ContractBroken as e:
            # locate the offending state with the raw generator restarted at the chunk start
            raw = CobaRandom(sb)._randu; s = sb; bad = None
            for _ in range(n):
                u = next(raw); prev, s = s, step(s)
                if not 0 <= u < 1: bad = prev; break
            ctx.violation(f"randoms/bounds=default/{L.DETAIL[0]}/{state_class([step(bad)] if bad is not None else None)}", f"sweep: {e.tag} broken in the chunk after state {sb}",
                          _witness_state(bad if bad is not None else sb, ["randoms", 1]))
            rng = CobaRandom(jump(sb, n)); got = None
        want = list(islice(model, n))
        if got is not None:
            ctx.count("sweep.uniform.states_observed", n)
            if got == want: matched += n
            else: ctx.count("sweep.uniform.chunks_not_following_model")
        pos += n
    ctx.count("sweep.uniform.states_matching_model", matched)
    ctx.count("sweep.uniform.segments_closed", 1 if state_of(rng) == jump(0, hi) else 0)

def sweep_gauss(ctx, lo, hi, align, chunk=1 << 20):
    """hi-lo gaussians from the instance whose first uniform has draw index lo+1+align: Box-Muller pairs
    (state, next state) in alignment 0 and 1 together cover every pair of consecutive states"""
    from coba.random import CobaRandom
    rng = CobaRandom(jump(0, lo + align))
    todo = hi - lo
    while todo > 0:
        n = min(chunk, todo)
        sb = state_of(rng)
        ctx.case(("sweep", "gauss", align))
        try:
            rng.gausses(n)
            ctx.count("sweep.gauss.outputs", n); todo -= n
            continue
        except ContractBroken as e:
            sig, what = f"gausses/{L.DETAIL[0]}", f"sweep: {e.tag} broken in the chunk after state {sb}"
            ctx.violation(sig + "/u=other", what, _witness_state(sb, ["gausses", n]))
            rng = CobaRandom(jump(sb, n)); todo -= n
            continue
        except Exception as e:
            se = state_of(rng)                              # the uniform generator survives: its state is the raising input
            off = draws_between(sb, se, limit=n + 4)
            sc = state_class([se]) + ("@box-muller-input-1" if se == 0 else "")
            ctx.violation(f"gausses/raise:{type(e).__name__}/{sc}", f"sweep: gausses raised {type(e).__name__}: {e} at LCG state {se}",
                          _witness_state(jump(se, -1) if se is not None else sb, ["gauss"]))
            ctx.count("sweep.gauss.restarts")
            if se is None or off is None: rng = CobaRandom(jump(sb, n)); todo -= n
            else:
                rng = CobaRandom(step(se))                  # skip the raising pair, go on with the next one
                done = off + 1; ctx.count("sweep.gauss.outputs", max(done - 2, 0)); todo -= done
    ctx.count("sweep.gauss.alignments_done")

# ========================================================================================== coba's tests under contracts
PYTEST_FILES = ["test_random.py", "test_learners_bandit.py", "test_learners_corral.py", "test_learners_linucb.py", "test_learners_lints.py",
                "test_safety.py", "test_pipes_filters.py", "test_environments_filters.py", "test_environments_synthetic.py",
                "test_evaluators_sequential.py", "test_learners_misguided.py"]
def run_unit_tests_under_contracts(ctx):
    repo = os.environ.get("VERIF_REPO_DIR", "/repo")
    tmp = tempfile.mkdtemp(prefix="vf-c05-pytest-")
    try:
        files = []
        for f in PYTEST_FILES:
            src = os.path.join(repo, "coba", "tests", f)
            if os.path.exists(src): shutil.copy(src, os.path.join(tmp, "c05_" + f)); files.append("c05_" + f)
        out = os.path.join(tmp, "out.json")
        env = dict(os.environ); env["VF_C05_PYTEST_OUT"] = out
        p = subprocess.run([sys.executable, "-W", "ignore", "-m", "pytest", "-q", "--no-header", "-p", "no:cacheprovider", "-p", "vf.pytestplugin_c05"] + files,
                           cwd=tmp, env=env, capture_output=True, text=True, timeout=900)
        if not os.path.exists(out):
            ctx.note_inconclusive("unit-tests-under-contracts produced no report: " + (p.stdout[-300:] + p.stderr[-300:])); return
        rep = json.load(open(out))
        for k, n in rep["counters"].items(): ctx.count("unittests." + k, n)
        ctx.extra["unit_tests_under_contracts"] = {"files": len(files), "pytest_exit": p.returncode, "tail": p.stdout.strip().splitlines()[-1:] }
        for tag, mode, msg in rep["broken"]:
            ctx.violation(f"unit-test-workload/{tag}/{mode}", f"contract {tag} broken while running coba's own tests: {msg}", {"kind": "unit-tests", "message": msg})
    except subprocess.TimeoutExpired:
        ctx.note_inconclusive("unit-tests-under-contracts timed out")
    finally:
        shutil.rmtree(tmp, ignore_errors=True)

# ========================================================================================== entry points
def run_shard(ctx):
    L.install()
    def report(v, spec):
        for item in v:
            sig, what = item[0], item[1]
            ctx.violation(sig, what, item[2] if len(item) > 2 else spec)
    for_child = []
    child_cap = 4000 if ctx.tier == "quick" else 12000

    # adversarial seeds: the same deterministic list in every shard, each shard takes its slice
    protos = adversarial_protos(pyrandom.Random(f"{ctx.seed}/C05/adv"))
    nadv = 0
    for idx, proto in enumerate(protos):
        if idx % ctx.nshards != ctx.shard: continue
        for spec in expand_proto(proto, idx):
            v, R = check_script(spec, ctx); nadv += 1
            if nadv <= 1: ctx.sample({"adversarial": spec})
            report(v, spec)
            if R is not None: for_child.append(spec)
    ctx.count("adversarial.protos", sum(1 for i in range(len(protos)) if i % ctx.nshards == ctx.shard))

    # consumers of the stream (filters, predictors): chosen states on every draw position, then generated requests
    cons = adversarial_consumers(pyrandom.Random(f"{ctx.seed}/C05/adv-consumers"))
    for idx, spec in enumerate(cons):
        if idx % ctx.nshards != ctx.shard: continue
        report(check_consumer(spec, ctx), spec)
    for i in range(60 if ctx.tier == "quick" else 1500):
        spec = gen_consumer(ctx.rng)
        if i < 1: ctx.sample({"consumer": spec})
        report(check_consumer(spec, ctx), spec)

    # attainability of both ends of [a,b]
    for _ in range(24 if ctx.tier == "quick" else 400):
        spec = gen_attain(ctx.rng); report(check_attain(spec, ctx), spec)

    # generated scripts: a minimum number whatever the clock says, the rest within the time budget
    state = {"i": 0}
    def scripts(limit, reserve):
        while state["i"] < limit and (reserve is None or ctx.time_left() > reserve):
            spec = gen_case(ctx.rng)
            v, R = check_script(spec, ctx)
            if state["i"] < 1: ctx.sample({"script": spec})
            report(v, spec)
            if R is not None and len(for_child) < child_cap: for_child.append(spec)
            state["i"] += 1
    scripts(min(ctx.n, 150), None)

    if ctx.tier == "thorough":
        lo, hi = (ctx.shard * M) // ctx.nshards, ((ctx.shard + 1) * M) // ctx.nshards
        t0, c0 = time.time(), time.process_time()
        sweep_uniform(ctx, lo, hi)
        sweep_gauss(ctx, lo, hi, 0)
        sweep_gauss(ctx, lo, hi, 1)
        ctx.extra["sweep_wall_s"] = round(time.time() - t0, 1)
        ctx.extra["sweep_cpu_s"]  = round(time.process_time() - c0, 1)

    scripts(ctx.n, 25)
    ctx.count("scripts", state["i"])
    if state["i"] < ctx.n: ctx.extra["scripts_skipped_for_time"] = ctx.n - state["i"]

    # child processes with other hash seeds (two different ones per shard at least)
    # (never fewer than two batches: with one batch every child would run under the first salt only -- a round-6 seeded change
    #  that folds str seeds with hash() was missed for exactly that reason when 2000 < len(for_child) <= 2500)
    nb = max(2, -(-len(for_child) // 2500))
    size = -(-len(for_child) // nb) if for_child else 0
    own = os.environ.get("PYTHONHASHSEED", "random")
    for b in range(nb):
        batch = for_child[b * size:(b + 1) * size]
        if not batch: continue
        # every batch runs under a salt that differs from this process's own one
        hs = ctx.rng.choice([h for h in (1, 2, 12345, 4294967295, ctx.rng.randrange(1, 2**32)) if str(h) != own]) if b else (0 if own != "0" else 7)
        ctx.count("child.salt-differs-from-parent")
        report(check_child(hs, ctx.rng.randrange(10**6), batch, ctx), None)

    if ctx.tier == "thorough" and ctx.shard == 0:
        run_unit_tests_under_contracts(ctx)

    for k, n in L.CNT.items(): ctx.count(k, n)
    ctx.extra["distinct_lcg_states_visited_by_scripts"] = len(_VISITED)
    ctx.extra["shard_cpu_s"] = round(time.process_time(), 1)

def finalize(merged, tier, seed):
    c = merged["counters"]
    if tier == "thorough":
        if c.get("sweep.uniform.states_matching_model", 0) != M:
            merged["inconclusive"].append(f"full-period sweep incomplete: {c.get('sweep.uniform.states_matching_model', 0)} of {M} states observed in model order")
        if c.get("sweep.gauss.alignments_done", 0) < 2 * len(merged["shard_wall"]):
            merged["inconclusive"].append("gaussian sweep incomplete")
        if c.get("unittests.contract.random.in_range", 0) + c.get("unittests.contract.choicew.member_and_weight", 0) <= 0:
            merged["inconclusive"].append("monitor-never-reached:unit-tests-under-contracts")
    if c.get("adversarial.missed", 0) > 0.02 * max(c.get("adversarial.cases", 0), 1):
        merged["inconclusive"].append(f"adversarial seeds missed their target state in {c.get('adversarial.missed')} of {c.get('adversarial.cases')} cases "
                                      "(the generator does not follow the LCG of the statement)")

def replay(witness):
    if witness.get("kind") == "unit-tests": return []
    return [(v[0], v[1]) for v in check_case(witness)]

if __name__ == "__main__":
    if "--child" in sys.argv: child_main()
