"""C19 -- Shared caches never expose partial entries and always release their locks.

Part A (schedules): the real coba.context.cachers.ConcurrentCacher is constructed with OUR lock, OUR shared array and OUR
inner cacher, and `coba.context.cachers.time` is re-bound, so that every lock acquisition/release, shared-counter access,
inner-cache operation, getter step, body step and retry sleep is a yield point of a seeded controlled scheduler (real threads,
exactly one runs at a time).  Invariants are asserted at those hooks, i.e. atomically with the state they shadow:
  M1 no read of an entry overlaps a write/remove of it, no two writers of one key    M2 getter at most once while cached
  M3 every caller sees the complete value     M4 at quiescence all counters / bookkeeping are zero
  M5 no deadlock state (all unfinished threads blocked, or parked in retry sleeps with no state change)
Part B (fault enumeration): DiskCacher writes failing at every line / every write call, and cache files cut at every byte.
Part D (real processes): spawn-ed workers share RawArray + mp.Lock + a DiskCacher directory; offline event-log check.
Part E: the ConcurrentCacher that CobaMultiprocessor itself builds for its workers, in front of a DiskCacher.
Part C (real threads): the real class with real threading.Lock under sys.monitoring LINE-level yield injection; offline
check of the recorded event log (M2, M3, M4).
Part F (vf/c19_openml.py): the OpenML client of coba/environments/openml.py as a caller of the shared cache -- 1-4 threads reading
data sets through ConcurrentCacher(DiskCacher | MemoryCacher) with a canned, fault-injecting HTTP source; requests per URL, complete
table or exception, quiescence of the lock counters, a healthy read after every fault (HTTP answer cut part-way, body raising,
abandoned reads, cache file cut at a byte).
"""
import os, sys, time, random, threading, hashlib, tempfile, shutil, gzip, itertools
from collections import Counter, defaultdict
from contextlib import contextmanager

ID    = "C19"
LEVEL = "exploration"
RULE  = ("part A: one case = (2-5 callers x 1-4 get_set/rmv operations over equal, distinct and hash-colliding keys, getter/body "
         "failure points, scheduler kind random-walk|PCT, seed); distinct & non-trivial = distinct schedule-trace hash in which "
         ">= 2 callers touch one lock index.  part B: every (value, failing line | failing write call | cut byte) of DiskCacher. "
         "part C: real-thread stress runs under LINE-level yield injection")
PLAN  = {"quick":    {"shards": 16, "cases": 6400,   "timeout": 900,  "budget_s": 70},
         "thorough": {"shards": 16, "cases": 400000, "timeout": 3600, "budget_s": 1000}}
REQUIRED = ["sched.histories", "sched.contended-index", "hook.lock.acquire", "hook.array.set", "hook.inner.write", "hook.inner.read",
            "hook.sleep", "oracle.M1.read-enter", "oracle.M1.write-enter", "oracle.M2.getter", "oracle.M3.complete-value",
            "oracle.M4.quiescence", "inject.getter-raise", "inject.body-raise", "disk.write-fault", "disk.cut-byte",
            "threads.runs", "threads.M3.complete-value", "procs.runs", "procs.M2.getter", "procs.M3.complete-value", "procs.M4.quiescence", "cm.runs", "cm.M2.getter", "cm.M3.complete-value", "memory.getter-fault", "cachers.near-equal-keys",
            "openml.runs", "openml.M2.requests", "openml.M3.complete-table", "openml.M4.quiescence", "openml.M6.healthy-read-after", "openml.reader-raised"]
ASSUMPTIONS = ["a caller never nests get_set on two different keys whose 16-bit hashes collide; nested calls follow a global key order",
               "granularity of part A = lock acquisitions/releases, shared-counter reads/writes, inner-cache operations, retry sleeps",
               "a watchdog or step cap firing without an established deadlock state is inconclusive, not a violation"]

class Abort(BaseException): pass
class GetterBoom(Exception): pass
class BodyBoom(Exception): pass

def _idx(key):
    return int.from_bytes(hashlib.blake2b(str(key).encode("utf-8"), digest_size=2).digest(), "big")

def _find_collision():
    seen = {}
    for i in itertools.count():
        k = f"k{i}"
        h = _idx(k)
        if h in seen: return seen[h], k
        seen[h] = k
COLL = _find_collision()
KEYS = ["a", "b", COLL[0], COLL[1]]

# ====================================================================================== controlled scheduler
class T:
    def __init__(self, name):
        self.name, self.sem, self.state = name, threading.Semaphore(0), "ready"
        self.blocked_on, self.stalled, self.last_sleep_version, self.at_sleep, self.prio, self.aborted = None, 0, -1, False, 0, False

class Sched:
    def __init__(self, rng, mode, max_steps=6000, change_points=()):
        self.rng, self.mode, self.max_steps = rng, mode, max_steps
        self.ts, self.trace, self.version, self.steps, self.aborted = {}, [], 0, 0, None
        self.done = threading.Event()
        self.cps = set(change_points)
        self.low = 0
        self.errors = []
    def cur(self):
        return self.ts[threading.current_thread().name]
    def _pick(self):
        ready = [t for t in self.ts.values() if t.state == "ready"]
        if not ready: return None
        if self.mode == "pct": return max(ready, key=lambda t: t.prio)
        return self.rng.choice(ready)
    def _demote(self, t):
        self.low -= 1; t.prio = self.low
    def _check_abort(self, t):
        if self.aborted and not t.aborted:
            t.aborted = True
            raise Abort()
    def switch(self, label):
        t = self.cur()
        if self.aborted: return self._check_abort(t)
        self.steps += 1; self.trace.append((t.name, label))
        if self.steps in self.cps: self._demote(t)
        if self.steps > self.max_steps: self.abort("step-cap"); return self._check_abort(t)
        n = self._pick()
        if n is t or n is None: return
        n.sem.release(); t.sem.acquire()
        self._check_abort(t)
    def block(self, on):
        t = self.cur()
        if self.aborted: return self._check_abort(t)
        t.state, t.blocked_on = "blocked", on
        self.trace.append((t.name, "blocked"))
        n = self._pick()
        if n is None:
            self.abort("deadlock:all-blocked-on-lock"); t.state = "ready"; return self._check_abort(t)
        n.sem.release(); t.sem.acquire()
        self._check_abort(t)
    def unblock(self, on):
        for t in self.ts.values():
            if t.state == "blocked" and t.blocked_on is on: t.state, t.blocked_on = "ready", None
    def sleep(self):
        t = self.cur()
        if self.aborted: return self._check_abort(t)
        t.stalled = t.stalled + 1 if t.last_sleep_version == self.version else 0
        t.last_sleep_version = self.version
        t.at_sleep = True
        live = [x for x in self.ts.values() if x.state != "done"]
        if all(x.at_sleep and x.stalled >= 2 for x in live):
            self.abort("deadlock:all-parked-in-retry-sleep-without-state-change"); t.at_sleep = False; return self._check_abort(t)
        if self.mode == "pct": self._demote(t)
        try: self.switch("sleep")
        finally: t.at_sleep = False
    def bump(self): self.version += 1
    def abort(self, reason):
        if self.aborted: return
        self.aborted = reason
        for t in self.ts.values():
            if t.state == "blocked": t.state = "ready"
            t.sem.release()
    def finish(self):
        t = self.cur(); t.state = "done"; self.bump()
        if self.aborted:
            if all(x.state == "done" for x in self.ts.values()): self.done.set()
            return
        n = self._pick()
        if n: n.sem.release()
        elif all(x.state == "done" for x in self.ts.values()): self.done.set()
        else: self.abort("deadlock:all-blocked-on-lock");
        if all(x.state == "done" for x in self.ts.values()): self.done.set()
    def run(self, programs):
        threads = []
        for name, fn in programs.items():
            self.ts[name] = T(name)
        if self.mode == "pct":
            for i, t in enumerate(self.rng.sample(list(self.ts.values()), len(self.ts))): t.prio = i + 1
        def wrap(name, fn):
            t = self.ts[name]
            t.sem.acquire()
            try:
                if not self.aborted: fn()
            except Abort: pass
            except BaseException as e:
                import traceback
                self.errors.append((name, f"{type(e).__name__}: {e}", traceback.format_exc()[-800:]))
            finally:
                self.finish()
        for name, fn in programs.items():
            th = threading.Thread(target=wrap, args=(name, fn), name=name, daemon=True); th.start(); threads.append(th)
        self._pick().sem.release()
        ok = self.done.wait(30)
        if not ok:
            self.abort("watchdog")
            self.done.wait(5)
        for th in threads: th.join(2)
        return ok

class SLock:
    def __init__(self, s, cnt): self.s, self.held, self.owner, self.cnt = s, False, None, cnt
    def __enter__(self):
        if self.s.aborted: return self
        self.cnt["hook.lock.acquire"] += 1
        self.s.switch("lock.acq")
        while self.held and not self.s.aborted: self.s.block(self)
        self.held, self.owner = True, threading.current_thread().name
        return self
    def __exit__(self, *a):
        self.held, self.owner = False, None
        self.s.unblock(self)
        if not self.s.aborted: self.s.switch("lock.rel")
        return False

class SArray:
    """the shared counter table; every access is a yield point; reads outside the lock are recorded"""
    def __init__(self, s, lock, cnt): self.s, self.lock, self.d, self.cnt, self.unlocked_writes = s, lock, defaultdict(int), cnt, 0
    def __len__(self): return 2**16
    def __getitem__(self, i):
        self.s.switch("arr.get"); return self.d[i]
    def __setitem__(self, i, v):
        self.cnt["hook.array.set"] += 1
        if not (self.lock.held and self.lock.owner == threading.current_thread().name): self.unlocked_writes += 1
        self.s.switch("arr.set")
        if self.d[i] != v: self.s.bump()
        self.d[i] = v

class STime:
    def __init__(self, s, cnt): self.s, self.cnt = s, cnt
    def sleep(self, secs):
        self.cnt["hook.sleep"] += 1
        self.s.sleep()
    def time(self): return time.time()

def full_value(key, n): return [f"{key}:{i}" for i in range(n)]

class Monitor:
    def __init__(self, cnt): self.readers, self.writers, self.cached, self.viol, self.cnt = defaultdict(set), defaultdict(set), {}, [], cnt
    def v(self, sig, what):
        self.viol.append((sig, what))

class StepCacher:
    """inner cacher whose entries are built / read / removed in several steps with a yield between steps"""
    def __init__(self, s, mon, nvals, cnt): self.s, self.mon, self.store, self.nvals, self.cnt = s, mon, {}, nvals, cnt
    def __contains__(self, key):
        self.s.switch("inner.contains"); return key in self.store
    def rmv(self, key):
        me, m = threading.current_thread().name, self.mon
        self.cnt["oracle.M1.write-enter"] += 1
        if m.readers[key] - {me}: m.v("M1/remove-while-being-read", f"{me} removes {key!r} while {sorted(m.readers[key])} read it")
        if m.writers[key]: m.v("M1/remove-while-being-written", f"{me} removes {key!r} while {sorted(m.writers[key])} write it")
        m.writers[key].add(me)
        try:
            self.s.switch("inner.rmv.1")
            if key in self.store: self.store[key]["complete"] = False; self.s.bump()
            self.s.switch("inner.rmv.2")
            self.store.pop(key, None); m.cached.pop(key, None)
        finally:
            m.writers[key].discard(me)
    def get_set(self, key, getter):
        me, m = threading.current_thread().name, self.mon
        if key not in self.store:
            self.cnt["hook.inner.write"] += 1; self.cnt["oracle.M1.write-enter"] += 1
            if m.readers[key] - {me}: m.v("M1/write-while-being-read", f"{me} writes {key!r} while {sorted(m.readers[key])} read it")
            if m.writers[key]: m.v("M1/two-writers", f"{me} writes {key!r} while {sorted(m.writers[key])} write it")
            m.writers[key].add(me)
            try:
                self.store[key] = {"value": [], "complete": False}; self.s.bump()
                self.s.switch("inner.write.begin")
                self.cnt["oracle.M2.getter"] += 1
                if m.cached.get(key): m.v("M2/getter-ran-while-entry-cached", f"{me} ran the getter of {key!r} although the entry was cached")
                try:
                    for piece in (getter() if callable(getter) else getter):
                        self.s.switch("inner.write.piece")
                        self.store[key]["value"].append(piece)
                except BaseException:
                    self.store.pop(key, None); self.s.bump()     # like DiskCacher: a failed write removes the partial entry
                    raise
                self.s.switch("inner.write.end")
                self.store[key]["complete"] = True; m.cached[key] = True
            finally:
                m.writers[key].discard(me)
        return self._reader(key)
    @contextmanager
    def _reader(self, key):
        me, m = threading.current_thread().name, self.mon
        self.cnt["hook.inner.read"] += 1; self.cnt["oracle.M1.read-enter"] += 1
        if m.writers[key] - {me}: m.v("M1/read-while-being-written", f"{me} starts reading {key!r} while {sorted(m.writers[key])} write/remove it")
        m.readers[key].add(me)
        try:
            yield _View(self, key)
        finally:
            m.readers[key].discard(me)

class _View:
    def __init__(self, c, key): self.c, self.key = c, key
    def read(self):
        """reads the entry piece by piece with a yield between pieces (a concurrent writer/remover becomes observable)"""
        out = []
        e = self.c.store.get(self.key)
        if e is None: return None, False
        complete = e["complete"]
        for i in range(self.c.nvals[self.key]):
            self.c.s.switch("inner.read.piece")
            e2 = self.c.store.get(self.key)
            if e2 is None or i >= len(e2["value"]): return out, False
            out.append(e2["value"][i]); complete = complete and e2["complete"]
        return out, complete

# ====================================================================================== part A: cases
def gen_case(rng):
    ncallers = rng.choice([2, 2, 3, 3, 4, 5])
    keyset = rng.choice([["a"], ["a", "b"], [COLL[0], COLL[1]], ["a", COLL[0], COLL[1]], ["a", "b", COLL[0], COLL[1]]])
    nvals = {k: rng.choice([1, 2, 3]) for k in KEYS}
    order = {k: i for i, k in enumerate(KEYS)}
    callers = []
    for c in range(ncallers):
        ops = []
        for _ in range(rng.choice([1, 2, 2, 3, 4])):
            k = rng.choice(keyset)
            if rng.random() < .3:
                ops.append({"op": "rmv", "key": k})
            else:
                nested = None
                if rng.random() < .2:
                    later = [x for x in keyset if order[x] > order[k] and _idx(x) != _idx(k)]
                    if later: nested = rng.choice(later)
                    # ... or the caller reads the SAME key again inside its with-block (it holds a read lock on it already)
                    if rng.random() < .4: nested = k
                ops.append({"op": "gs", "key": k, "getter_fail": rng.choice([None, None, None, 0, 1, 2]), "body_fail": rng.random() < .15,
                            "nested": nested})
        callers.append(ops)
    mode = rng.choice(["random", "random", "pct"])
    return {"callers": callers, "nvals": nvals, "mode": mode, "seed": rng.randrange(1 << 30), "pct_depth": rng.choice([1, 2, 3])}

def run_schedule(spec, cnt):
    import coba.context.cachers as cc
    rng = random.Random(spec["seed"])
    cps = [rng.randrange(1, 400) for _ in range(spec["pct_depth"])] if spec["mode"] == "pct" else ()
    s = Sched(rng, spec["mode"], change_points=cps)
    mon = Monitor(cnt)
    lock = SLock(s, cnt); arr = SArray(s, lock, cnt)
    inner = StepCacher(s, mon, spec["nvals"], cnt)
    cacher = cc.ConcurrentCacher(inner, arr, lock)
    old_time = cc.time
    cc.time = STime(s, cnt)
    outcomes = defaultdict(list)
    def make_getter(key, fail_at):
        def getter():
            for i, piece in enumerate(full_value(key, spec["nvals"][key])):
                s.switch("getter.step")
                if fail_at is not None and i == min(fail_at, spec["nvals"][key] - 1):
                    cnt["inject.getter-raise"] += 1
                    raise GetterBoom(key)
                yield piece
        return getter
    def do_gs(name, op, depth=0):
        key = op["key"]
        try:
            with cacher.get_set(key, make_getter(key, op.get("getter_fail"))) as view:
                got, complete = view.read()
                cnt["oracle.M3.complete-value"] += 1
                if got != full_value(key, spec["nvals"][key]) or not complete:
                    mon.v("M3/partial-value-served", f"{name} read {got} (complete={complete}) for {key!r}, full value {full_value(key, spec['nvals'][key])}")
                if op.get("nested") and depth == 0:
                    if op["nested"] == key: cnt["oracle.nested-read-of-the-same-key"] += 1
                    do_gs(name, {"key": op["nested"], "getter_fail": None, "body_fail": False}, 1)
                s.switch("body.step")
                if op.get("body_fail"):
                    cnt["inject.body-raise"] += 1
                    raise BodyBoom(key)
            outcomes[name].append("ok")
        except GetterBoom: outcomes[name].append("getter-boom")
        except BodyBoom: outcomes[name].append("body-boom")
    def program(name, ops):
        def run():
            for op in ops:
                if op["op"] == "rmv":
                    cacher.rmv(op["key"]); outcomes[name].append("rmv")
                else:
                    do_gs(name, op)
        return run
    try:
        finished = s.run({f"c{i}": program(f"c{i}", ops) for i, ops in enumerate(spec["callers"])})
    finally:
        cc.time = old_time
    return s, mon, arr, cacher, outcomes, finished

def check_case(spec, ctx=None, cnt=None):
    cnt = cnt if cnt is not None else Counter()
    viol = []
    s, mon, arr, cacher, outcomes, finished = run_schedule(spec, cnt)
    idxs = Counter(_idx(op["key"]) for ops in spec["callers"] for op in ops)
    by_idx = defaultdict(set)
    for i, ops in enumerate(spec["callers"]):
        for op in ops: by_idx[_idx(op["key"])].add(i)
    contended = any(len(v) >= 2 for v in by_idx.values())
    cnt["sched.histories"] += 1
    if contended: cnt["sched.contended-index"] += 1
    th = hashlib.blake2b(repr(s.trace).encode(), digest_size=8).hexdigest()
    if ctx is not None: ctx.case(("trace", th), nontrivial=contended)
    for name, err, tb in s.errors:
        if "CobaException" in err and "unrecoverable" in err: continue
        viol.append((f"caller-exception/{err.split(':')[0]}", f"{name}: {err} {tb[-300:]}"))
    for sig, what in mon.viol: viol.append((sig, what))
    if s.aborted == "step-cap" or s.aborted == "watchdog":
        if ctx is not None: ctx.note_inconclusive(f"schedule-{s.aborted}")
        return viol, s
    if s.aborted and s.aborted.startswith("deadlock"):
        viol.append((f"M5/{s.aborted}", f"no caller can make progress: counters={dict(arr.d)} bookkeeping={dict(cacher._locks)} outcomes={dict(outcomes)}"))
        return viol, s
    # ---- quiescence: every caller has left its with-blocks
    cnt["oracle.M4.quiescence"] += 1
    leaked = {i: v for i, v in arr.d.items() if v != 0}
    if leaked: viol.append(("M4/shared-counter-not-zero-at-quiescence", f"counters {leaked} after all callers finished; outcomes={dict(outcomes)}"))
    book = {str(k): v for k, v in cacher._locks.items() if v != 0}
    if book: viol.append(("M4/bookkeeping-not-zero-at-quiescence", f"per-thread bookkeeping {book}"))
    if arr.unlocked_writes: viol.append(("M1/shared-counter-written-outside-lock", f"{arr.unlocked_writes} counter writes without holding the lock"))
    return viol, s

# ====================================================================================== part B: DiskCacher faults
class _Cut(BaseException):
    """an interruption that is not an Exception"""

class _FailingFile:
    def __init__(self, f, fail_at): self.f, self.n, self.fail_at = f, 0, fail_at
    def write(self, x):
        if self.n == self.fail_at: raise OSError("injected write failure")
        self.n += 1
        return self.f.write(x)
    def __enter__(self): self.f.__enter__(); return self
    def __exit__(self, *a): return self.f.__exit__(*a)
    def __getattr__(self, n): return getattr(self.f, n)

class _GzipProxy:
    def __init__(self, fail_at): self.fail_at = fail_at
    def open(self, path, mode="rb", *a, **k):
        f = gzip.open(path, mode, *a, **k)
        return _FailingFile(f, self.fail_at) if "w" in mode else f
    def __getattr__(self, n): return getattr(gzip, n)

def disk_faults(ctx, rng, n_values):
    import coba.context.cachers as cc
    viol = []
    d = tempfile.mkdtemp(prefix="vf-c19-")
    try:
        for vi in range(n_values):
            nlines = rng.choice([1, 2, 3, 5])
            lines = ["".join(rng.choice("abcé ,x") for _ in range(rng.choice([0, 1, 5, 30]))) for _ in range(nlines)]
            key = f"v{vi}"
            # (1) getter fails at line i / (2) the i-th write call fails: afterwards the entry must be absent and re-populating works
            for kind in ("getter", "write", "getter-interrupted"):
                # getter-interrupted: the getter is cut by something that is not an Exception (Ctrl-C, sys.exit() in a callback)
                Boom = GetterBoom if kind != "getter-interrupted" else rng.choice([KeyboardInterrupt, SystemExit, _Cut])
                for i in range(nlines * (2 if kind == "write" else 1) + (0 if kind == "write" else 1)):
                    c = cc.DiskCacher(d)
                    c.rmv(key)
                    def getter():
                        for j, l in enumerate(lines):
                            if kind != "write" and j == i: raise Boom(key)
                            yield l
                        if kind != "write" and i == nlines: raise Boom(key)
                    old = cc.gzip
                    if kind == "write": cc.gzip = _GzipProxy(i)
                    try:
                        try:
                            c.get_set(key, getter).close(); raised = False
                        except (GetterBoom, OSError, KeyboardInterrupt, SystemExit, _Cut): raised = True
                    finally: cc.gzip = old
                    ctx.count("disk.write-fault"); ctx.case(("disk", kind, nlines, i))
                    if not raised: viol.append((f"M6/disk/{kind}-failure-swallowed", f"failure at {kind} step {i} of {nlines} lines was not raised")); continue
                    if key in c:
                        with c.get_set(key, lambda: lines) as f: got = [l.rstrip("\n") for l in f]
                        if got != lines: viol.append((f"M6/disk/{kind}-failure-leaves-partial-entry-served-as-complete", f"after failing at step {i}: entry present, reads {got} instead of {lines}"))
                    with c.get_set(key, lambda: lines) as f: got = [l.rstrip("\n") for l in f]
                    if got != lines: viol.append((f"M6/disk/repopulate-after-{kind}-failure-wrong", f"{got} != {lines}"))
            # (3) a killed writer leaves a byte-prefix of the file: a later get_set must re-populate, raise while reading, or serve everything
            c = cc.DiskCacher(d); c.rmv(key)
            c.get_set(key, lambda: lines).close()
            path = str(c._cache_path(key)); blob = open(path, "rb").read()
            for cut in range(len(blob)):
                with open(path, "wb") as f: f.write(blob[:cut])
                ctx.count("disk.cut-byte"); ctx.case(("cut", len(blob), cut), nontrivial=cut > 0)
                try:
                    with cc.DiskCacher(d).get_set(key, lambda: lines) as f: got = [l.rstrip("\n") for l in f]
                    if got != lines:
                        viol.append(("M6/disk/truncated-file-served-without-error", f"file cut at byte {cut}/{len(blob)} reads {got} silently instead of {lines}"))
                except (EOFError, OSError, gzip.BadGzipFile, UnicodeDecodeError, Exception) as e:
                    ctx.count("disk.cut-byte.raised")
            c.rmv(key)
            # (4) keys that differ only slightly (letter case, a digit, a suffix) are different entries: each has its own getter run,
            #     its own value, and removing one leaves the other (memory and disk, plain and behind the ConcurrentCacher)
            base = rng.choice(["census_a", "k", "Data7", "openml_042693_arff"])
            fam = list(dict.fromkeys([base, base.upper(), base.capitalize(), base.swapcase(), base + "0", base + "_"]))[:rng.choice([2, 3, 4])]
            for inner_kind in ("disk", "memory"):
                for wrap in ("plain", "concurrent"):
                    inner = cc.DiskCacher(d) if inner_kind == "disk" else cc.MemoryCacher()
                    c = inner if wrap == "plain" else cc.ConcurrentCacher(inner)
                    for k in fam: c.rmv(k)
                    ran = Counter(); bad = None
                    for k in fam:
                        if k in c: bad = (f"M2/{inner_kind}/near-equal-keys/key-reported-as-cached-before-it-was-set", f"{k!r} in cacher although only {fam[:fam.index(k)]} were set"); break
                        def g(k=k): ran[k] += 1; return [f"{k}:{j}" for j in range(3)]
                        with c.get_set(k, g) as f: got = [l.rstrip("\n") for l in f]
                        if got != [f"{k}:{j}" for j in range(3)] or ran[k] != 1:
                            bad = (f"M3/{inner_kind}/near-equal-keys/wrong-value-or-getter-not-run", f"get_set({k!r}) after {fam[:fam.index(k)]}: got {got[:2]} getter ran {ran[k]}x"); break
                    if not bad:
                        c.rmv(fam[0])
                        for k in fam[1:]:
                            if k not in c: bad = (f"M3/{inner_kind}/near-equal-keys/rmv-removed-another-key", f"rmv({fam[0]!r}) removed {k!r}"); break
                            with c.get_set(k, lambda: ["never"]) as f: got = [l.rstrip("\n") for l in f]
                            if got != [f"{k}:{j}" for j in range(3)]: bad = (f"M3/{inner_kind}/near-equal-keys/wrong-value-after-rmv-of-another-key", f"{k!r} reads {got[:2]}"); break
                    ctx.count("cachers.near-equal-keys"); ctx.case(("near-equal", inner_kind, wrap, tuple(fam)))
                    for k in fam: c.rmv(k)
                    if bad: viol.append(bad)
    finally:
        shutil.rmtree(d, ignore_errors=True)
    return viol

# ====================================================================================== part B2: MemoryCacher getter failures
def memory_faults(ctx, rng, n_values):
    """a getter (callable returning a generator, a generator object, a callable raising at once) that fails part-way must not
    leave an entry behind: the next get_set for the key runs its getter and serves the complete value"""
    import coba.context.cachers as cc
    viol = []
    for vi in range(n_values):
        n = rng.choice([1, 2, 4])
        want = [f"m{vi}:{i}" for i in range(n)]
        for kind in ("callable->generator", "generator-object", "callable-raises"):
            for fail_at in range(n + 1 if kind != "callable-raises" else 1):
                for wrap in ("plain", "concurrent", "plain-interrupted", "concurrent-interrupted"):
                    inner = cc.MemoryCacher()
                    c = inner if wrap.startswith("plain") else cc.ConcurrentCacher(inner)
                    Boom = GetterBoom if not wrap.endswith("-interrupted") else rng.choice([KeyboardInterrupt, SystemExit, _Cut])
                    def gen():
                        for j, x in enumerate(want):
                            if j == fail_at: raise Boom("memory")
                            yield x
                        if fail_at == n: raise Boom("memory")
                    def boom(): raise Boom("memory")
                    getter = gen if kind == "callable->generator" else gen() if kind == "generator-object" else boom
                    try:
                        with c.get_set("k", getter) as v: got0 = v
                        raised = False
                    except (GetterBoom, KeyboardInterrupt, SystemExit, _Cut): raised = True
                    ctx.count("memory.getter-fault"); ctx.case(("memory", kind, n, fail_at, wrap))
                    if not raised:
                        viol.append((f"M6/memory/{kind}-failure-swallowed", f"getter failing at step {fail_at} of {n} was not raised (served {got0!r})")); continue
                    calls = []
                    def good():
                        calls.append(1); return list(want)
                    try:
                        with c.get_set("k", good) as v: got = list(v) if v is not None else v
                    except Exception as e:
                        viol.append((f"M4/memory/{kind}{'-interrupted' if wrap.endswith('-interrupted') else ''}-failure-leaves-lock-held", f"after a getter cut by {Boom.__name__} at step {fail_at}: the next get_set raised {type(e).__name__}: {e}")); continue
                    if got != want or not calls:
                        viol.append((f"M6/memory/{kind}-failure-leaves-entry-served-as-complete", f"after a getter that failed at step {fail_at}: next get_set served {got!r} (getter ran {len(calls)}x) instead of {want}"))
                    if wrap.startswith("concurrent") and any(x != 0 for x in c._array):
                        viol.append(("M4/memory/shared-counter-not-zero-after-getter-failure", "counters not zero")); 
    return viol

# ====================================================================================== part C: real threads
def thread_stress(ctx, rng, runs):
    import coba.context.cachers as cc
    viol = []
    mon = sys.monitoring; TOOL = 4
    try: mon.use_tool_id(TOOL, "vf-c19")
    except ValueError: pass
    prng = random.Random(rng.randrange(1 << 30))
    def on_line(code, line):
        if prng.random() < .2: time.sleep(prng.random() * .0005)
    mon.register_callback(TOOL, mon.events.LINE, on_line)
    codes = [getattr(cc.ConcurrentCacher, n).__code__ for n in ("get_set", "rmv", "_acquire_read_lock", "_release_read_lock", "_acquire_write_lock",
             "_release_write_lock", "_switch_write_to_read_lock")] + [cc.MemoryCacher.get_set.__code__]
    for c in codes: mon.set_local_events(TOOL, c, mon.events.LINE)
    class FastTime:
        @staticmethod
        def sleep(s): time.sleep(.0005)
    old = cc.time; cc.time = FastTime
    try:
        for r in range(runs):
            cacher = cc.ConcurrentCacher(cc.MemoryCacher())
            calls = Counter(); errs = []; lock = threading.Lock()
            keys = rng.choice([["a"], ["a", "b"], [COLL[0], COLL[1]]])
            def getter_for(k):
                def g():
                    with lock: calls[k] += 1
                    time.sleep(.0003)
                    return full_value(k, 3)
                return g
            def worker(seed):
                wr = random.Random(seed)
                try:
                    for _ in range(6):
                        k = wr.choice(keys)
                        with cacher.get_set(k, getter_for(k)) as v:
                            ctx.count("threads.M3.complete-value")
                            if v != full_value(k, 3): errs.append(("M3/threads/partial-value-served", f"{v}"))
                except Exception as e:
                    errs.append((f"threads/caller-exception/{type(e).__name__}", str(e)))
            ths = [threading.Thread(target=worker, args=(rng.randrange(1 << 30),), daemon=True) for _ in range(rng.choice([2, 3, 4]))]
            for t in ths: t.start()
            for t in ths: t.join(60)
            ctx.count("threads.runs"); ctx.case(("threads", len(ths), len(keys), r))
            if any(t.is_alive() for t in ths):
                ctx.note_inconclusive("thread-stress-watchdog"); continue
            viol.extend(errs)
            for k, n in calls.items():
                if n > 1: viol.append(("M2/threads/getter-ran-more-than-once", f"getter of {k!r} ran {n} times without any removal"))
            if any(v != 0 for v in cacher._array): viol.append(("M4/threads/shared-counter-not-zero-at-quiescence", "non-zero counters after all threads finished"))
    finally:
        cc.time = old
        for c in codes: mon.set_local_events(TOOL, c, 0)
        mon.free_tool_id(TOOL)
    return viol

# ====================================================================================== part D: real processes
def process_stress(ctx, rng, runs):
    import subprocess, json
    viol = []
    for r in range(runs):
        wd = tempfile.mkdtemp(prefix="vf-c19mp-")
        try:
            outp = os.path.join(wd, "out.json")
            try:
                p = subprocess.run([sys.executable, "-W", "ignore", "-m", "vf.c19_mp", wd, str(rng.randrange(1 << 30)), outp], timeout=150, capture_output=True, text=True)
            except subprocess.TimeoutExpired:
                ctx.note_inconclusive("process-stress-timeout"); continue
            if not os.path.exists(outp):
                ctx.note_inconclusive(f"process-stress-no-output: {p.stderr[-300:]}"); continue
            out = json.load(open(outp))
            ev = []
            for line in open(os.path.join(wd, "events.log")) if os.path.exists(os.path.join(wd, "events.log")) else []:
                a = line.split()
                if len(a) >= 4: ev.append((float(a[0]), a[1], a[2], a[3], a[4] if len(a) > 4 else ""))
            ev.sort()
            ctx.count("procs.runs"); ctx.count("procs.events", len(ev)); ctx.case(("procs", out["n"], len(out["keys"]), r))
            if out["hung"]:
                ctx.note_inconclusive(f"process-stress-hung-workers {out['hung']}"); continue
            last = {}
            for t, kind, key, pid, extra in ev:
                if kind == "G":
                    ctx.count("procs.M2.getter")
                    if last.get(key) == "G": viol.append(("M2/procs/getter-ran-twice-without-removal", f"getter of {key!r} ran again while the entry stayed cached"))
                    last[key] = "G"
                elif kind == "R": last[key] = "R"
                elif kind == "V":
                    ctx.count("procs.M3.complete-value")
                    if extra != "ok": viol.append(("M3/procs/partial-value-served", f"a process read {extra} for {key!r}"))
                elif kind == "E":
                    viol.append((f"procs/caller-exception/{extra or pid}", f"a caller raised for {key!r}"))
            ctx.count("procs.M4.quiescence")
            if out["nonzero_counters"]: viol.append(("M4/procs/shared-counter-not-zero-at-quiescence", f"{out['nonzero_counters']} counters are non-zero after all processes left"))
        finally:
            shutil.rmtree(wd, ignore_errors=True)
    return viol

# ====================================================================================== part E: the cacher CobaMultiprocessor builds
def coba_multiprocessor_cacher(ctx, rng, runs):
    import subprocess, json
    viol = []
    for r in range(runs):
        wd = tempfile.mkdtemp(prefix="vf-c19cm-")
        try:
            outp = os.path.join(wd, "out.json")
            try:
                subprocess.run([sys.executable, "-W", "ignore", "-m", "vf.c19_cm", wd, str(rng.randrange(1 << 30)), outp], timeout=150, capture_output=True, text=True)
            except subprocess.TimeoutExpired:
                ctx.note_inconclusive("coba-multiprocessor-cacher-timeout"); continue
            if not os.path.exists(outp):
                ctx.note_inconclusive("coba-multiprocessor-cacher-no-output"); continue
            out = json.load(open(outp))
            ctx.count("cm.runs"); ctx.case(("cm", out["nkeys"], out["nproc"], out["nitems"], r))
            if out.get("raised"): viol.append(("cm/call-raised", out["raised"])); continue
            outs = out.get("outputs", [])
            ctx.count("cm.M3.complete-value", len(outs))
            bad = [o for o in outs if o[0] != "ok"]
            if bad: viol.append((f"M3/cm/{'caller-exception' if bad[0][0].startswith('raise') else 'partial-value-served'}", f"workers of one CobaMultiprocessor run got {bad[:3]}"))
            if len(outs) != out["nitems"]: viol.append(("cm/lost-outputs", f"{len(outs)} outputs for {out['nitems']} items"))
            ctx.count("cm.M2.getter", len(out["getter_calls"]))
            twice = {k: n for k, n in Counter(out["getter_calls"]).items() if n > 1}
            if twice: viol.append(("M2/cm/getter-ran-more-than-once", f"getter calls per key {twice} although nothing was removed ({out['nproc']} worker processes)"))
        finally:
            shutil.rmtree(wd, ignore_errors=True)
    return viol

# ====================================================================================== entry points
def run_shard(ctx):
    cnt = Counter()
    n_sched = ctx.n
    # part B and C take a fixed small share of every shard
    for sig, what in disk_faults(ctx, ctx.rng, 2 if ctx.tier == "quick" else 12): ctx.violation(sig, what, {"part": "disk"})
    for sig, what in memory_faults(ctx, ctx.rng, 2 if ctx.tier == "quick" else 12): ctx.violation(sig, what, {"part": "memory"})
    for sig, what in thread_stress(ctx, ctx.rng, 3 if ctx.tier == "quick" else 40): ctx.violation(sig, what, {"part": "threads"})
    from vf import c19_openml
    for sig, what in c19_openml.run(ctx, ctx.rng, 6 if ctx.tier == "quick" else 60): ctx.violation(sig, what, {"part": "openml-client"})
    if ctx.shard % 4 == 0 or ctx.tier == "thorough":
        for sig, what in process_stress(ctx, ctx.rng, 1 if ctx.tier == "quick" else 6): ctx.violation(sig, what, {"part": "processes"})
        for sig, what in coba_multiprocessor_cacher(ctx, ctx.rng, 2 if ctx.tier == "quick" else 8): ctx.violation(sig, what, {"part": "coba-multiprocessor"})
    i = 0
    while i < n_sched and ctx.time_left() > 0:
        spec = gen_case(ctx.rng)
        v, s = check_case(spec, ctx, cnt)
        if i < 1: ctx.sample({"callers": spec["callers"], "mode": spec["mode"], "trace_head": s.trace[:25], "trace_len": len(s.trace)})
        for sig, what in v: ctx.violation(sig, what, spec)
        i += 1
    for k, n in cnt.items(): ctx.count(k, n)
    if i < n_sched: ctx.extra["schedules_skipped_for_time"] = n_sched - i

def replay(witness):
    if "callers" not in witness: return []
    return check_case(witness)[0]
