"""C12 -- What coba reads from a dataset file is what the file says.

Three oracles, all run against the real coba readers / sources / sinks:

 * table   : a generated table is serialised by *our own* writers in the common dialect that was fixed before looking
             at any failure (ARFF dense/sparse exactly as Weka's ArffSaver / Utils.quote emit it, CSV exactly as Python's
             csv.writer QUOTE_MINIMAL emits it, LibSVM / Manik in their plain single-space form) and parsed by the real
             ArffReader / CsvReader / LibsvmReader / ManikReader (directly on lines, through DiskSource via
             ArffSource/CsvSource/..., through HttpSource._byte_it_, or through ArffSource/CsvSource/...("http://...") with
             urlopen answering with a real http.client.HTTPResponse built from the bytes a server would send).  Common dialect: the parsed table must equal the
             written table.  Dialect fuzzer (quote style, escapes, keyword case, comments, blank lines, tabs, blanks
             after commas, line terminators left on the lines, indentation ...): equal to the table *or* an exception.
 * chunk   : HttpSource._byte_it_(encoding, charset, chunk, bytes) for ALL chunk sizes 1..len(bytes) (and the 10MB chunk
             coba's OpenML client uses) x {identity, gzip, deflate} (stored and compressed blocks) must give
             text.splitlines().  Long bodies (KBs .. 100s of KBs, redundancy from none to ~1000:1 inflation, so that one
             compressed chunk stands for many times its size of text) are read with chunk sizes on both sides of the
             stream length (1, 3, 7, .. 64K, len-1, len, len+7, 10MB, two random fractions of len).  A fifth of the short texts
             hold NEL / LS / PS characters (line ends for str.splitlines only): one and the same reading for every chunk size.
 * disk    : DiskSink(path).write(lines) -> DiskSource(path).read() must give the lines back (plain and .gz, batches,
             also files of thousands of lines; sinks opened in 'a' or 'w' mode, a 'w' sink gets one write call).
 Long tables: a table spec with "repeat": k is the table with its rows k times over (the long, few-distinct-rows files
 that compress very well); they are mostly delivered gzip/deflate compressed through _byte_it_ (1 byte .. 10MB chunks)
 or as .gz files and must parse to the same (long) table.

A failing table/disk case is shrunk (rows, columns, characters, dialect flags) before its signature is built, so that
signatures name the mechanism (format, the dialect flags that are needed, where the difference is, which kinds of
characters are needed, failure mode) and not the random case.
"""
import os, io, csv, gzip, zlib, shutil, tempfile, atexit, copy
from collections import Counter

ID    = "C12"
LEVEL = "exploration"
RULE  = ("table cases: seeded table (1-5 typed columns, 0-6 rows, names/levels/values drawn from character classes "
         "space , ' \" \\ % ? { } 2/3/4-byte unicode) x format {arff-dense, arff-sparse, csv, libsvm, manik} x dialect "
         "(common | 1-3 grammar-permitted respellings) x delivery {lines, DiskSource plain/.gz, _byte_it_}; distinct & "
         "non-trivial = distinct (format, dialect flags, delivery, column types, character classes per locus, "
         "missing-present, fractional number present) with >= 1 row; the numeric keywords numeric / real / integer are used whatever "
         "the values are, numbers are spelled plain or in exponent notation; delivery http = the source classes on an http:// url "
         "(identity / gzip / deflate body, content-length / chunked / until-close framing).  chunk cases: seeded text (terminators LF/CRLF/CR/mixed, final terminator or "
         "not, 1-4 byte characters, 20% with NEL/LS/PS characters) x 5 byte streams (identity, gzip/deflate stored + compressed) x EVERY chunk size "
         "1..len(stream) and 10MB; distinct = (terminator set, character widths, final?, charset, stream, stream length).  "
         "long-body chunk cases: vocabulary of 1-40 lines (0-80 chars, 1-4 byte characters) laid out cyclic / in runs / "
         "seeded-random to 3KB-300KB, optional incompressible head/tail, x (identity, gzip, deflate at level 0/1/6/9) x ~15 "
         "chunk sizes below, at and above the stream length; distinct = (terminators, widths, final?, charset, stream, level, "
         "inflation class, layout, noise).  long tables (1% of table cases): rows x 40/200/1000, delivered mostly "
         "compressed in chunks of 1 byte .. 10MB or as .gz.  disk cases: seeded line lists x {plain,.gz} x sink mode {default,a,w} x batch x number "
         "of write calls, 3% of them x 50/300/1500")
PLAN  = {"quick":    {"shards": 16, "cases": 160000,  "timeout": 600,  "budget_s": 70},
         "thorough": {"shards": 16, "cases": 6000000, "timeout": 3000, "budget_s": 840}}
REQUIRED = ["oracle.table.arff_dense.common", "oracle.table.arff_sparse.common", "oracle.table.csv.common",
            "oracle.table.libsvm.common", "oracle.table.manik.common", "oracle.table.variant.equal",
            "oracle.table.missing-flag", "oracle.table.arff_sparse.empty-braces-row", "oracle.table.delivery.disk", "oracle.table.delivery.chunk",
            "oracle.table.delivery.http", "oracle.table.delivery.http.identity.equal", "oracle.table.delivery.http.gzip.equal", "oracle.table.delivery.http.deflate.equal",
            "oracle.chunk.identity", "oracle.chunk.gzip", "oracle.chunk.deflate",
            "oracle.chunk.boundary-inside-character", "oracle.chunk.boundary-between-cr-and-lf",
            "oracle.chunk.unicode-line-separator-in-text", "oracle.chunk.boundary-after-unicode-line-separator",
            "oracle.chunk.long.identity", "oracle.chunk.long.gzip", "oracle.chunk.long.deflate", "oracle.chunk.long.inflation-over-100",
            "oracle.chunk.long.inflation-10-100", "oracle.chunk.long.inflation-under-10", "oracle.chunk.long.body-in-one-chunk",
            "oracle.chunk.long.several-chunks", "oracle.table.many-rows", "oracle.table.many-rows.compressed",
            "oracle.table.many-rows.compressed.body-in-one-chunk", "oracle.table.many-rows.compressed.several-chunks",
            "oracle.disk.plain", "oracle.disk.gz", "oracle.disk.many-lines.gz", "oracle.disk.many-lines.plain",
            "oracle.disk.mode-w.several-batches", "oracle.disk.mode-a.several-batches",
            "oracle.table.arff.integer-attribute.fractional-value", "oracle.table.arff.real-attribute.fractional-value",
            "oracle.table.arff.exponent-notation.fractional-value",
            "reach.ArffLineReader._dense_simple", "reach.ArffLineReader._dense_advanced", "reach.ArffLineReader._sparse"]
ASSUMPTIONS = [
    "common dialect = what Weka's ArffSaver (Utils.quote/backQuoteChars, no blanks after commas, lower-case keywords, "
    "sparse rows omit numeric 0 / first nominal level and always spell string values) and csv.writer(QUOTE_MINIMAL, "
    "CRLF) emit for the generated value classes; LibSVM/Manik: single blanks, ascending integer keys, %r floats",
    "format-lossy values are not generated: ARFF string values '' and exactly '?', tab/CR/LF inside ARFF tokens, CR "
    "inside CSV fields (line delivery cannot tell CR from LF), None in CSV, LibSVM labels are compared as strings, "
    "numbers are compared by float value (1 == 1.0)",
    "sparse ARFF: coba documents that it adds a level '0' in front of every nominal attribute and reads an omitted "
    "nominal as '0'; the oracle accepts that normalisation (an omitted nominal may read as '0' or the first level, "
    "declared levels are compared after removing the added '0')",
    "rows without a label in LibSVM/Manik files are skipped by design and are not generated; an empty CSV without a "
    "header is not generated",
    "chunk oracle: texts never contain the ASCII control characters str.splitlines breaks on (VT, FF, FS, GS, RS); for texts "
    "with NEL / LS / PS (non-ASCII characters str.splitlines also breaks on) the lines must be text.splitlines() or the "
    "CR/LF/CRLF lines of the text -- the statement does not say which -- but the same reading for every chunk size and "
    "content encoding of one text; 'deflate' is "
    "the raw deflate stream coba decodes (zlib-wrapped deflate is only checked as equal-or-raise)",
    "disk oracle: written lines never contain CR or LF; a sink opened in 'w' mode receives one write call (what several calls "
    "leave behind is not said by the statement), the file does not exist before",
    "http delivery: the response is a real http.client.HTTPResponse over the bytes of an HTTP/1.1 answer (no socket); "
    "Content-Encoding deflate is the raw deflate stream coba decodes",
    "ARFF: numeric, real and integer are three keywords of one type (Weka ARFF specification), so a column declared under "
    "any of them may hold any number; such files are respellings (equal or raise), not the common dialect",
    "long tables / long files repeat the generated rows / lines (duplicate rows are ordinary data in every format); "
    "long-body texts are rebuilt from the seeds in the spec with random.Random (same interpreter => same text)",
]

# ================================================================================================= character classes
CLASSES = {"space": " ", "comma": ",", "squote": "'", "dquote": '"', "backslash": "\\", "percent": "%", "qmark": "?",
           "lbrace": "{", "rbrace": "}", "u2": "\u00e9", "u3": "\u20ac", "u4": "\U0001F600", "colon": ":", "semi": ";",
           "newline": "\n", "tab": "\t", "pipe": "|", "hash": "#", "at": "@"}
_INV = {v: k for k, v in CLASSES.items()}
PLAIN = "abcxyzABZ0129_-."
ARFF_CLASSES = ["space", "comma", "squote", "dquote", "backslash", "percent", "qmark", "lbrace", "rbrace", "u2", "u3", "u4"]
CSV_CLASSES  = ARFF_CLASSES + ["newline", "tab", "semi", "pipe"]
NASTY_ARFF = [",?,", " ?,", "?,", ",?", "?}", " ?}", "a b", " a", "a ", "''", '""', "a\\", "\\a", "{}", "{0 1}", "%a", "a%",
              "it's", 'say "x"', "a,b", "a, b", "@data", "0", "1.5", "'a'", "\\'", "a'b\"c", "x\\y"]
NASTY_CSV  = [" a", "a ", " ", "x\ny", "\nx", "x\n", "x\n\ny", 'q"r', '"', '""', "a,b", ",", "", "a\tb", "\ta", "a\t", "'a'", "a;b"]

def features(tok):
    """character classes present in a token (mechanism-level: no concrete characters)"""
    f = set()
    for c in tok:
        if c in _INV: f.add(_INV[c])
        elif ord(c) > 127: f.add("u2" if ord(c) < 0x800 else "u3" if ord(c) < 0x10000 else "u4")
    if tok[:1] in (" ", "\t"):  f.add("leading-blank")
    if tok[-1:] in (" ", "\t"): f.add("trailing-blank")
    if tok[-1:] == "\\": f.add("trailing-backslash")
    if tok == "":  f.add("empty")
    if tok == "?": f.add("is-qmark")
    return f

def gen_token(rng, level, classes, nasty, allow_empty=False):
    if level >= 2 and rng.random() < .12:
        return rng.choice(nasty)
    n = rng.choice([1, 1, 2, 3, 3, 4, 6])
    if allow_empty and rng.random() < .04: n = 0
    if level == 0: pool = []
    elif level == 1: pool = [rng.choice(classes)]
    else: pool = classes
    out = []
    for _ in range(n):
        if pool and rng.random() < (.35 if level == 1 else .45): out.append(CLASSES[rng.choice(pool)])
        else: out.append(rng.choice(PLAIN))
    return "".join(out)

def _uniq(rng, n, make, bad=()):
    seen, out = set(bad), []
    for i in range(n):
        for _ in range(30):
            t = make()
            if t not in seen: break
        else: t = f"u{i}q"
        seen.add(t); out.append(t)
    return out

# ================================================================================================= generators
NUMS = [0, 0, 1, 1, 2, -1, 3, 7, 10, 100, 0.5, -0.25, 1.5, 2.75, 3.125, 12.5, -7.0625, 0.001, 123456, 1000000]

def gen_tabular(rng, fmt):
    """spec of an ARFF / CSV table"""
    level = rng.choice([0, 1, 1, 2, 2, 2])
    arff = fmt.startswith("arff")
    classes = ARFF_CLASSES if arff else CSV_CLASSES
    nasty   = NASTY_ARFF if arff else NASTY_CSV
    ok = (lambda t: t not in ("", "?")) if arff else (lambda t: True)
    def tok(empty=False):
        for _ in range(30):
            t = gen_token(rng, level, classes, nasty, allow_empty=empty and not arff)
            if ok(t): return t
        return "v"
    ncols = rng.choice([1, 2, 2, 3, 3, 4, 5])
    nrows = rng.choice([0, 1, 1, 2, 3, 4, 6])
    # attribute / header names: ARFF names follow the same quoting rules as values
    names = _uniq(rng, ncols, lambda: tok() if rng.random() < .5 else gen_token(rng, 0, [], []))
    cols = []
    for n in names:
        if arff:
            ty = rng.choice(["numeric", "numeric", "nominal", "nominal", "string", "date"]) if fmt == "arff_dense" else \
                 rng.choice(["numeric", "numeric", "numeric", "nominal", "nominal", "string"])
        else: ty = "string"
        c = {"name": n, "type": ty}
        if ty == "nominal":
            c["levels"] = _uniq(rng, rng.choice([1, 2, 3, 4]), tok)
        if ty == "date":
            c["format"] = rng.choice(["yyyy-MM-dd", "yyyy-MM-dd'T'HH:mm:ss", "yyyy-MM-dd HH:mm"])
        cols.append(c)
    pmiss = rng.choice([0, 0, .15, .4]) if arff else 0
    rows = []
    for _ in range(nrows):
        r = []
        for c in cols:
            if rng.random() < pmiss: r.append(None)
            elif c["type"] == "numeric": r.append(rng.choice(NUMS))
            elif c["type"] == "nominal": r.append(rng.randrange(len(c["levels"])))
            elif c["type"] == "date":
                d = "2021-03-0%d" % rng.randint(1, 9)
                r.append(d if c["format"] == "yyyy-MM-dd" else d + ("T" if "T" in c["format"] else " ") + "10:1%d" % rng.randint(0, 9) + (":00" if "ss" in c["format"] else ""))
            else: r.append(tok(empty=True))
        if fmt == "arff_sparse" and rng.random() < .12:      # a row that Weka writes as {}
            r = [(0 if c["type"] in ("numeric", "nominal") else v) for c, v in zip(cols, r)]
        rows.append(r)
    spec = {"kind": "table", "fmt": fmt, "relation": tok() if arff else None, "cols": cols, "rows": rows}
    if fmt == "csv":
        spec["header"] = rng.random() < .6 or nrows == 0
    return spec

def gen_svm(rng, fmt):
    nrows = rng.choice([0, 1, 2, 3, 5])
    labkind = rng.choice(["int", "signed", "float", "name", "multi"])
    rows = []
    for _ in range(nrows):
        def lab():
            if labkind == "int": return str(rng.randint(0, 9))
            if labkind == "signed": return rng.choice(["+1", "-1"])
            if labkind == "float": return rng.choice(["0.5", "1.25", "-3.0", "1e3"])
            return rng.choice(["cat", "dog", "A_1", "x-y", "\u00e9t\u00e9"])
        labels = [lab()] if labkind != "multi" else _uniq(rng, rng.choice([1, 2, 3]), lambda: str(rng.randint(0, 30)))
        keys = sorted(rng.sample(range(0, 40), rng.choice([0, 1, 2, 3, 5])))
        feats = [[k, rng.choice([1, 1, 2, 0.5, -1.5, 0.001, 3.25, 1000, 0])] for k in keys]
        rows.append({"labels": labels, "feats": feats})
    return {"kind": "table", "fmt": fmt, "rows": rows}

ARFF_FLAGS   = ["quote_double", "quote_all", "min_escape", "kw_upper", "kw_title", "num_real", "num_integer", "num_integer", "num_exp",
                "comments", "blanks", "tab", "space_comma", "indent", "term_lf", "term_crlf"]
SPARSE_FLAGS = ["quote_double", "quote_all", "min_escape", "kw_upper", "kw_title", "num_real", "num_integer", "num_integer", "num_exp",
                "comments", "blanks", "space_comma", "pad_braces", "indent", "term_lf", "term_crlf"]
CSV_FLAGS    = ["quote_all", "quote_nonnumeric", "delim_tab", "delim_semi", "delim_pipe", "quotechar_single", "blanks",
                "term_lf", "term_crlf", "lf_rows"]
SVM_FLAGS    = ["trailing_blanks", "blanks", "tab", "double_space", "term_lf", "term_crlf"]
FLAGS = {"arff_dense": ARFF_FLAGS, "arff_sparse": SPARSE_FLAGS, "csv": CSV_FLAGS, "libsvm": SVM_FLAGS, "manik": SVM_FLAGS}
EXCLUSIVE = [{"kw_upper", "kw_title"}, {"num_real", "num_integer"}, {"term_lf", "term_crlf"}, {"quote_all", "quote_nonnumeric"},
             {"delim_tab", "delim_semi", "delim_pipe"}, {"tab", "space_comma"}, {"tab", "double_space"}]

def gen_variant(rng, fmt):
    if rng.random() < .5: return []
    k = rng.choice([1, 1, 2, 3])
    fl = set()
    for f in rng.sample(FLAGS[fmt], k):
        if any(f in g and (fl & g) for g in EXCLUSIVE): continue
        fl.add(f)
    return sorted(fl)

def gen_delivery(rng):
    r = rng.random()
    if r < .68: return {"how": "lines"}
    if r < .78: return {"how": "disk"}
    if r < .85: return {"how": "diskgz"}
    if r < .90:      # the file sits behind an http:// url and is read with the same ArffSource / CsvSource / ... as a local file
        return {"how": "http", "enc": rng.choice([None, None, "gzip", "deflate"]), "framing": rng.choice(["content-length", "chunked", "until-close"])}
    return {"how": "chunk", "enc": rng.choice([None, None, "gzip", "deflate"]), "chunk": rng.choice([1, 2, 3, 5, 7, 16, 64, 1000])}

def gen_text(rng):
    widths = rng.choice([[1], [1, 2], [1, 3], [1, 4], [1, 2, 3, 4], [2, 3, 4]])
    alpha = {1: "ab,1 ", 2: "\u00e9\u00df\u03a9", 3: "\u20ac\u4e2d\u2713", 4: "\U0001F600\U00010348"}
    termmode = rng.choice(["lf", "crlf", "cr", "mixed", "mixed"])
    nlines = rng.choice([0, 1, 2, 3, 4, 6, 9])
    final = rng.random() < .6
    parts = []
    for i in range(nlines):
        n = rng.choice([0, 0, 1, 2, 3, 5, 9])
        parts.append("".join(rng.choice(alpha[rng.choice(widths)]) for _ in range(n)))
        if i < nlines - 1 or final:
            parts.append({"lf": "\n", "crlf": "\r\n", "cr": "\r"}.get(termmode) or rng.choice(["\n", "\r\n", "\r", "\r\n", "\n\r"]))
    text = "".join(parts)
    if rng.random() < .2 and text:
        # non-ASCII characters that str.splitlines takes for line ends (NEL, LS, PS) at a few places of the text: in front of /
        # behind a terminator, inside a line, at the very end
        t = list(text)
        for _ in range(rng.choice([1, 1, 2, 3])):
            t.insert(rng.randint(0, len(t)), rng.choice(UNI_SEPS))
        text = "".join(t)
    charset = "utf-8" if rng.random() < .85 else "utf-16"
    while len(text.encode(charset)) > 300: text = text[:-1]
    return {"kind": "chunk", "text": text, "charset": charset}

UNI_SEPS = "\x85\u2028\u2029"                    # non-ASCII characters str.splitlines breaks on
ALL_SEPS = UNI_SEPS + "\x0b\x0c\x1c\x1d\x1e"      # ... and the ASCII control characters it breaks on (never generated)
def _universal_lines(text):
    """the lines of a text whose lines end in CR, LF or CRLF only (what open(newline=None) / DiskSource give)"""
    import re
    lines = re.split("\r\n|\r|\n", text)
    if lines[-1] == "": lines.pop()
    return lines

B62 = "abcdefghijklmnopqrstuvwxyzABCDEFGHIJKLMNOPQRSTUVWXYZ0123456789"
BIG_CHUNK = 10 * 1024 * 1024          # the chunk size coba's OpenML client passes to HttpSource

def gen_longtext(rng):
    """a long body (KBs .. 100s of KBs) whose redundancy is a parameter: a vocabulary of 1..40 lines laid out cyclically,
    in runs or in seeded random order (inflation ratios from ~3:1 to ~1000:1), optionally with incompressible lines in
    front / behind, read with a handful of chunk sizes on both sides of the stream length"""
    widths = rng.choice([[1], [1], [1, 2], [1, 3], [1, 4], [1, 2, 3, 4]])
    alpha = {1: "ab,1 '", 2: "\u00e9\u00df\u03a9", 3: "\u20ac\u4e2d\u2713", 4: "\U0001F600\U00010348"}
    termmode = rng.choice(["lf", "lf", "crlf", "cr", "mixed"])
    term = lambda: {"lf": "\n", "crlf": "\r\n", "cr": "\r"}.get(termmode) or rng.choice(["\n", "\r\n", "\r", "\r\n", "\n\r"])
    nv, linelen = rng.choice([1, 1, 2, 3, 3, 8, 40]), rng.choice([0, 1, 4, 12, 30, 80])
    vocab = []
    for _ in range(nv):
        n = rng.randint(0, linelen) if rng.random() < .5 else linelen
        vocab.append("".join(rng.choice(alpha[rng.choice(widths)]) for _ in range(n)) + term())
    charset = "utf-8" if rng.random() < .85 else "utf-16"
    avg = max(1, sum(len(v.encode(charset)) for v in vocab) // nv)
    nlines = max(50, min(40000, rng.choice([3000, 20000, 90000, 300000]) // avg))
    lv = lambda: rng.choice([1, 6, 6, 9, 9, 0])
    sizes = [1, 3, 7, 16, 64, 257, 1000, 4096, 65536, "len-1", "len", "len+7", BIG_CHUNK, ["frac", round(rng.random(), 3)], ["frac", round(rng.random() ** 3, 4)]]
    return {"kind": "chunk", "vocab": vocab, "nlines": nlines, "final": rng.random() < .6, "charset": charset,
            "order": {"mode": rng.choice(["cycle", "runs", "random"]), "run": rng.choice([1, 5, 50, 400]), "seed": rng.randrange(1 << 30)},
            "noise": {"where": rng.choice(["none", "none", "head", "tail", "both"]), "n": rng.choice([5, 50, 400]), "seed": rng.randrange(1 << 30)},
            "streams": [["identity", 6], ["gzip", lv()], ["deflate", lv()]], "sizes": sizes}

def gen_disk(rng):
    n = rng.choice([0, 1, 2, 3, 5, 8])
    level = rng.choice([0, 1, 2])
    lines = []
    for _ in range(n):
        r = rng.random()
        if r < .15: lines.append("")
        elif level == 0: lines.append(gen_token(rng, 0, [], []))
        else:
            t = gen_token(rng, 2, ARFF_CLASSES + ["tab"], [" a", "a ", " ", "\t", "a\t", "  ", "\u2028", "a\u2028b", "a\x0c", "\x85b", "a\x1c", "\ufeffa", "a\x0b"])
            lines.append(t)
    nwrites = rng.choice([1, 1, 2, 3])
    spec = {"kind": "disk", "lines": lines, "gz": rng.random() < .5, "batch": rng.choice([None, None, 1, 2, 3]),
            "cuts": sorted(rng.randint(0, n) for _ in range(nwrites - 1))}
    if rng.random() < .3:
        # the sink's open mode: 'a' (append) or 'w' (a new file).  What several write calls on one 'w' sink leave behind is not
        # said by the statement (every call starts the file again), so a 'w' sink gets ONE write call -- whose lines, written
        # in however many batches, are what the file must hold
        spec["mode"] = rng.choice(["w", "w", "a"])
        if spec["mode"] == "w": spec["cuts"] = []
    if n and rng.random() < .03:         # the same lines many times over: a long (and, as .gz, very compressible) file
        spec["repeat"] = rng.choice([50, 300, 1500])
        spec["batch"] = rng.choice([None, None, 1, 3, 100, 1000] if spec["repeat"] <= 300 else [None, None, 100, 1000])
    return spec

def gen_case(rng):
    r = rng.random()
    if r < .90:
        fmt = rng.choice(["arff_dense", "arff_dense", "arff_dense", "arff_sparse", "arff_sparse", "csv", "csv", "libsvm", "manik"])
        spec = gen_tabular(rng, fmt) if fmt in ("arff_dense", "arff_sparse", "csv") else gen_svm(rng, fmt)
        spec["variant"] = gen_variant(rng, fmt)
        if fmt == "csv" and "term_crlf" in spec["variant"] and any("\n" in v for r in spec["rows"] for v in r):
            spec["variant"].remove("term_crlf")      # would make the written line break inside a field ambiguous
        spec["delivery"] = gen_delivery(rng)
        if spec["rows"] and rng.random() < .01:
            # a long table: the generated rows many times over (files with few distinct rows -- indicator / one-hot tables --
            # are long AND inflate to many times their compressed size), mostly delivered compressed and in chunks
            spec["repeat"] = rng.choice([40, 200, 1000])
            q = rng.random()
            if q < .70:
                spec["delivery"] = {"how": "chunk", "enc": rng.choice([None, "gzip", "gzip", "deflate", "deflate"]),
                                    "chunk": rng.choice([1, 7, 64, 1000, 4096, 65536, BIG_CHUNK, BIG_CHUNK])}
            elif q < .85: spec["delivery"] = {"how": "diskgz"}
        return spec
    if r < .93: return gen_text(rng)
    if r < .933: return gen_longtext(rng)
    return gen_disk(rng)

# ================================================================================================= our own writers
_BACKQ = {"\\": "\\\\", "'": "\\'", "\t": "\\t", "\n": "\\n", "\r": "\\r", '"': '\\"', "%": "\\%", "\x1e": "\\u001E"}
def weka_quote(s):
    """weka.core.Utils.quote"""
    quote = False
    if any(c in s for c in "\n\r'\"\\\t%\x1e"):
        s = "".join(_BACKQ.get(c, c) for c in s); quote = True
    if quote or any(c in s for c in "{}, ") or s == "?" or s == "":
        s = "'" + s + "'"
    return s

def fuzz_quote(s, V, force=False):
    """grammar-permitted respellings of one ARFF token"""
    q = '"' if "quote_double" in V else "'"
    needs = force or "quote_all" in V or any(c in s for c in "\n\r'\"\\\t%\x1e{}, ") or s in ("?", "")
    if not needs: return s
    if "min_escape" in V:     # only what the grammar needs: the backslash and the quote character in use
        body = s.replace("\\", "\\\\").replace(q, "\\" + q)
    else:
        body = "".join(_BACKQ.get(c, c) for c in s)
    return q + body + q

def _num(v):
    return str(int(v)) if float(v) == int(v) else repr(float(v))

def arff_lines(spec):
    V = set(spec["variant"])
    Q = weka_quote if not (V & {"quote_double", "quote_all", "min_escape"}) else (lambda s: fuzz_quote(s, V))
    kw = (lambda s: s.upper()) if "kw_upper" in V else (lambda s: s[0] + s[1:].title() if s[0] == "@" else s.title()) if "kw_title" in V else (lambda s: s)
    sep = "\t" if "tab" in V else ", " if "space_comma" in V else ","
    hsep = "\t" if "tab" in V else " "
    L = [kw("@relation") + hsep + Q(spec["relation"]), ""]
    for c in spec["cols"]:
        if c["type"] == "numeric": ty = kw("real" if "num_real" in V else "integer" if "num_integer" in V else "numeric")
        elif c["type"] == "string": ty = kw("string")
        elif c["type"] == "date": ty = kw("date") + " " + Q(c["format"])
        else: ty = "{" + (", " if "space_comma" in V else ",").join(Q(l) for l in c["levels"]) + "}"
        L.append(kw("@attribute") + hsep + Q(c["name"]) + hsep + ty)
    L += ["", kw("@data")]
    data = []
    for r in spec["rows"]:
        cells = []
        for c, v in zip(spec["cols"], r):
            if v is None: s = "?"
            elif c["type"] == "numeric": s = _num_exp(v) if "num_exp" in V else _num(v)
            elif c["type"] == "nominal": s = Q(c["levels"][v])
            else: s = Q(v)
            cells.append(s)
        if spec["fmt"] == "arff_dense":
            data.append(sep.join(cells))
        else:
            keep = []
            for i, (c, v, s) in enumerate(zip(spec["cols"], r, cells)):
                if v is not None and ((c["type"] == "numeric" and v == 0) or (c["type"] == "nominal" and v == 0)): continue
                keep.append(f"{i} {s}")
            body = (", " if "space_comma" in V else ",").join(keep)
            data.append("{ " + body + " }" if "pad_braces" in V else "{" + body + "}")
    if "comments" in V:
        cm = "% it's a \"comment\", ? {0 1}"
        L = L[:1] + [cm] + L[1:-1] + ["%", L[-1]]
        data = [cm] + sum(([d, cm] if i % 2 == 0 else [d] for i, d in enumerate(data)), [])
    if "blanks" in V:
        L = sum(([l, ""] for l in L), [])
        data = sum(([d, "", "  "] if i % 2 == 0 else [d] for i, d in enumerate(data)), [""])
    out = L + data
    if "indent" in V: out = ["  " + l + " \t" if l else l for l in out]
    return out

def _num_exp(v):
    """the same number in exponent notation (every generated number has < 8 significant digits: float() gives it back)"""
    s = f"{float(v):.7e}"
    assert float(s) == float(v)
    return s.upper() if float(v) > 1 else s

def _has_fraction(spec):
    """a numeric column holds a value that is not a whole number"""
    return any(c["type"] == "numeric" and r[j] is not None and float(r[j]) != int(r[j]) for j, c in enumerate(spec["cols"]) for r in spec["rows"])

def csv_text(spec):
    """returns (text, reader dialect)"""
    V = set(spec["variant"])
    kw, rd = {"lineterminator": "\n" if "lf_rows" in V else "\r\n"}, {}
    if "quote_all" in V: kw["quoting"] = csv.QUOTE_ALL
    if "quote_nonnumeric" in V: kw["quoting"] = csv.QUOTE_NONNUMERIC
    for f, d in (("delim_tab", "\t"), ("delim_semi", ";"), ("delim_pipe", "|")):
        if f in V: kw["delimiter"] = rd["delimiter"] = d
    if "quotechar_single" in V: kw["quotechar"] = rd["quotechar"] = "'"
    buf = io.StringIO()
    w = csv.writer(buf, **kw)
    rows = ([[c["name"] for c in spec["cols"]]] if spec["header"] else []) + spec["rows"]
    for i, r in enumerate(rows):
        w.writerow(r)
        if "blanks" in V and i % 2 == 0: buf.write(kw["lineterminator"])
    return buf.getvalue(), rd

def svm_lines(spec):
    V = set(spec["variant"])
    sp = "\t" if "tab" in V else "  " if "double_space" in V else " "
    out = []
    if spec["fmt"] == "manik":
        nf = max([k for r in spec["rows"] for k, _ in r["feats"]] + [0]) + 1
        out.append(f"{len(spec['rows'])} {nf} 31")
    for i, r in enumerate(spec["rows"]):
        l = sp.join([",".join(r["labels"])] + [f"{k}:{_num(v)}" for k, v in r["feats"]])
        if "trailing_blanks" in V: l += "  " if i % 2 == 0 else " \t"
        out.append(l)
        if "blanks" in V and i % 2 == 0: out.append("")
    return out

def physical_lines(spec):
    """(lines without terminators as a line-oriented source yields them, file text, reader dialect)"""
    V = set(spec["variant"])
    fmt = spec["fmt"]
    if fmt == "csv":
        text, rd = csv_text(spec)
        lines = text.splitlines()          # CSV fields never hold CR or exotic separators: these are the physical lines
    else:
        lines = arff_lines(spec) if fmt.startswith("arff") else svm_lines(spec)
        nl = "\r\n" if "term_crlf" in V else "\n"
        text, rd = "".join(l + nl for l in lines), {}
    return lines, text, rd

# ================================================================================================= expected tables
def expected(spec):
    fmt = spec["fmt"]
    if fmt in ("libsvm", "manik"):
        return [({int(k): float(v) for k, v in r["feats"]}, list(r["labels"])) for r in spec["rows"]]
    if fmt == "csv":
        return {"names": [c["name"] for c in spec["cols"]] if spec["header"] else None,
                "rows": [[("str", v) for v in r] for r in spec["rows"]]}
    cols = spec["cols"]
    rows = []
    for r in spec["rows"]:
        cells = []
        for c, v in zip(cols, r):
            if v is None: cells.append(("none",))
            elif c["type"] == "numeric": cells.append(("num", float(v)))
            elif c["type"] == "nominal": cells.append(("cat", c["levels"][v], tuple(c["levels"])))
            else: cells.append(("str", v))
        rows.append(cells)
    return {"names": [c["name"] for c in cols], "rows": rows, "missing": [any(v is None for v in r) for r in spec["rows"]]}

def canon(v):
    from coba.primitives import Categorical
    if v is None: return ("none",)
    if isinstance(v, Categorical): return ("cat", str(v), tuple(v.levels))
    if isinstance(v, (int, float)) and not isinstance(v, bool): return ("num", float(v))
    if isinstance(v, str): return ("str", v)
    return ("other", repr(v))

# ================================================================================================= delivery
_TMP = {"dir": None, "n": 0}
def _tmp(name):
    if _TMP["dir"] is None:
        _TMP["dir"] = tempfile.mkdtemp(prefix="vfc12-")
        atexit.register(shutil.rmtree, _TMP["dir"], True)
    _TMP["n"] += 1
    return os.path.join(_TMP["dir"], f"f{_TMP['n'] % 8}-{name}")

def compress(kind, raw, level=6):
    if kind is None: return raw
    wbits = {"gzip": 31, "deflate": -15, "zlib": 15}[kind]
    o = zlib.compressobj(level, zlib.DEFLATED, wbits)
    return o.compress(raw) + o.flush()

class _FakeSocket:
    def __init__(self, data): self._data = data
    def makefile(self, *a, **k): return io.BytesIO(self._data)

def http_response(body, enc, framing):
    """a real http.client.HTTPResponse that parses the bytes an HTTP/1.1 server would send for this body (no network)"""
    from http.client import HTTPResponse
    head = ["HTTP/1.1 200 OK", "Content-Type: text/plain; charset=utf-8"]
    if enc: head.append("Content-Encoding: " + enc)
    if framing == "content-length": head.append(f"Content-Length: {len(body)}")
    elif framing == "chunked":
        head.append("Transfer-Encoding: chunked")
        cut = [body[i:i+37] for i in range(0, len(body), 37)]
        body = b"".join(b"%x\r\n%s\r\n" % (len(c), c) for c in cut) + b"0\r\n\r\n"
    else: head.append("Connection: close")
    resp = HTTPResponse(_FakeSocket("\r\n".join(head).encode("ascii") + b"\r\n\r\n" + body))
    resp.begin()
    return resp

class _served:
    """while active, urllib's urlopen answers every request with the given body (coba's HttpSource calls request.urlopen)"""
    def __init__(self, body, enc, framing): self.args = (body, enc, framing)
    def __enter__(self):
        from urllib import request
        self._orig = request.urlopen
        request.urlopen = lambda req, *a, **k: http_response(*self.args)
    def __exit__(self, *exc):
        from urllib import request
        request.urlopen = self._orig

def deliver_and_parse(spec):
    """runs the real coba code; returns the parsed rows in a comparable form"""
    from coba.pipes import ArffReader, CsvReader, LibsvmReader, ManikReader
    from coba.pipes.sources import HttpSource
    from coba.primitives import Sparse
    from coba.environments.supervised import ArffSource, CsvSource, LibSvmSource, ManikSource
    fmt, V, how = spec["fmt"], set(spec["variant"]), spec["delivery"]["how"]
    lines, text, rd = physical_lines(spec)
    if how == "lines":
        t = "\r\n" if "term_crlf" in V else "\n" if "term_lf" in V else ""
        src = [l + t for l in lines]
        if   fmt == "csv":     rows = CsvReader(spec["header"], **rd).filter(src)
        elif fmt == "libsvm":  rows = LibsvmReader().filter(src)
        elif fmt == "manik":   rows = ManikReader().filter(src)
        else:                  rows = ArffReader().filter(src)
    elif how in ("disk", "diskgz"):
        path = _tmp("data.txt" + (".gz" if how == "diskgz" else ""))
        raw = text.encode("utf-8")
        with open(path, "wb") as f: f.write(gzip.compress(raw) if how == "diskgz" else raw)
        if   fmt == "csv":     rows = CsvSource(path, spec["header"], **rd).read()
        elif fmt == "libsvm":  rows = LibSvmSource(path).read()
        elif fmt == "manik":   rows = ManikSource(path).read()
        else:                  rows = ArffSource(path).read()
    elif how == "http":
        d = spec["delivery"]
        url = "http://vf.invalid/data." + fmt
        with _served(compress(d["enc"], text.encode("utf-8")), d["enc"], d["framing"]):
            if   fmt == "csv":     rows = CsvSource(url, spec["header"], **rd).read()
            elif fmt == "libsvm":  rows = LibSvmSource(url).read()
            elif fmt == "manik":   rows = ManikSource(url).read()
            else:                  rows = ArffSource(url).read()
            rows = list(rows)
    else:
        d = spec["delivery"]
        src = HttpSource._byte_it_(d["enc"], "utf-8", d["chunk"], io.BytesIO(compress(d["enc"], text.encode("utf-8"))))
        if   fmt == "csv":     rows = CsvReader(spec["header"], **rd).filter(src)
        elif fmt == "libsvm":  rows = LibsvmReader().filter(src)
        elif fmt == "manik":   rows = ManikReader().filter(src)
        else:                  rows = ArffReader().filter(src)
    rows = list(rows)
    if fmt in ("libsvm", "manik"):
        return [(dict(r[0]), list(r[1])) for r in rows]
    out = []
    for n, r in enumerate(rows):
        if isinstance(r, Sparse):
            d = {k: canon(v) for k, v in dict(r.items()).items()}
            item = {"sparse": d, "missing": getattr(r, "missing", None)}
            if n == 0: item["byname"] = {k: canon(r[k]) for k in d}
        else:
            item = {"dense": [canon(v) for v in r], "missing": getattr(r, "missing", None) if fmt != "csv" else None}
            hd = getattr(r, "headers", None) if (fmt != "csv" or spec["header"]) else None
            item["names"] = [k for k, _ in sorted(hd.items(), key=lambda kv: kv[1])] if hd is not None else None
            if n == 0 and hd is not None: item["byname"] = {k: canon(r[k]) for k in hd}
        out.append(item)
    return out

# ================================================================================================= comparison
def compare(spec, got):
    """returns None or (locus, mode, detail, tokens involved)"""
    fmt, exp = spec["fmt"], expected(spec)
    if fmt in ("libsvm", "manik"):
        if len(got) != len(exp):
            return ("row-count", "lost-row" if len(got) < len(exp) else "extra-row", f"{len(got)} rows parsed, {len(exp)} written", [])
        for i, (g, e) in enumerate(zip(got, exp)):
            if g[1] != e[1]: return ("labels", "wrong-value", f"row {i}: labels {g[1]!r} != written {e[1]!r}", e[1])
            if g[0] != e[0]: return ("features", "wrong-value", f"row {i}: features {g[0]!r} != written {e[0]!r}", [])
        return None
    if len(got) != len(exp["rows"]):
        return ("row-count", "lost-row" if len(got) < len(exp["rows"]) else "extra-row", f"{len(got)} rows parsed, {len(exp['rows'])} written", [])
    cols = spec["cols"]
    for i, (g, e) in enumerate(zip(got, exp["rows"])):
        if "sparse" in g:
            d = g["sparse"]
            extra = set(d) - set(exp["names"])
            if extra:
                return ("header-names", "wrong-value", f"row {i}: keys {sorted(map(repr, extra))} are not attribute names {exp['names']!r}", exp["names"])
            views = [("", d)] + ([("[by-name]", g["byname"])] if "byname" in g else [])
            for tag, dd in views:
                for c, name, ev in zip(cols, exp["names"], e):
                    gv = dd.get(name, ("absent",))
                    if c["type"] == "numeric" and ev == ("num", 0.0):
                        ok = gv in (("absent",), ("num", 0.0))
                    elif c["type"] == "nominal" and ev[0] == "cat":
                        lv = list(c["levels"])
                        want_lv = tuple(["0"] + lv) if "0" not in lv else tuple(sorted(lv))
                        if spec["rows"][i][cols.index(c)] == 0:     # omitted in the file: coba reads '0' by design
                            ok = gv in (("cat", "0", want_lv), ("cat", ev[1], want_lv), ("cat", ev[1], ev[2]))
                        else:
                            ok = gv in (("cat", ev[1], want_lv), ("cat", ev[1], ev[2]))
                    else:
                        ok = gv == ev
                    if not ok:
                        toks = [name] + (c.get("levels") or []) + ([ev[1]] if ev[0] in ("str", "cat") else [])
                        return (f"cell:{c['type']}{tag}", "wrong-value", f"row {i} attribute {name!r}: read {gv!r}, written {ev!r}", toks)
        else:
            if g["names"] is not None and exp["names"] is not None and g["names"] != exp["names"]:
                return ("header-names", "wrong-value", f"names {g['names']!r} != written {exp['names']!r}", exp["names"])
            if len(g["dense"]) != len(e):
                return ("column-count", "wrong-value", f"row {i}: {len(g['dense'])} values read, {len(e)} written: {g['dense']!r}", [v[1] for v in e if v[0] in ("str", "cat")])
            for j, (gv, ev) in enumerate(zip(g["dense"], e)):
                if gv != ev:
                    c = cols[j]
                    locus = f"cell:{c['type']}" if not (gv[0] == ev[0] == "cat" and gv[1] == ev[1]) else "levels"
                    toks = (c.get("levels") or []) + ([ev[1]] if ev[0] in ("str", "cat") else [])
                    return (locus, "wrong-value", f"row {i} column {j}: read {gv!r}, written {ev!r}", toks)
            if "byname" in g and exp["names"] is not None:
                for j, name in enumerate(exp["names"]):
                    if g["byname"].get(name) != e[j]:
                        return (f"cell:{cols[j]['type']}[by-name]", "wrong-value", f"row {i}[{name!r}]: read {g['byname'].get(name)!r}, written {e[j]!r}", [name])
        if fmt != "csv" and g["missing"] is not None and g["missing"] != exp["missing"][i]:
            toks = [v[1] for v in e if v[0] in ("str", "cat")]
            return ("missing-flag", "flag-set-without-missing-value" if g["missing"] else "flag-not-set-for-missing-value",
                    f"row {i}: .missing={g['missing']} but written row {'has' if exp['missing'][i] else 'has no'} '?' value: {spec['rows'][i]!r}", toks)
    return None

def _expanded(spec):
    """a table spec with "repeat": k stands for the table whose rows are the listed rows k times over"""
    k = spec.get("repeat", 1)
    if k <= 1: return spec
    s = {key: v for key, v in spec.items() if key != "repeat"}
    s["rows"] = [r for _ in range(k) for r in spec["rows"]]
    return s

def check_table(spec):
    """one (table, dialect, delivery) evaluation -> None | (locus, mode, detail)"""
    spec = _expanded(spec)
    common = not spec["variant"]
    try:
        got = deliver_and_parse(spec)
    except Exception as e:
        if common:
            return ("parse", f"raise:{type(e).__name__}", f"common-dialect file rejected: {type(e).__name__}: {e}")
        return "raised"
    r = compare(spec, got)
    if r is None: return None
    return r[:3]

# ------------------------------------------------------------------------------------------------- shrinking
def _simplify_tokens(tok, used):
    """candidate simplifications of one token, most aggressive first"""
    cands = []
    if tok in ("a", "b", "c", "d", "e"): return []
    for p in ("a", "b", "c", "d", "e"):
        if p not in used: cands.append(p); break
    for i in range(len(tok)):
        cands.append(tok[:i] + tok[i+1:])
    for i, ch in enumerate(tok):
        if ch not in PLAIN: cands.append(tok[:i] + "a" + tok[i+1:])
    return [c for c in cands if c != tok]

def shrink_table(spec, key, budget=600):
    """greedy minimisation keeping (locus, mode) == key"""
    def fails(s):
        nonlocal budget
        budget -= 1
        try: r = check_table(s)
        except Exception: return False
        return r not in (None, "raised") and (r[0], r[1]) == key
    cur = copy.deepcopy(spec)
    if cur.get("repeat", 1) > 1:
        # a long table: is the length needed at all?  if so halve it while the failure stays and shrink the rest with a
        # small budget only (every evaluation parses the whole long table)
        s = copy.deepcopy(cur); s.pop("repeat")
        if fails(s): cur = s
        else:
            for f in list(cur["variant"]):          # (at full length: a shorter table may need the extra bytes of a respelling)
                s = copy.deepcopy(cur); s["variant"].remove(f)
                if fails(s): cur = s
            s = _asciified(cur)
            if s is not None and fails(s): cur = s
            while cur["repeat"] > 2 and budget > 0:
                s = copy.deepcopy(cur); s["repeat"] //= 2
                if not fails(s): break
                cur = s
            budget = min(budget, 25)
    changed = True
    while changed and budget > 0:
        changed = False
        def attempt(mut):
            nonlocal cur, changed
            if budget <= 0: return False
            s = copy.deepcopy(cur)
            try:
                if mut(s) is False: return False
            except Exception: return False
            if s == cur or not _in_domain(s): return False
            if fails(s): cur = s; changed = True; return True
            return False
        if cur["delivery"]["how"] != "lines":
            attempt(lambda s: s.__setitem__("delivery", {"how": "lines"}))
        if cur["fmt"] == "csv" and not cur["header"]:
            attempt(lambda s: s.__setitem__("header", True))
        for f in list(cur["variant"]):
            attempt(lambda s, f=f: s["variant"].remove(f))
        i = 0
        while i < len(cur["rows"]):
            if not attempt(lambda s, i=i: s["rows"].pop(i)): i += 1
        if cur["fmt"] in ("libsvm", "manik"):
            for i in range(len(cur["rows"])):
                j = 0
                while j < len(cur["rows"][i]["feats"]):
                    if not attempt(lambda s, i=i, j=j: s["rows"][i]["feats"].pop(j)): j += 1
                j = 0
                while len(cur["rows"][i]["labels"]) > 1 and j < len(cur["rows"][i]["labels"]):
                    if not attempt(lambda s, i=i, j=j: s["rows"][i]["labels"].pop(j)): j += 1
                for j in range(len(cur["rows"][i]["labels"])):
                    attempt(lambda s, i=i, j=j: s["rows"][i]["labels"].__setitem__(j, "1"))
                for j in range(len(cur["rows"][i]["feats"])):
                    attempt(lambda s, i=i, j=j: s["rows"][i]["feats"][j].__setitem__(1, 1))
            continue
        j = 0
        while len(cur["cols"]) > 1 and j < len(cur["cols"]):
            def dropcol(s, j=j):
                s["cols"].pop(j)
                for r in s["rows"]: r.pop(j)
            if not attempt(dropcol): j += 1
        # simplify types and cells
        for j, c in enumerate(cur["cols"]):
            if c["type"] == "nominal":
                k = 0
                while len(cur["cols"][j]["levels"]) > 1 and k < len(cur["cols"][j]["levels"]):
                    def droplevel(s, j=j, k=k):
                        if any(r[j] == k for r in s["rows"]): return False
                        s["cols"][j]["levels"].pop(k)
                        for r in s["rows"]:
                            if r[j] is not None and r[j] > k: r[j] -= 1
                    if not attempt(droplevel): k += 1
            if c["type"] == "date":
                def to_string(s, j=j): s["cols"][j]["type"] = "string"; s["cols"][j].pop("format", None)
                attempt(to_string)
        for i in range(len(cur["rows"])):
            for j, c in enumerate(cur["cols"]):
                v = cur["rows"][i][j]
                if v is None:
                    attempt(lambda s, i=i, j=j, c=c: s["rows"][i].__setitem__(j, 1 if c["type"] == "numeric" else 0 if c["type"] == "nominal" else "a"))
                elif c["type"] == "numeric" and v != 1:
                    attempt(lambda s, i=i, j=j: s["rows"][i].__setitem__(j, 1))
        # simplify tokens: relation, names, levels, string cells
        def token_slots(s):
            slots = []
            if s.get("relation") is not None: slots.append(("relation",))
            for j, c in enumerate(s["cols"]):
                slots.append(("name", j))
                for k in range(len(c.get("levels") or [])): slots.append(("level", j, k))
            for i, r in enumerate(s["rows"]):
                for j, c in enumerate(s["cols"]):
                    if c["type"] in ("string", "date") and r[j] is not None: slots.append(("cell", i, j))
            return slots
        def get(s, slot):
            if slot[0] == "relation": return s["relation"]
            if slot[0] == "name": return s["cols"][slot[1]]["name"]
            if slot[0] == "level": return s["cols"][slot[1]]["levels"][slot[2]]
            return s["rows"][slot[1]][slot[2]]
        def put(s, slot, v):
            arff = s["fmt"].startswith("arff")
            if arff and v in ("", "?"): return False
            if slot[0] == "relation": s["relation"] = v
            elif slot[0] == "name":
                if v in [c["name"] for c in s["cols"]] or v == "": return False
                s["cols"][slot[1]]["name"] = v
            elif slot[0] == "level":
                if v in s["cols"][slot[1]]["levels"]: return False
                s["cols"][slot[1]]["levels"][slot[2]] = v
            else: s["rows"][slot[1]][slot[2]] = v
        for slot in token_slots(cur):
            progress = True
            while progress and budget > 0:
                progress = False
                tok = get(cur, slot)
                used = set()
                if slot[0] == "name": used = {c["name"] for c in cur["cols"]}
                if slot[0] == "level": used = set(cur["cols"][slot[1]]["levels"])
                for cand in _simplify_tokens(tok, used):
                    if attempt(lambda s, slot=slot, cand=cand: put(s, slot, cand)):
                        progress = True; break
    # does the failure need the table to have a single column?  (otherwise the tag would only describe the shrinking)
    if cur["fmt"] not in ("libsvm", "manik") and len(cur["cols"]) == 1:
        budget += 4
        col, val = {"name": "zz", "type": "numeric" if cur["fmt"] != "csv" else "string"}, (1 if cur["fmt"] != "csv" else "1")
        back, front = copy.deepcopy(cur), copy.deepcopy(cur)
        back["cols"].append(col); front["cols"].insert(0, col)
        for r in back["rows"]: r.append(val)
        for r in front["rows"]: r.insert(0, val)
        if not fails(back) and not fails(front): cur["needs_single_column"] = True
    return cur

def _asciified(spec):
    """the same table with every non-ASCII character replaced (None when there is none or names / levels would collide)"""
    f = lambda t: "".join(c if ord(c) < 128 else "u" for c in t) if isinstance(t, str) else t
    s = copy.deepcopy(spec)
    if s["fmt"] in ("libsvm", "manik"):
        for r in s["rows"]: r["labels"] = [f(l) for l in r["labels"]]
    else:
        if s.get("relation"): s["relation"] = f(s["relation"])
        for c in s["cols"]:
            c["name"] = f(c["name"])
            if c.get("levels"): c["levels"] = [f(l) for l in c["levels"]]
            if len(set(c.get("levels") or [])) != len(c.get("levels") or []): return None
        if len({c["name"] for c in s["cols"]}) != len(s["cols"]): return None
        s["rows"] = [[f(v) for v in r] for r in s["rows"]]
    return None if s == spec else s

def _in_domain(s):
    """the shrinker must not leave the generated domain"""
    if s["fmt"] == "csv" and not s["header"] and not s["rows"]: return False
    return True

def table_signature(spec, locus, mode):
    """mechanism-level signature of a (shrunk) failing table case"""
    fmt = spec["fmt"]
    feats = {"name": set(), "level": set(), "value": set(), "relation": set(), "label": set()}
    if fmt in ("libsvm", "manik"):
        for r in spec["rows"]:
            for l in r["labels"]: feats["label"] |= features(l)
            if len(r["labels"]) > 1: feats["label"].add("multi")
            if not r["feats"]: feats["label"].add("no-features")
    else:
        if spec.get("relation"): feats["relation"] |= features(spec["relation"])
        for j, c in enumerate(spec["cols"]):
            feats["name"] |= features(c["name"])
            for l in c.get("levels") or []: feats["level"] |= features(l)
            for r in spec["rows"]:
                if c["type"] in ("string", "date") and r[j] is not None: feats["value"] |= features(r[j])
        if locus.startswith("cell:numeric") and _has_fraction(spec): feats["number"] = {"fraction"}
    parts = [f"{k}:{'+'.join(sorted(v))}" for k, v in feats.items() if v]
    extra = []
    if fmt not in ("libsvm", "manik"):
        if spec.get("needs_single_column"): extra.append("single-column")
        if fmt == "csv" and not spec["header"]: extra.append("no-header")
    dial = "common" if not spec["variant"] else "variant=" + "+".join(spec["variant"])
    dv = spec["delivery"]
    how = "" if dv["how"] == "lines" else "/delivery=" + dv["how"] + (f":{dv['enc'] or 'identity'}" if dv["how"] in ("chunk", "http") else "")
    if how:     # the failure needs this delivery: the byte positions matter, not the kinds of characters in the tokens
        uni = sorted({f for v in feats.values() for f in v if f in ("u2", "u3", "u4")})
        parts, extra = (["unicode"] if uni else []), []
    if spec.get("repeat", 1) > 1: extra.append("many-rows")
    return f"table/{fmt}/{dial}{how}/{locus}/{'/'.join(parts + extra) or 'plain'}/{mode}"

# ================================================================================================= chunk oracle
STREAMS = [("identity", None, 6), ("gzip", "gzip", 0), ("gzip", "gzip", 6), ("deflate", "deflate", 0), ("deflate", "deflate", 6)]

def _pieces(enc, data, chunk):
    if enc is None: dec = lambda b: b
    else: dec = zlib.decompressobj({"gzip": 31, "deflate": -15}[enc]).decompress
    return [dec(data[i:i+chunk]) for i in range(0, len(data), chunk)]

def _boundary_kinds(raw, pieces, charset):
    """which delicate places the decoded-piece boundaries fall on"""
    kinds, off = set(), 0
    for p in pieces[:-1]:
        off += len(p)
        if off <= 0 or off >= len(raw): continue
        if charset == "utf-8":
            if raw[off] & 0xC0 == 0x80: kinds.add("inside-character")
            if raw[off-1:off] == b"\r" and raw[off:off+1] == b"\n": kinds.add("between-cr-and-lf")
            if raw[:off].endswith((b"\xc2\x85", b"\xe2\x80\xa8", b"\xe2\x80\xa9")): kinds.add("after-unicode-line-separator")
        else:
            body = off - 2            # after the BOM, little endian units
            if off < 2 or body % 2 == 1: kinds.add("inside-character")
            elif body >= 2 and 0xD8 <= raw[off-1] <= 0xDB: kinds.add("inside-character")
            elif raw[off-2:off] == b"\r\x00" and raw[off:off+2] == b"\n\x00": kinds.add("between-cr-and-lf")
            elif raw[off-2:off] in (b"\x85\x00", b"\x28\x20", b"\x29\x20"): kinds.add("after-unicode-line-separator")
    return kinds

def check_chunk(spec, ctx=None):
    from coba.pipes.sources import HttpSource
    text, charset = spec["text"], spec["charset"]
    raw = text.encode(charset)
    want = text.splitlines()
    # a text that holds characters which only str.splitlines takes for line ends: "the lines of the whole text" are either
    # text.splitlines() or its CR / LF / CRLF lines (the statement does not say which), but the SAME reading for every chunk
    # size and every content encoding -- the lines must not depend on how the bytes are delivered
    unisep = any(c in text for c in ALL_SEPS)
    wants = [want] + ([_universal_lines(text)] if unisep else [])
    chosen = None
    viol, seen = [], set()
    t0 = text.replace("\r\n", "\x00")
    tset = tuple(k for k, on in (("crlf", "\x00" in t0), ("lf", "\n" in t0), ("cr", "\r" in t0)) if on)
    widths = tuple(sorted({len(c.encode("utf-8")) for c in text}))
    final = text[-1:] in ("\r", "\n")
    only = spec.get("only")
    for name, enc, level in STREAMS:
        if only and (only[0], only[1]) != (name, level): continue
        data = compress(enc, raw, level)
        if ctx:
            ctx.case(("chunk", tset, widths, final, charset, name, level, len(data), unisep), nontrivial=len(want) > 0)
        # the whole body at once (chunk=None) returns the decoded text
        try:
            whole = HttpSource._byte_it_(enc, charset, None, io.BytesIO(data))
            if whole != text: viol.append((f"chunk/enc={name}/whole-body/wrong-text", f"chunk=None returned {whole!r} for {text!r}", None))
        except Exception as e:
            viol.append((f"chunk/enc={name}/whole-body/raise:{type(e).__name__}", f"chunk=None raised {e!r} for {text!r}", None))
        sizes = list(range(1, len(data) + 1)) + [len(data) + 7, BIG_CHUNK]
        if only: sizes = [only[2]]
        for chunk in sizes:
            mode = None
            try:
                got = list(HttpSource._byte_it_(enc, charset, chunk, io.BytesIO(data)))
                if unisep and got in wants:
                    if chosen is None: chosen = (wants.index(got), name, chunk)
                    elif wants.index(got) != chosen[0]:
                        mode = "lines-depend-on-chunk-size"
                        detail = f"read {got!r}, but stream={chosen[1]} chunk={chosen[2]} read {wants[chosen[0]]!r}"
                elif got != want:
                    if unisep and chosen: want = wants[chosen[0]]
                    if len(got) > len(want) and [g for g in got if g != ""] == [w for w in want if w != ""]: mode = "spurious-empty-line"
                    elif len(got) < len(want): mode = "lost-or-merged-line"
                    else: mode = "wrong-lines"
                    detail = f"read {got!r}, text.splitlines() {want!r}"
            except Exception as e:
                mode, detail = f"raise:{type(e).__name__}", f"{type(e).__name__}: {e}"
            if ctx:
                ctx.count("oracle.chunk." + name)
                if unisep: ctx.count("oracle.chunk.unicode-line-separator-in-text")
            kinds = None
            if ctx and chunk <= len(data) and (name == "identity" or level == 0 or chunk % 5 == 0):
                kinds = _boundary_kinds(raw, _pieces(enc, data, chunk), charset)
                for k in kinds: ctx.count("oracle.chunk.boundary-" + k)
            if mode:
                if kinds is None: kinds = _boundary_kinds(raw, _pieces(enc, data, chunk), charset)
                sig = f"chunk/enc={name}/charset={charset}/boundary={'+'.join(sorted(kinds)) or 'ordinary'}/{mode}"
                if unisep:
                    # are the separator characters needed?  (the same bytes-per-character, an ordinary character instead)
                    plain = "".join({"\x85": "\u00e9", "\u2028": "\u20ac", "\u2029": "\u20ac"}.get(c, "x" if c in ALL_SEPS else c) for c in text)
                    if _chunk_read(enc, charset, chunk, compress(enc, plain.encode(charset), level), plain.splitlines())[0] is None:
                        sig = f"chunk/text=unicode-line-separator-character/{mode}"
                if sig not in seen:
                    seen.add(sig)
                    viol.append((sig, f"chunk={chunk} stream={name}(level {level}) {detail}", [name, level, chunk]))
        # zlib-wrapped deflate is what RFC 9110 calls 'deflate': coba decodes raw deflate, so only equal-or-raise
        if enc == "deflate" and level == 6 and not only:
            z = compress("zlib", raw, 6)
            try:
                got = list(HttpSource._byte_it_("deflate", charset, 16, io.BytesIO(z)))
                if got != want: viol.append(("chunk/enc=zlib-wrapped-deflate/silent-misread", f"read {got!r} for {want!r}", None))
                elif ctx: ctx.count("oracle.chunk.zlib-wrapped.equal")
            except Exception:
                if ctx: ctx.count("oracle.chunk.zlib-wrapped.raised")
    return viol

# ------------------------------------------------------------------------------------------------- long bodies
def long_text(spec):
    """the text a long-body spec stands for (deterministic: the orders / noise lines come from the seeds in the spec)"""
    import random
    v, o, n = spec["vocab"], spec["order"], spec["nlines"]
    if o["mode"] == "cycle": idx = [i % len(v) for i in range(n)]
    elif o["mode"] == "runs": idx = [(i // o["run"]) % len(v) for i in range(n)]
    else:
        r = random.Random(o["seed"])
        picks = [r.randrange(len(v)) for _ in range(n // o["run"] + 1)]
        idx = [picks[i // o["run"]] for i in range(n)]
    def noise(seed):
        r = random.Random(seed)
        return "".join("".join(r.choice(B62) for _ in range(r.randint(5, 40))) + "\n" for _ in range(spec["noise"]["n"]))
    w = spec["noise"]["where"]
    text = (noise(spec["noise"]["seed"]) if w in ("head", "both") else "") + "".join(v[i] for i in idx) + \
           (noise(spec["noise"]["seed"] + 1) if w in ("tail", "both") else "")
    return text if spec["final"] else text.rstrip("\r\n")

def _resolve_size(entry, n):
    if entry == "len": return n
    if entry == "len-1": return max(1, n - 1)
    if entry == "len+7": return n + 7
    if isinstance(entry, list): return max(1, int(entry[1] * n))
    return entry

def _chunk_read(enc, charset, chunk, data, want):
    """(None, None) or (failure mode, detail) of one chunked read"""
    from coba.pipes.sources import HttpSource
    try:
        got = list(HttpSource._byte_it_(enc, charset, chunk, io.BytesIO(data)))
    except Exception as e:
        return f"raise:{type(e).__name__}", f"{type(e).__name__}: {e}"
    if got == want: return None, None
    if len(got) > len(want) and [g for g in got if g != ""] == [w for w in want if w != ""]: mode = "spurious-empty-line"
    elif len(got) <= len(want) and got[:-1] == want[:max(0, len(got) - 1)] and (not got or want[len(got) - 1].startswith(got[-1])):
        mode = "truncated-text"            # a proper prefix of the text: the end of the body was dropped
    elif len(got) < len(want): mode = "lost-or-merged-line"
    else: mode = "wrong-lines"
    i = next((i for i, (g, w) in enumerate(zip(got, want)) if g != w), min(len(got), len(want)))
    return mode, f"read {len(got)} lines, text.splitlines() has {len(want)}; first difference at line {i}: read {got[i:i+2]!r}, text has {want[i:i+2]!r}"

def _long_fails(spec, name, level, entry, mode):
    text = long_text(spec)
    raw = text.encode(spec["charset"])
    enc = None if name == "identity" else name
    data = compress(enc, raw, level)
    return _chunk_read(enc, spec["charset"], _resolve_size(entry, len(data)), data, text.splitlines())[0] == mode

def _long_shrink(spec, name, level, entry, mode):
    """is the length / the incompressible part needed?  halve the body while the same failure stays"""
    cur = {k: copy.deepcopy(v) for k, v in spec.items() if k != "only"}
    if cur["charset"] != "utf-8":
        s = copy.deepcopy(cur); s["charset"] = "utf-8"
        if _long_fails(s, name, level, entry, mode): cur = s
    if cur["noise"]["where"] != "none":
        s = copy.deepcopy(cur); s["noise"]["where"] = "none"
        if _long_fails(s, name, level, entry, mode): cur = s
    while cur["nlines"] > 1:
        s = copy.deepcopy(cur); s["nlines"] //= 2
        if not _long_fails(s, name, level, entry, mode): break
        cur = s
    return cur

def check_longchunk(spec, ctx=None):
    from coba.pipes.sources import HttpSource
    charset = spec["charset"]
    text = long_text(spec)
    raw, want = text.encode(charset), text.splitlines()
    t0 = "".join(spec["vocab"]).replace("\r\n", "\x00")
    tset = tuple(k for k, on in (("crlf", "\x00" in t0), ("lf", "\n" in t0), ("cr", "\r" in t0)) if on)
    widths = tuple(sorted({len(c.encode("utf-8")) for c in "".join(spec["vocab"])}))
    only = spec.get("only")
    viol, seen = [], set()
    for name, level in spec["streams"]:
        if only and [only[0], only[1]] != [name, level]: continue
        enc = None if name == "identity" else name
        data = compress(enc, raw, level)
        ratio = len(raw) / max(1, len(data))
        rc = "over-100" if ratio >= 100 else "10-100" if ratio >= 10 else "under-10"
        if ctx:
            ctx.case(("chunk-long", tset, widths, spec["final"], charset, name, level, rc, spec["order"]["mode"], spec["noise"]["where"]),
                     nontrivial=len(want) > 0)
        try:
            whole = HttpSource._byte_it_(enc, charset, None, io.BytesIO(data))
            if whole != text: viol.append((f"chunk/enc={name}/whole-body/wrong-text", f"chunk=None returned {len(whole)} characters for a text of {len(text)}", None))
        except Exception as e:
            viol.append((f"chunk/enc={name}/whole-body/raise:{type(e).__name__}", f"chunk=None raised {e!r}", None))
        done = set()
        for entry in ([only[2]] if only else spec["sizes"]):
            chunk = _resolve_size(entry, len(data))
            if chunk in done or (not only and chunk < 16 and len(data) > 8000): continue      # (time: one read() per byte)
            done.add(chunk)
            mode, detail = _chunk_read(enc, charset, chunk, data, want)
            if ctx:
                ctx.count("oracle.chunk.long." + name)
                if enc:
                    ctx.count("oracle.chunk.long.inflation-" + rc)
                    ctx.count("oracle.chunk.long." + ("body-in-one-chunk" if chunk >= len(data) else "several-chunks"))
            if not mode: continue
            pre = (name, mode, chunk >= len(data))
            if pre in seen: continue                  # one witness per (stream, failure mode, one/several chunks) and case
            seen.add(pre)
            small = _long_shrink(spec, name, level, entry, mode)
            scs = small["charset"]
            stext = long_text(small)
            sraw = stext.encode(scs)
            sdata = compress(enc, sraw, level)
            schunk = _resolve_size(entry, len(sdata))
            # which feature of the body is needed: compressed (inflating) blocks, its length, or only where the boundaries fall
            if enc and level > 0 and not _long_fails(small, name, 0, entry, mode): body = "compressed-blocks"
            elif len(sraw) > 300: body = "long-body"
            else: body = None
            cs = "" if scs == "utf-8" else f"/charset={scs}"
            if body is None:              # name it as the short-text oracle does
                kinds = _boundary_kinds(sraw, _pieces(enc, sdata, schunk), scs)
                sig = f"chunk/enc={name}/charset={scs}/boundary={'+'.join(sorted(kinds)) or 'ordinary'}/{mode}"
            else:
                sig = f"chunk/enc={name}{cs}/{body}/{'body-in-one-chunk' if schunk >= len(sdata) else 'several-chunks'}/{mode}"
            if sig not in seen:
                seen.add(sig)
                small["only"] = [name, level, entry]
                viol.append((sig, f"chunk={schunk} stream={name}(level {level}, {len(sdata)} bytes for {len(sraw)} bytes of text) "
                                  + (_chunk_read(enc, scs, schunk, sdata, stext.splitlines())[1] or detail), small))
    return viol

# ================================================================================================= disk oracle
def run_disk(spec):
    from coba.pipes.sinks import DiskSink
    from coba.pipes.sources import DiskSource
    path = _tmp("sink.log" + (".gz" if spec["gz"] else ""))
    if os.path.exists(path): os.remove(path)
    k = spec.get("repeat", 1)
    lines = spec["lines"] * k
    cuts = [0] + [c * k for c in spec["cuts"]] + [len(lines)]
    sink = DiskSink(path, spec["mode"], batch=spec["batch"]) if spec.get("mode") else DiskSink(path, batch=spec["batch"])
    for a, b in zip(cuts, cuts[1:]):
        part = lines[a:b]
        if len(part) == 1 and (a + b) % 2 == 0: sink.write(part[0])       # a bare string is one line
        else: sink.write(iter(part) if (a + b) % 3 == 0 else part)
    got = list(DiskSource(path).read())
    located = list(DiskSource(path, include_loc=True).read())
    return got, located, path

def check_disk(spec):
    """None | (mode, detail)"""
    from coba.pipes.sources import DiskSource
    try:
        got, located, path = run_disk(spec)
    except Exception as e:
        return (f"raise:{type(e).__name__}", f"{type(e).__name__}: {e}")
    want = list(spec["lines"]) * spec.get("repeat", 1)
    if len(want) > 50:        # a long file: do not put thousands of lines into the message
        if got != want:
            i = next((i for i, (g, w) in enumerate(zip(got, want)) if g != w), min(len(got), len(want)))
            mode = "lost-line" if len(got) < len(want) else "extra-line" if len(got) > len(want) else "wrong-line"
            return (mode, f"read back {len(got)} lines, written {len(want)}; first difference at line {i}: read {got[i:i+2]!r}, written {want[i:i+2]!r}")
        if [l for _, l in located] != want:
            return ("include_loc-wrong-line", f"include_loc read {len(located)} lines that differ from the {len(want)} written")
        return None
    if got != want:
        mode = "lost-line" if len(got) < len(want) else "extra-line" if len(got) > len(want) else "wrong-line"
        return (mode, f"read back {got!r}, written {want!r}")
    if [l for _, l in located] != want:
        return ("include_loc-wrong-line", f"include_loc read {located!r}, written {want!r}")
    return None

def shrink_disk(spec, mode, budget=300):
    cur = copy.deepcopy(spec)
    def fails(s):
        nonlocal budget
        budget -= 1
        r = check_disk(s)
        return r is not None and r[0] == mode
    if cur.get("repeat", 1) > 1:
        s = copy.deepcopy(cur); s.pop("repeat")
        if fails(s): cur = s
        else:
            while cur["repeat"] > 2:
                s = copy.deepcopy(cur); s["repeat"] //= 2
                if not fails(s): break
                cur = s
            budget = min(budget, 40)
    changed = True
    while changed and budget > 0:
        changed = False
        for mut in ([lambda s: s.__setitem__("cuts", []), lambda s: s.__setitem__("batch", None), lambda s: s.pop("mode", None)]):
            s = copy.deepcopy(cur); mut(s)
            if s != cur and fails(s): cur = s; changed = True
        i = 0
        while i < len(cur["lines"]) and budget > 0:
            s = copy.deepcopy(cur); s["lines"].pop(i); s["cuts"] = [min(c, len(s["lines"])) for c in s["cuts"]]
            if fails(s): cur = s; changed = True
            else: i += 1
        for i in range(len(cur["lines"])):
            progress = True
            while progress and budget > 0:
                progress = False
                for cand in _simplify_tokens(cur["lines"][i], set()):
                    s = copy.deepcopy(cur); s["lines"][i] = cand
                    if fails(s): cur = s; changed = progress = True; break
    return cur

def disk_signature(spec, mode, minimised=True):
    f = set() if minimised else {"not-minimised"}
    for l in (spec["lines"] if minimised else []):
        f |= features(l)
        for c in l:
            if c in "\u2028\u2029\x0b\x0c\x1c\x1d\x1e\x85": f.add("unicode-line-separator-char")
            if c == "\ufeff": f.add("bom-char")
    extra = ([f"mode={spec['mode']}"] if spec.get("mode") else []) + (["batched"] if spec["batch"] else []) + (["several-writes"] if spec["cuts"] else []) + (["many-lines"] if spec.get("repeat", 1) > 1 else [])
    return f"disk/{'gz' if spec['gz'] else 'plain'}/{'+'.join(sorted(f)) or 'plain'}{''.join('/' + e for e in extra)}/{mode}"

# ================================================================================================= reach counters
_REACH = Counter()
def _install_reach():
    from coba.pipes import readers
    C = readers.ArffLineReader
    if getattr(C, "_vf_reach", False): return
    for name in ("_dense_simple", "_dense_advanced", "_sparse"):
        orig = getattr(C, name)
        def wrap(self, line, _o=orig, _n=name):
            _REACH["reach.ArffLineReader." + _n] += 1
            return _o(self, line)
        setattr(C, name, wrap)
    C._vf_reach = True

# ================================================================================================= the checker
def _long_key(spec):
    if spec.get("repeat", 1) <= 1: return None
    return ("many-rows", spec["delivery"].get("chunk"))

def _case_key(spec):
    fmt = spec["fmt"]
    dv = spec["delivery"]
    if fmt in ("libsvm", "manik"):
        lab = set()
        for r in spec["rows"]:
            for l in r["labels"]: lab |= features(l)
        return ("table", fmt, tuple(spec["variant"]), dv["how"], dv.get("enc"), _long_key(spec), tuple(sorted(lab)),
                any(len(r["labels"]) > 1 for r in spec["rows"]), any(not r["feats"] for r in spec["rows"]))
    fn, fl, fv = set(), set(), set()
    for j, c in enumerate(spec["cols"]):
        fn |= features(c["name"])
        for l in c.get("levels") or []: fl |= features(l)
        for r in spec["rows"]:
            if c["type"] in ("string", "date") and r[j] is not None: fv |= features(r[j])
    return ("table", fmt, tuple(spec["variant"]), dv["how"], dv.get("enc"), _long_key(spec), tuple(sorted(c["type"] for c in spec["cols"])),
            tuple(sorted(fn)), tuple(sorted(fl)), tuple(sorted(fv)), any(v is None for r in spec["rows"] for v in r), spec.get("header"),
            _has_fraction(spec))

def check_case(spec, ctx=None, minimise=True):
    """returns [(sig, what, witness-spec)]"""
    _install_reach()
    kind = spec["kind"]
    if kind == "chunk":
        out = []
        if "vocab" in spec:
            return [(sig, what, w or spec) for sig, what, w in check_longchunk(spec, ctx)]
        for sig, what, only in check_chunk(spec, ctx):
            w = dict(spec)
            if only: w["only"] = only
            out.append((sig, what, w))
        return out
    if kind == "disk":
        if ctx:
            ctx.case(("disk", spec["gz"], spec.get("mode"), spec["batch"], len(spec["cuts"]), spec.get("repeat", 1) > 1, tuple(sorted(set().union(*[features(l) for l in spec["lines"]] or [set()])))),
                     nontrivial=len(spec["lines"]) > 0)
            ctx.count("oracle.disk.gz" if spec["gz"] else "oracle.disk.plain")
            if spec.get("repeat", 1) > 1: ctx.count("oracle.disk.many-lines." + ("gz" if spec["gz"] else "plain"))
            if spec.get("mode") and spec["batch"] and len(spec["lines"]) * spec.get("repeat", 1) >= spec["batch"]:
                ctx.count(f"oracle.disk.mode-{spec['mode']}.several-batches")
        r = check_disk(spec)
        if r is None: return []
        if minimise is False:       # (the shard's shrinking budget is used up: format, sink configuration and failure mode only)
            return [(disk_signature(spec, r[0], minimised=False), r[1], spec)]
        small = shrink_disk(spec, r[0]) if minimise is True else spec
        r2 = check_disk(small) or r
        return [(disk_signature(small, r2[0]), r2[1], small)]
    # table
    fmt = spec["fmt"]
    common = not spec["variant"]
    if ctx:
        ctx.case(_case_key(spec), nontrivial=len(spec["rows"]) > 0)
    r = check_table(spec)
    if ctx:
        if common: ctx.count(f"oracle.table.{fmt}.common")
        elif r == "raised": ctx.count("oracle.table.variant.raised")
        else: ctx.count("oracle.table.variant.equal" if r is None else "oracle.table.variant.differs")
        how = spec["delivery"]["how"]
        if how != "lines": ctx.count("oracle.table.delivery." + ("disk" if how.startswith("disk") else how))
        if how == "http" and r is None: ctx.count("oracle.table.delivery.http." + (spec["delivery"]["enc"] or "identity") + ".equal")
        if spec.get("repeat", 1) > 1 and r != "raised":
            ctx.count("oracle.table.many-rows")
            if how == "diskgz" or spec["delivery"].get("enc"):
                ctx.count("oracle.table.many-rows.compressed")
                if how == "chunk": ctx.count("oracle.table.many-rows.compressed." + ("body-in-one-chunk" if spec["delivery"]["chunk"] >= BIG_CHUNK else "several-chunks"))
        if fmt.startswith("arff") and r is None and _has_fraction(spec):
            # numeric / real / integer are three names of one type: a column declared under any of them holds any number
            for f, kwd in (("num_integer", "integer"), ("num_real", "real")):
                if f in spec["variant"]: ctx.count(f"oracle.table.arff.{kwd}-attribute.fractional-value")
            if "num_exp" in spec["variant"]: ctx.count("oracle.table.arff.exponent-notation.fractional-value")
        if fmt.startswith("arff") and r != "raised": ctx.count("oracle.table.missing-flag", len(spec["rows"]) * spec.get("repeat", 1))
        if fmt == "arff_sparse" and r is None:
            ctx.count("oracle.table.arff_sparse.empty-braces-row", sum(1 for row in spec["rows"] if all(
                v is not None and v == 0 and c["type"] in ("numeric", "nominal") for c, v in zip(spec["cols"], row))))
    if r is None or r == "raised": return []
    if spec["delivery"]["how"] == "http":
        # do the very same bytes parse (or fail in another way) when they are handed to the reader in chunks?  then the table and
        # the dialect do not matter: the url source in front of the reader is what fails (one signature per source class and failure mode)
        r2 = check_table(dict(spec, delivery={"how": "chunk", "enc": spec["delivery"]["enc"], "chunk": 64}))
        if r2 is None or r2 == "raised" or r2[:2] != r[:2]:
            src = {"arff_dense": "ArffSource", "arff_sparse": "ArffSource", "csv": "CsvSource", "libsvm": "LibSvmSource", "manik": "ManikSource"}[fmt]
            return [(f"table/{src}/delivery=http/same-bytes-parse-when-chunked/{r[1] if r[1].startswith('raise') else 'misread'}", r[2], spec)]
    if minimise == "as-is":
        return [(table_signature(spec, r[0], r[1]), r[2], spec)]
    if not minimise:
        many = f"delivery={spec['delivery']['how']}/many-rows/" if spec.get("repeat", 1) > 1 else ""
        return [(f"table/{fmt}/{'common' if common else 'variant'}/{many}{r[0]}/not-minimised/{r[1]}", r[2], spec)]
    small = shrink_table(spec, (r[0], r[1]))
    r2 = check_table(small)
    if r2 in (None, "raised"): small, r2 = spec, r
    return [(table_signature(small, r2[0], r2[1]), r2[2], small)]

# ================================================================================================= entry points
def run_shard(ctx):
    _install_reach()
    i = 0
    shrunk, long_shrunk = Counter(), 0
    while i < ctx.n and ctx.time_left() > 0:
        spec = gen_case(ctx.rng)
        if i < 3: ctx.sample({k: spec[k] for k in spec if k != "rows"} | ({"rows": spec["rows"][:2]} if "rows" in spec else {}))
        # shrinking is bounded per shard so that a badly broken tree still finishes: un-minimised failures are reported
        # under a coarse signature that is still mechanism-level (format, dialect class, locus, mode)
        long = spec.get("repeat", 1) > 1
        v = check_case(spec, ctx, minimise=(sum(shrunk.values()) < 250 and not (long and long_shrunk >= 10)))
        for sig, what, wit in v:
            if spec["kind"] != "chunk" and "/delivery=http/same-bytes-parse-when-chunked/" not in sig: shrunk[sig] += 1
            if long: long_shrunk += 1
            ctx.violation(sig, what, wit)
        ctx.count("cases." + spec["kind"])
        i += 1
    for k, n in _REACH.items(): ctx.count(k, n)
    if i < ctx.n: ctx.extra["cases_skipped_for_time"] = ctx.n - i

def replay(witness):
    return [(sig, what) for sig, what, _ in check_case(witness, None, minimise="as-is")]
