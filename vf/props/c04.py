"""C04 -- Environments can be read any number of times with identical results.

Read-history checker.  A case is (pipeline spec, history):

  pipeline = one source built through a public constructor (five synthetics, LambdaSimulation with/without rng,
             supervised from X/Y, from a generic source with label_col/take, from CSV/ARFF/LibSVM/Manik files,
             from_result (object / file), from_save, from_custom over a caller-owned interaction list)
             followed by a type-compatible chain of 0-6 built-in filters chosen by a small kind-tracker (Appendix B);
  history  = a word over {FULL, PARTIAL(k, close|drop), PARAMS, MATERIALIZE, CACHE, CHUNK, PICKLE, SAVE}; a FULL / PARTIAL read
             may carry one params look-up made INSIDE the read, at the moment j interactions have been pulled (j = 0: read() has
             returned its iterator but nothing has been pulled yet -- the lazy pipeline has not started).
Contexts / actions include categoricals one or two levels down inside list / dict / tuple cells (dense and sparse contexts,
dense actions), from sources that keep the caller's rows (X/Y, row lists, lambda tables, interaction lists).

The history is executed on ONE object built from the spec.  Oracles (all on canonical values, never identity):
  * every FULL read equals the first FULL read, the first FULL read equals the FULL read of a FRESH object built from
    the same spec, every PARTIAL read is a prefix of that sequence;
  * every params look-up made once the object has been read (a complete read, or an abandoned read that pulled at least one
    interaction) equals the first such look-up -- look-ups made inside a later read included -- and the first such look-up
    (when no transformation preceded it) equals what a FRESH object built from the same spec reports after one complete read;
  * deep snapshots of every caller-owned input (X/Y, rows, interaction lists, lambda tables, files' bytes, Result
    object, filter argument objects, logging learner) taken before and after the history are identical; on the fresh object the
    snapshot is also taken between its complete read and the params look-up that follows, so that a change is attributed to the
    read ('owned-modified') or to the look-up ('owned-modified-by-params-lookup');
  * the first judged params look-up is compared with the fresh object's also when transformations preceded it (the environment
    that materialize() / cache() / chunk() / pickling / save() hand back reports what the environment reports once it has been read);
  * pickling an object that the caller has read (completely or part-way) succeeds whenever it succeeds for a twin built from the same
    spec and taken through the same transformations without being read by the caller ('transform:PICKLE:raise:<T>'); a pickle.dumps
    that fails on the twin as well is 'not applicable' as before.
Logging policies (Logged, Environments.logged) are coba's own bandit learners -- which draw the action they play themselves and never
use the seed given to Logged -- and caller-written learners that answer with a PMF (as a list, under the {'pmf': ..} hint, in front of
a kwargs dict; fixed or learning), for which coba draws the action with a generator made from Logged's seed on every read; seeds include
0 and 0.0; the params of a caller-written learner are a new dict per look-up or the learner's own dict (a caller-owned object).
A violation is shrunk (filters / history steps removed while the same failure mode persists) so that the signature
names the mechanism: failure mode, source kind, the minimal filter chain and the minimal history.

Large-N cases.  The cases above have at most 55 interactions, so state inside a source / filter that only misbehaves once it has
overflowed (a bounded memo or lru cache, Cache's slices, a reservoir buffer, a 'using' window) is never reached.  Every shard
therefore also runs a fixed number of cases over 1500-5000 interactions (see RULE and the section "generators: large-N cases"):
same builders, same history executor, same oracles; reward and feedback functions are evaluated on every offered action of every
interaction in every read, as in the small cases.  A violating large-N case is first re-tried at an ordinary size; the signature
carries '+large-n' only when the failure does not survive there.

Collection cases.  All cases above hold ONE environment in their Environments object.  Every shard also runs a fixed number of cases
whose Environments holds 2-101 sibling environments (most often 11-30), made in every public way (a list of seeds, a + b + ...,
from_custom(*envs), shuffle(n=..), shuffle(seeds), reservoir(seeds=..), logged([learners]), filter([filters]) anywhere in the chain).
The history runs on one member; materialize() / cache() / chunk() / pickling / save() (what save() returns, from_save(path), a second
save() to the now existing path) are applied to the whole collection and 'the environment afterwards' is the member at the same
position.  The other members are read (and their params looked up) before the history in most cases, and always after it: each must
read what it read before (else: what the same member of a fresh collection reads) and report the params it reported before.  A read
or params that equal what ANOTHER member of the collection gives are reported as 'collection-member-moved'.
"""
import os, sys, json, time, random, pickle, shutil, tempfile, warnings, itertools, gc
from collections import Counter

ID    = "C04"
LEVEL = "exploration"
RULE  = ("seeded (pipeline, history) pairs: source kind x kind-tracked filter chain of length 0-6 x history over "
         "{FULL, PARTIAL(k,close|drop), PARAMS, MATERIALIZE, CACHE, CHUNK, PICKLE, SAVE}, reads optionally with one params "
         "look-up inside the read after j pulled interactions (j=0: before the first pull); one case = one history "
         "executed on one object; distinct & non-trivial = distinct (source kind, filter-name chain, history-op "
         "sequence, view) whose first read succeeds, with a non-empty chain or a partial read / transformation "
         "in the history, and at least two interactions in the reference read.  Logged takes coba's bandit learners (40%) or a caller-written "
         "learner answering with a PMF (list | {'pmf':..} | (pmf, kwargs); fixed | learning; params a fresh dict | its own dict) with seeds "
         "{1.23, 1, 2, 7.5, 0, 0.0}.  Besides these (sources of at most 55 interactions) a fixed "
         "number of LARGE-N cases per shard: a source of 1500-5000 interactions (stored as a recipe: source kind, seed, n), a chain that holds "
         "one designated filter -- in turn every size-sensitive filter (Grounded, Cache, Chunk, Reservoir, Shuffle, Logged) with every "
         "transformation, then every other filter -- between 0-2 random filters whose size parameters are on the scale of n, and a history "
         "[FULL] [PARTIAL] [transformation] FULL [PARTIAL|PARAMS] FULL [transformation FULL]; same oracles.  And a fixed number of COLLECTION "
         "cases per shard: the pipeline multiplied into 2-101 sibling environments (in turn: seed list, sum of Environments, from_custom(*envs), "
         "shuffle(n), shuffle(seeds), reservoir(seeds), filter([Params..]), logged([learners]) -- the last five in front of any filter of the chain -- "
         "each with every transformation in turn), the history [FULL] [PARTIAL] [PARAMS] transformation FULL [PARTIAL|PARAMS] FULL "
         "[transformation FULL] executed on one member with the transformations applied to the whole collection (SAVE: save()'s result | "
         "from_save | a second save() to the same path), the other members read before (65%) and after the history; same oracles per member")
PLAN  = {"quick":    {"shards": 16, "cases": 3200,  "timeout": 600,  "budget_s": 80},
         "thorough": {"shards": 16, "cases": 60000, "timeout": 3000, "budget_s": 800}}
REQUIRED = ["oracle.full-reread", "oracle.full-reread.two-or-more-interactions", "oracle.fresh", "oracle.partial-prefix", "oracle.full-after-partial",
            "oracle.params", "oracle.snapshot", "oracle.after.MATERIALIZE", "oracle.after.CACHE", "oracle.after.CHUNK",
            "oracle.after.PICKLE", "oracle.after.SAVE", "reach.shuffle-on-logged", "reach.cache-then-partial",
            "reach.source.sup-xy", "reach.source.lambda", "reach.source.sup-file", "reach.source.result",
            "reach.source.saved", "reach.source.syn", "reach.source.custom", "reach.source.sup-src",
            "oracle.params-fresh", "oracle.params-fresh.after-transformation", "oracle.params-during-read", "oracle.params.after-lookup-before-first-pull",
            "oracle.snapshot.params-lookup", "oracle.pickle-after-reads", "oracle.pickle-after-abandoned-read", "reach.pickle-while-a-cache-is-part-filled", "histories.transformed-while-read-state-is-part-way",
            "reach.logged.pmf-learner", "reach.logged.pmf-learner.seed-zero", "reach.logged.learner-hands-out-own-params-dict",
            "oracle.params.after-abandoned-read-only", "reach.nested-categorical.encoded", "reach.nested-categorical.encoded.after-partial",
            # large-N cases (reference read of at least LARGE_N interactions)
            "oracle.large-n.full-reread", "oracle.large-n.partial-prefix", "oracle.large-n.full-after-partial",
            "oracle.large-n.after.MATERIALIZE", "oracle.large-n.after.CACHE", "oracle.large-n.after.CHUNK", "oracle.large-n.after.PICKLE",
            "oracle.large-n.after.SAVE", "reach.large-n.filter.Grounded", "reach.large-n.filter.Cache", "reach.large-n.filter.Chunk",
            "reach.large-n.filter.Reservoir", "reach.large-n.filter.Shuffle", "reach.large-n.filter.Logged",
            "reach.large-n.feedbacks-reread-on-shared-interactions",
            # collection cases (Environments with several members; 'many': more than COLL_MANY members)
            "oracle.coll.member-reread", "oracle.coll.member-fresh", "oracle.coll.member-params", "oracle.coll.length",
            "oracle.coll.many.after.MATERIALIZE", "oracle.coll.many.after.CACHE", "oracle.coll.many.after.CHUNK", "oracle.coll.many.after.PICKLE",
            "oracle.coll.many.after.SAVE", "reach.coll.members.11-30", "reach.coll.members.over-30", "reach.coll.save.return",
            "reach.coll.save.from_save", "reach.coll.save.again", "reach.coll.how.seeds", "reach.coll.how.sum", "reach.coll.how.custom-many",
            "reach.coll.how.shuffle-n", "reach.coll.how.shuffle-seeds", "reach.coll.how.reservoir-seeds", "reach.coll.how.params-tags",
            "reach.coll.how.logged-learners"]
ASSUMPTIONS = [
    "seed=None (clock seeded) is never generated; filters that need optional packages (OpeRewards DM/DR, torch batches) are excluded",
    "a pipeline whose FIRST read raises the same exception type on the subject and on a fresh object is out of the domain "
    "(not type-compatible); it is counted under skip.invalid-pipeline and decides nothing",
    "a transformation that cannot be applied (pickle.dumps / save raising, e.g. Noise built from a lambda, Densify's closure) "
    "is skipped and counted; only what happens AFTER a successful transformation is judged",
    "no interleaved readers: an abandoned iterator is closed or dropped before the next operation starts",
    "chains follow DESIGN Appendix B; in particular, while interactions are batched only order-preserving sequence filters, Unbatch "
    "or BatchSafe(Finalize) follow (filters that re-order batches leave ragged batch sizes, which BatchSafe re-batches differently)",
    "reads compare canonical values (dense == dense, sparse == sparse, 1 == 1.0, NaN == NaN, reward functions by their values "
    "on the offered actions in action order), never object identity; the reader never mutates what it was handed",
    "params are compared only among look-ups made once the object 'has been read': after the first complete read or after an "
    "abandoned read that pulled at least one interaction (sources may learn n_actions while the first interaction is produced); "
    "look-ups before that, and look-ups inside the object's first read, are performed but not judged",
    "the first judged params look-up of the subject is compared with a fresh object's params after one complete read, with the two "
    "objects' temporary directories normalised -- also when materialize() / cache() / chunk() / pickling / save() preceded it: the statement "
    "lists these among the events after which the environment 'reports the same params'",
    "pickling: a pickle.dumps that raises after the caller's reads is a violation only when a twin built from the same spec and taken "
    "through the same transformations, never read by the caller, can be pickled (the statement lists pickling among what may follow "
    "complete and abandoned reads; whether an environment is picklable at all is not its business)",
    "caller-owned objects are snapshot over the whole history (reads, params look-ups, transformations -- the histories of the quantifier); "
    "a change made by a params look-up rather than by a read is reported under its own failure mode (owned-modified-by-params-lookup)",
    "logging policies written by the caller are deterministic functions of what predict / learn were given (a policy with its own unseeded "
    "randomness is outside the domain like seed=None)",
    "nested categoricals keep the same layout in every row of a column / key (coba locates categoricals by looking at the first row)",
    "large-N cases have 1500-5000 interactions and 2-4 actions: state that only overflows beyond that (a bound above ~5000 items, or above "
    "~4400-20000 reward / feedback evaluations between two reads of the same interaction) is not reached",
    "collection cases: at most 101 members, save() with processes=1 to a path that does not exist yet (or, 'again', that holds exactly the "
    "same collection: a file holding only some of the members is resumed, which appends the missing ones in another order by design); "
    "the members of a collection are read one after the other, never interleaved; one Cache filter object is never put into two pipelines "
    "(it holds the data of the pipeline it is in): on a collection Cache is always applied through Environments.cache()",
    "the position of a member identifies it: member i of what materialize()/cache()/chunk()/pickle/save() give for a collection is 'the same "
    "environment afterwards' as member i of the collection (Environments is a Sequence; coba's own save test zips the two)",
]

MAX_SHRINKS_PER_SHARD = 60

# =================================================================================================== value codec
# specs are JSON-able; these tags survive json round trips
def T(*xs):   return {"$t": list(xs)}
def D(items): return {"$d": [[k, v] for k, v in items]}
def CAT(v, levels): return {"$cat": [v, list(levels)]}

def dec(v):
    """encoded spec value -> fresh python object (every call builds new containers)"""
    from coba.primitives import Categorical, BinaryReward, DiscreteReward, L1Reward, HammingReward
    if isinstance(v, list): return [dec(x) for x in v]
    if isinstance(v, dict):
        if "$t" in v:   return tuple(dec(x) for x in v["$t"])
        if "$d" in v:   return {dec(k): dec(x) for k, x in v["$d"]}
        if "$cat" in v: return Categorical(v["$cat"][0], list(v["$cat"][1]))
        if "$R" in v:
            kind, *a = v["$R"]
            if kind == "binary":       return BinaryReward(dec(a[0]), *([a[1]] if len(a) > 1 else []))
            if kind == "discrete":     return DiscreteReward(dec(a[0]), dec(a[1]))
            if kind == "discrete-map": return DiscreteReward({dec(k): r for k, r in a[0]})
            if kind == "l1":           return L1Reward(a[0])
            if kind == "hamming":      return HammingReward(dec(a[0]))
        if any(isinstance(k, str) and k.startswith("$") for k in v): raise ValueError(f"unknown tag {v}")
        return {k: dec(x) for k, x in v.items()}          # an interaction: plain string keys
    return v

# =================================================================================================== canonical forms
class _Raised:
    def __init__(self, e): self.t = type(e).__name__
def _try(f, *a):
    try: return f(*a)
    except Exception as e: return _Raised(e)

def canon(v, depth=0):
    from coba.primitives import Categorical, Sparse, Dense, is_batch
    if depth > 8: return ("deep", type(v).__name__)
    if isinstance(v, _Raised): return ("raise", v.t)
    if v is None: return ("N",)
    if isinstance(v, bool): return int(v)
    if isinstance(v, (int, float)): return v if v == v else ("nan",)
    if isinstance(v, Categorical): return ("C", str(v), tuple(map(str, v.levels)))
    if isinstance(v, str): return ("s", v)
    if isinstance(v, bytes): return ("b", v)
    try:
        if isinstance(v, Sparse):
            items = [(canon(k, depth+1), canon(x, depth+1)) for k, x in v.items()]
            return ("S", tuple(sorted(items, key=repr)))
        if isinstance(v, Dense):
            return ("D", tuple(canon(x, depth+1) for x in v))
    except Exception as e:
        return ("raise-materialise", type(e).__name__)
    if isinstance(v, (set, frozenset)): return ("set", tuple(sorted((canon(x, depth+1) for x in v), key=repr)))
    if callable(v): return ("fn", type(v).__name__, repr(v))
    return ("o", type(v).__name__, repr(v))

_PROBES = (0, 1, 0.5, -2.25, "a")
def canon_rewardfn(f, actions):
    out = []
    try: acts = list(actions) if actions is not None else []
    except Exception: acts = []
    if acts:
        for a in acts: out.append(canon(_try(f, a)))
        if type(f).__name__ == "HammingReward":
            out.append(canon(_try(f, acts))); out.extend(canon(_try(f, [a])) for a in acts)
    else:
        for p in _PROBES: out.append(canon(_try(f, p)))
    return ("R", tuple(out))

def canon_interaction(it):
    from coba.primitives import is_batch
    try:
        if any(is_batch(v) for v in it.values()):
            key = next(k for k, v in it.items() if is_batch(v))
            n = len(it[key])
            rows = []
            for i in range(n):
                row = {}
                for k, v in it.items():
                    row[k] = v[i] if is_batch(v) else v
                rows.append(canon_interaction(row))
            return ("B", tuple(rows))
        out = []
        actions = it.get("actions")
        for k in sorted(it.keys(), key=str):
            v = it[k]
            if k in ("rewards", "feedbacks") and callable(v): out.append((k, canon_rewardfn(v, actions)))
            else: out.append((k, canon(v)))
        return tuple(out)
    except Exception as e:
        return ("raise-canon", type(e).__name__)

def canon_params(p):
    try: return tuple(sorted(((str(k), canon(v)) for k, v in dict(p).items()), key=repr))
    except Exception as e: return ("raise-params", type(e).__name__)

def diff_reads(got, ref):
    """-> None when equal, else (submode, text)"""
    if got == ref: return None
    if len(got) != len(ref):
        if not got:  return ("lost-all", f"read yielded 0 interactions, expected {len(ref)}")
        if len(got) < len(ref) and got == ref[:len(got)]: return ("lost-tail", f"read yielded {len(got)} interactions (a prefix), expected {len(ref)}")
        return ("length", f"read yielded {len(got)} interactions, expected {len(ref)}")
    try:
        if Counter(got) == Counter(ref): return ("order", f"same interactions in another order; first difference at index {next(i for i,(a,b) in enumerate(zip(got,ref)) if a!=b)}")
    except TypeError: pass
    i = next(i for i, (a, b) in enumerate(zip(got, ref)) if a != b)
    a, b = got[i], ref[i]
    where = "?"
    if isinstance(a, tuple) and isinstance(b, tuple) and a and b and isinstance(a[0], tuple) and isinstance(b[0], tuple):
        ka, kb = dict(x for x in a if len(x) == 2), dict(x for x in b if len(x) == 2)
        if ka.keys() != kb.keys(): where = f"keys {sorted(ka)} vs {sorted(kb)}"
        else:
            k = next((k for k in ka if ka[k] != kb[k]), "?")
            where = f"key {k!r}: {str(ka.get(k))[:160]} vs {str(kb.get(k))[:160]}"
            return (f"values:{k}", f"interaction {i} differs at {where}")
    return ("values", f"interaction {i} differs ({where})")

# =================================================================================================== deep snapshots
def snap(o, depth=0, seen=None):
    """recursive structural snapshot of a caller-owned object (types, order and values; no identities)"""
    from coba.primitives import Categorical
    if seen is None: seen = set()
    if depth > 10: return ("deep",)
    if o is None or isinstance(o, (bool, int, str, bytes)): return (type(o).__name__, o)
    if isinstance(o, float): return ("float", repr(o))
    if isinstance(o, Categorical): return ("Categorical", str(o), tuple(map(str, o.levels)))
    if id(o) in seen: return ("cycle",)
    seen = seen | {id(o)}
    if isinstance(o, (list, tuple)): return (type(o).__name__, tuple(snap(x, depth+1, seen) for x in o))
    if isinstance(o, dict): return (type(o).__name__, tuple((snap(k, depth+1, seen), snap(v, depth+1, seen)) for k, v in o.items()))
    if isinstance(o, (set, frozenset)): return (type(o).__name__, tuple(sorted(map(repr, o))))
    if hasattr(o, "gi_frame"):
        fr = o.gi_frame
        loc = {} if fr is None else {k: v for k, v in fr.f_locals.items() if isinstance(v, (int, float, str, bool, type(None)))}
        return ("generator", tuple(sorted((k, repr(v)) for k, v in loc.items())))
    if callable(o) and not hasattr(o, "__dict__") and not hasattr(o, "__slots__"): return ("callable", getattr(o, "__name__", type(o).__name__))
    state = {}
    for klass in type(o).__mro__:
        for s in getattr(klass, "__slots__", ()) or ():
            if isinstance(s, str) and hasattr(o, s): state[s] = getattr(o, s)
    if hasattr(o, "__dict__"): state.update(vars(o))
    if callable(o) and not state: return ("callable", getattr(o, "__name__", type(o).__name__))
    return (type(o).__name__, tuple((k, snap(v, depth+1, seen)) for k, v in sorted(state.items())))

def snapshot_owned(owned):
    out = {}
    for name, o in owned.items():
        if isinstance(o, tuple) and len(o) == 2 and o[0] == "$file":
            try:
                with open(o[1], "rb") as f: out[name] = ("file", f.read())
            except Exception as e: out[name] = ("file-unreadable", type(e).__name__)
        elif isinstance(o, tuple) and len(o) == 2 and o[0] == "$result":
            r = o[1]
            out[name] = snap([t.to_dicts() for t in (r.environments, r.learners, r.evaluators, r.interactions)])
        else:
            out[name] = snap(o)
    return out

# =================================================================================================== generators: data
NUMS   = [0, 1, 2, 3, -1, 0.5, 1.5, -2.0, 4.25, 10, 0.0, 1.0]
NZNUMS = [1, 2, 3, -1, 0.5, 1.5, -2.0, 4.25, 10]
STRS   = ["a", "b", "c", "x y", "d"]
SKEYS  = ["a", "b", "c", "d"]

CTX_PROFILES = ["none", "value-num", "value-num-none", "value-str", "dense-num", "dense-num", "dense-num-none", "dense-mixed",
                "dense-nested", "sparse-num", "sparse-num", "sparse-mixed", "sparse-none", "dense-nested-cat", "sparse-nested-cat"]

CAT_LEVELS = ["u", "v", "w"]
def gen_layout(rng, depth=0, need_cat=True):
    """a column layout: 'num' | 'cat' | ['list'|'tuple', [layouts]] | ['dict', [[key, layout]]] -- the SAME layout is used for the
    column in every row (coba locates categoricals by looking at the first row).  need_cat: some leaf is a categorical.
    depth 0 is always a container, depth 1 sometimes (categorical two levels down), depth 2 never."""
    if not (depth == 0 or (depth == 1 and rng.random() < .25)):
        return "cat" if need_cat else rng.choice(["num", "num", "cat"])
    shape = rng.choice(["list", "list", "dict", "dict", "tuple"])
    w = rng.randint(1, 3); at = rng.randrange(w)
    subs = [gen_layout(rng, depth+1, need_cat and j == at) for j in range(w)]
    if shape == "dict": return ["dict", [[k, sub] for k, sub in zip(["p", "q", "r"], subs)]]
    return [shape, subs]

def gen_from_layout(rng, lay):
    if lay == "num": return rng.choice(NUMS)
    if lay == "cat": return CAT(rng.choice(CAT_LEVELS), CAT_LEVELS)
    if lay[0] == "dict":  return D([(k, gen_from_layout(rng, sub)) for k, sub in lay[1]])
    vals = [gen_from_layout(rng, sub) for sub in lay[1]]
    return T(*vals) if lay[0] == "tuple" else vals

def layout_name(lay):
    if isinstance(lay, str): return lay
    if lay[0] == "dict": return "{" + ",".join(layout_name(sub) for _, sub in lay[1]) + "}"
    return ("(%s)" if lay[0] == "tuple" else "[%s]") % ",".join(layout_name(sub) for sub in lay[1])

def gen_contexts(rng, n, profile):
    """-> (encoded contexts, info)"""
    info = {"ctx": profile}
    if profile == "none": return [None]*n, info
    if profile == "value-num": return [rng.choice(NUMS) for _ in range(n)], info
    if profile == "value-num-none":
        c = [rng.choice(NUMS) if rng.random() > .3 else None for _ in range(n)]
        if n and rng.random() < .7: c[0] = rng.choice(NUMS)
        return c, info
    if profile == "value-str": return [rng.choice(STRS) for _ in range(n)], info
    if profile == "dense-nested-cat":
        # categoricals one (or two) levels down inside a list / dict / tuple cell of a dense context
        w = rng.randint(1, 3); info["width"] = w
        at = rng.randrange(w)
        lays = [gen_layout(rng) if j == at else rng.choice(["num", "num", "cat", gen_layout(rng, 0, False)]) for j in range(w)]
        # the nested cell is a container (a bare 'cat' would be the flat case)
        tup = rng.random() < .25
        info["tuple"] = tup; info["cols"] = [layout_name(l) for l in lays]
        rows = [[gen_from_layout(rng, l) for l in lays] for _ in range(n)]
        return ([T(*r) for r in rows] if tup else rows), info
    if profile == "sparse-nested-cat":
        # a sparse context whose values include containers holding categoricals; those keys are present in every row
        info["keys"] = "str"
        fixed = {"c": gen_layout(rng)}
        if rng.random() < .4: fixed["e"] = rng.choice(["cat", gen_layout(rng, 0, False)])
        info["cols"] = {k: layout_name(l) for k, l in fixed.items()}
        out = []
        for i in range(n):
            ks = [k for k in SKEYS[:2] if rng.random() < .6]
            items = [(k, rng.choice(NZNUMS)) for k in ks] + [(k, gen_from_layout(rng, l)) for k, l in fixed.items()]
            if rng.random() < .5: items.reverse()
            out.append(D(items))
        return out, info
    if profile.startswith("dense"):
        w = rng.randint(1, 4); info["width"] = w
        tup = rng.random() < .35 and profile != "dense-num-none"
        info["tuple"] = tup
        if profile == "dense-num": kinds = ["num"]*w
        elif profile == "dense-num-none": kinds = ["num?"]*w
        elif profile == "dense-mixed": kinds = [rng.choice(["num", "str", "cat", "num"]) for _ in range(w)]
        else:
            kinds = [rng.choice(["num", "nl", "nt"]) for _ in range(w)]
            if not any(k in ("nl", "nt") for k in kinds): kinds[rng.randrange(w)] = "nl"
        info["cols"] = kinds
        levels = ["u", "v", "w"]
        def cell(k, i):
            if k == "num":  return rng.choice(NUMS)
            if k == "num?": return None if (rng.random() < .3 and not (i == 0 and rng.random() < .7)) else rng.choice(NUMS)
            if k == "str":  return rng.choice(STRS)
            if k == "cat":  return CAT(rng.choice(levels), levels)
            if k == "nl":   return [rng.choice(NUMS), rng.choice(NUMS)]
            if k == "nt":   return T(rng.choice(NUMS), rng.choice(NUMS))
        rows = [[cell(k, i) for k in kinds] for i in range(n)]
        return ([T(*r) for r in rows] if tup else rows), info
    if profile.startswith("sparse"):
        info["keys"] = "str"
        kk = {k: ("str" if profile == "sparse-mixed" and rng.random() < .4 else "num") for k in SKEYS}
        info["keykinds"] = kk
        out = []
        late = "e" if rng.random() < .4 else None      # a feature name that first shows up in the second half of the data
        if late: kk[late] = "num"
        for i in range(n):
            ks = [k for k in SKEYS if rng.random() < .6] or [rng.choice(SKEYS)]
            if i == 0 and rng.random() < .6: ks = list(SKEYS)
            if late and i >= max(1, n // 2) and (i == n - 1 or rng.random() < .6): ks = ks + [late]
            def val(k):
                if profile == "sparse-none" and rng.random() < .3 and not (i == 0 and rng.random() < .7): return None
                return rng.choice(STRS) if kk[k] == "str" else rng.choice(NZNUMS)
            out.append(D([(k, val(k)) for k in ks]))
        return out, info
    raise ValueError(profile)

ACT_PROFILES = ["onehot", "onehot", "str", "str", "cat", "int", "float01", "dense", "sparse", "nested-cat"]
def gen_actions(rng, n, profile):
    k = rng.randint(2, 4)
    vary = rng.choice(["const", "const", "perm", "size"]) if profile in ("str", "int", "cat") else rng.choice(["const", "const", "perm"])
    if profile == "onehot": base = [T(*[1 if i == j else 0 for j in range(k)]) for i in range(k)]; vary = "const" if rng.random() < .8 else vary
    elif profile == "str": base = ["a", "b", "c", "d"][:k]
    elif profile == "cat": lv = ["p", "q", "r", "s"][:k]; base = [CAT(l, lv) for l in lv]
    elif profile == "int": base = rng.choice([[0, 1, 2, 3], [3, 1, 2, 7], [1, 0, 5, 2]])[:k]
    elif profile == "float01": base = [0.0, 0.5, 1.0, 0.25][:k]
    elif profile == "nested-cat":
        # every action is a dense row with a categorical one level down: [[cat, x], y] / [{'p': cat}, y]
        lv = ["p", "q", "r", "s"][:k]; inner = rng.choice(["list", "list", "dict"])
        mk = (lambda l, x: [CAT(l, lv), x]) if inner == "list" else (lambda l, x: D([("p", CAT(l, lv)), ("q", x)]))
        base = [[mk(l, rng.choice(NUMS)), rng.choice(NUMS)] for l in lv]
    out = []
    for i in range(n):
        if profile == "dense":  a = [[rng.choice(NUMS), rng.choice(NUMS)] for _ in range(k)]
        elif profile == "sparse": a = [D([(kk, rng.choice(NZNUMS)) for kk in rng.sample(SKEYS, rng.randint(1, 3))]) for _ in range(k)]
        else:
            a = list(base)
            if vary == "perm": rng.shuffle(a)
            if vary == "size": a = a[:rng.randint(2, k)] if k > 2 else a
        out.append(a)
    hashable = profile in ("onehot", "str", "cat", "int", "float01")
    return out, {"acts": profile, "hashable": hashable, "vary": vary, "k": k}

def gen_rewards(rng, actions, hashable, forms=("list", "list", "binary", "discrete", "discrete-map")):
    form = rng.choice(forms)
    if form == "discrete-map" and not hashable: form = "discrete"
    out = []
    for acts in actions:
        r = [rng.choice([0, 1, 0.25, 0.5, 0.75, 2, -1]) for _ in acts]
        if form == "list": out.append(r)
        elif form == "binary": out.append({"$R": ["binary", acts[rng.randrange(len(acts))]] + ([0.5] if rng.random() < .3 else [])})
        elif form == "discrete": out.append({"$R": ["discrete", acts, r]})
        else:
            pairs = list(zip(acts, r)); rng.shuffle(pairs)
            out.append({"$R": ["discrete-map", [[a, x] for a, x in pairs]]})
    return out, ("list" if form == "list" else "callable")

def pick_n(rng):
    return rng.choice([0, 1, 2, 3, 4, 5, 6, 8, 10, 12, 12, 24, 25, 26, 27, 40, 55])

# =================================================================================================== generators: sources
def gen_source(rng, allow_saved=True):
    r = rng.random()
    if r < .16:   return gen_src_syn(rng)
    if r < .32:   return gen_src_lambda(rng)
    if r < .44:   return gen_src_supxy(rng)
    if r < .54:   return gen_src_supsrc(rng)
    if r < .68:   return gen_src_supfile(rng)
    if r < .78:   return gen_src_result(rng)
    if r < .92 or not allow_saved: return gen_src_custom(rng)
    return gen_src_saved(rng)

def gen_src_syn(rng, n=None):
    which = rng.choice(["bandit", "linear", "neighbors", "kernel", "mlp"])
    n = pick_n(rng) if n is None else n
    ncf, naf = rng.choice([(0, 0), (2, 0), (0, 2), (3, 2), (1, 1)])
    if which == "bandit": ncf = naf = 0
    s = {"kind": "syn", "which": which, "n": n, "n_actions": rng.randint(2, 4), "ncf": ncf, "naf": naf, "seed": rng.randint(0, 50)}
    if which == "linear": s["reward_features"] = rng.choice([["a", "xa"], ["x", "a"], ["xa"], ["a", "xa", "xxa"]]); s["n_coeff"] = rng.choice([None, 2, 5])
    if which == "neighbors": s["n_neighborhoods"] = rng.randint(1, 6)
    if which == "kernel": s["kernel"] = rng.choice(["linear", "polynomial", "exponential", "gaussian"]); s["n_exemplars"] = rng.randint(1, 4)
    st = {"ctx": "dense-num" if ncf else "none", "width": ncf, "acts": "dense" if naf else "onehot", "hashable": not naf, "rw": "list",
          "logged": False, "fb": False, "batched": False, "n": n}
    return s, st

def gen_src_lambda(rng, n=None):
    n = pick_n(rng) if n is None else n
    cp = rng.choice(CTX_PROFILES); ap = rng.choice(ACT_PROFILES)
    m = max(n, 1)
    ctx, ci = gen_contexts(rng, m, cp); acts, ai = gen_actions(rng, m, ap)
    rw = [[rng.choice([0, 1, 0.25, 0.5, 2, -1]) for _ in a] for a in acts]
    use_rng = rng.random() < .5
    s = {"kind": "lambda", "n": n, "rng": use_rng, "seed": rng.randint(0, 30), "ctx": ctx, "acts": acts, "rw": rw}
    st = {**ci, **ai, "rw": "list", "logged": False, "fb": False, "batched": False, "n": n}
    return s, st

def gen_src_supxy(rng, n=None):
    n = rng.choice([1, 2, 3, 4, 5, 6, 8, 10, 12, 26, 30]) if n is None else n
    cp = rng.choice(["value-num", "dense-num", "dense-num", "dense-mixed", "dense-num-none", "sparse-num", "sparse-mixed", "value-str", "dense-nested",
                     "dense-nested-cat", "dense-nested-cat", "sparse-nested-cat"])
    X, ci = gen_contexts(rng, n, cp)
    lt = rng.choice(["str", "str", "int-c", "num-r", "cat", "multi", "listed"])
    if lt == "str":     Y = [rng.choice(["a", "b", "c"]) for _ in range(n)]; label_type = rng.choice([None, "c", "C"]); acts = "str"
    elif lt == "int-c": Y = [rng.choice([0, 1, 2, 5]) for _ in range(n)]; label_type = "c"; acts = "int"
    elif lt == "num-r": Y = [rng.choice(NUMS) for _ in range(n)]; label_type = rng.choice([None, "r"]); acts = "empty"
    elif lt == "cat":   lv = ["p", "q", "r"]; Y = [CAT(rng.choice(lv), lv) for _ in range(n)]; label_type = rng.choice([None, "c"]); acts = "cat"
    elif lt == "multi": Y = [rng.sample(["a", "b", "c", "d"], rng.randint(1, 3)) for _ in range(n)]; label_type = "m"; acts = "str"
    else:               Y = [[rng.choice(["a", "b", "c"])] for _ in range(n)]; label_type = rng.choice([None, "c"]); acts = "str"
    s = {"kind": "sup-xy", "X": X, "Y": Y, "label_type": label_type, "xtuple": rng.random() < .2}
    st = {**ci, "acts": acts, "hashable": True, "rw": "callable", "logged": False, "fb": False, "batched": False, "n": n}
    return s, st

def gen_src_supsrc(rng, n=None):
    big = n is not None
    n = rng.choice([1, 2, 3, 4, 5, 6, 8, 10, 12, 26, 30]) if n is None else n
    form = rng.choice(["pairs", "dense-labelcol", "sparse-labelcol"])
    labels = [rng.choice(["a", "b", "c"]) for _ in range(n)] if rng.random() < .7 else [rng.choice([0.5, 1, 2.5, 3]) for _ in range(n)]
    is_r = not isinstance(labels[0], str)
    take = rng.choice([None, None, 1, 3, n, n+2]) if not big else rng.choice([None, None, n//2 + 700, n, n+2])
    if form == "pairs":
        X, ci = gen_contexts(rng, n, rng.choice(["dense-num", "sparse-num", "value-num", "dense-mixed", "dense-nested-cat", "sparse-nested-cat"]))
        rows = [T(x, y) for x, y in zip(X, labels)]; label_col = None
    elif form == "dense-labelcol":
        X, ci = gen_contexts(rng, n, rng.choice(["dense-num", "dense-mixed", "dense-num-none", "dense-nested-cat"]))
        w = ci["width"]; label_col = rng.randrange(w+1)
        X = [x["$t"] if isinstance(x, dict) else x for x in X]
        rows = [x[:label_col] + [y] + x[label_col:] for x, y in zip(X, labels)]
        if ci.get("tuple"): rows = [T(*r) for r in rows]
        ci = {**ci, "lazy": True}
    else:
        X, ci = gen_contexts(rng, n, rng.choice(["sparse-num", "sparse-mixed"]))
        label_col = "y"
        rows = [D(x["$d"] + ([["y", y]] if not (is_r and rng.random() < .2) else [])) for x, y in zip(X, labels)]
        ci = {**ci, "lazy": True}
    s = {"kind": "sup-src", "rows": rows, "label_col": label_col, "label_type": rng.choice([None, "r" if is_r else "c"]), "take": take,
         "src": rng.choice(["list", "iterable"])}
    st = {**ci, "acts": "empty" if is_r else "str", "hashable": True, "rw": "callable", "logged": False, "fb": False, "batched": False, "n": n}
    return s, st

def gen_src_supfile(rng, n=None):
    big = n is not None
    n = rng.choice([1, 2, 3, 4, 5, 6, 8, 10, 12, 26, 30]) if n is None else n
    fmt = rng.choice(["csv", "csv", "arff", "arff", "arff-sparse", "libsvm", "manik"])
    take = rng.choice([None, None, 2, n, n+1]) if not big else rng.choice([None, None, n//2 + 700, n, n+1])
    lt = None
    if fmt == "csv":
        w = rng.randint(1, 3); hdr = rng.random() < .6
        lines = ([",".join([f"f{i}" for i in range(w)] + ["y"])] if hdr else [])
        for _ in range(n): lines.append(",".join([str(rng.choice([0, 1, 2, 3, 1.5, 7])) for _ in range(w)] + [rng.choice(["a", "b", "c"])]))
        label_col = "y" if hdr and rng.random() < .5 else w
        s = {"kind": "sup-file", "fmt": fmt, "text": "\n".join(lines) + ("\n" if rng.random() < .7 else ""), "has_header": hdr, "label_col": label_col}
        st = {"ctx": "dense-str", "width": w, "acts": "str", "lazy": True}
    elif fmt in ("arff", "arff-sparse"):
        w = rng.randint(1, 3); nominal_feat = rng.random() < .3; reg = rng.random() < .25
        lines = ["@relation r"] + [f"@attribute f{i} numeric" for i in range(w)]
        if nominal_feat: lines.append("@attribute g {u,v,w}")
        lines.append("@attribute y numeric" if reg else "@attribute y {a,b,c}")
        lines.append("@data")
        for _ in range(n):
            vals = [str(rng.choice([1, 2, 3, 1.5, 7, 0])) for _ in range(w)]
            if nominal_feat: vals.append(rng.choice(["u", "v", "w"]))
            vals.append(str(rng.choice([1, 2.5, 3])) if reg else rng.choice(["a", "b", "c"]))
            if fmt == "arff": lines.append(",".join(vals))
            else: lines.append("{" + ",".join(f"{i} {v}" for i, v in enumerate(vals) if v != "0") + "}")
        s = {"kind": "sup-file", "fmt": fmt, "text": "\n".join(lines) + "\n", "label_col": "y"}
        st = {"ctx": ("dense-mixed" if nominal_feat else "dense-num") if fmt == "arff" else ("sparse-mixed" if nominal_feat else "sparse-num"),
              "width": w + nominal_feat, "keys": "str", "acts": "empty" if reg else "cat", "lazy": True}
    else:
        multi = fmt == "manik" and rng.random() < .5
        lines = ["meta 1 2"] if fmt == "manik" else []
        for _ in range(n):
            lbl = ",".join(rng.sample(["0", "1", "2"], rng.randint(1, 2))) if multi else rng.choice(["0", "1", "2"])
            ks = sorted(rng.sample([1, 2, 3, 4], rng.randint(1, 3)))
            lines.append(lbl + " " + " ".join(f"{k}:{rng.choice([1, 2, 0.5, 3])}" for k in ks))
        lt = "m" if multi else rng.choice([None, "c"])
        s = {"kind": "sup-file", "fmt": fmt, "text": "\n".join(lines) + "\n", "label_col": None}
        st = {"ctx": "sparse-num", "keys": "int", "acts": "str"}
    s["label_type"] = lt; s["take"] = take
    st = {"hashable": True, "rw": "callable", "logged": False, "fb": False, "batched": False, "n": n, **st}
    return s, st

def gen_src_result(rng, n=None):
    n = rng.choice([1, 2, 3, 5, 8, 12, 26, 30]) if n is None else n
    k = rng.randint(2, 3)
    onehot = [[1 if i == j else 0 for j in range(k)] for i in range(k)]
    cols = {}
    has_ctx = rng.random() < .8
    if has_ctx: cols["context"] = [[round(rng.uniform(-1, 1), 3) for _ in range(2)] for _ in range(n)]
    full = rng.random() < .6; logged = rng.random() < .8 or not full
    if full:
        cols["actions"] = [onehot for _ in range(n)]
        cols["rewards"] = [[rng.choice([0, 1, 0.5, 0.25]) for _ in range(k)] for _ in range(n)]
    if logged:
        cols["action"] = [onehot[rng.randrange(k)] for _ in range(n)]
        cols["reward"] = [rng.choice([0, 1, 0.5, 0.25]) for _ in range(n)]
        if rng.random() < .7: cols["probability"] = [round(1/k, 5) for _ in range(n)]
    lines = ['["version",4]', '["experiment",{"n_learners":1,"n_environments":1,"description":null,"seed":1}]',
             '["L",0,{"family":"Random","seed":1}]', '["V",0,{"eval_type":"SequentialCB","seed":null}]',
             '["E",0,{"env_type":"LinearSynthetic","n_actions":%d,"seed":%d}]' % (k, rng.randint(1, 9)),
             '["I",[0,0,0],' + json.dumps({"_packed": cols}, separators=(",", ":")) + ']']
    s = {"kind": "result", "via": rng.choice(["object", "file"]), "log": "\n".join(lines) + "\n"}
    st = {"ctx": "dense-num" if has_ctx else "absent", "width": 2, "acts": "dense" if full else "absent", "hashable": False,
          "rw": "callable" if full else "absent", "logged": logged, "fb": False, "batched": False, "n": n}
    # (a Result object hands rewards back as DiscreteReward through Finalize only; unfinalised they are lists)
    if full: st["rw"] = "list"
    return s, st

def gen_src_custom(rng, n=None):
    n = pick_n(rng) if n is None else n
    cp = rng.choice(CTX_PROFILES + ["absent"]); m = n
    logged_only = rng.random() < .3
    ctx, ci = gen_contexts(rng, m, cp) if cp != "absent" else ([None]*m, {"ctx": "absent"})
    inter = []
    if logged_only:
        ap = rng.choice(["str", "int", "onehot", "dense"])
        acts, ai = gen_actions(rng, m, ap)
        prob = rng.random() < .7
        for i in range(m):
            d = {}
            if cp != "absent": d["context"] = ctx[i]
            d["action"] = acts[i][rng.randrange(len(acts[i]))]; d["reward"] = rng.choice([0, 1, 0.5, 2]);
            if prob: d["probability"] = rng.choice([0.25, 0.5, 1.0])
            inter.append(d)
        st = {**ci, "acts": "absent", "hashable": ai["hashable"], "rw": "absent", "logged": True, "fb": False, "batched": False, "n": n}
    else:
        ap = rng.choice(ACT_PROFILES)
        acts, ai = gen_actions(rng, m, ap)
        rws, rk = gen_rewards(rng, acts, ai["hashable"])
        extra = rng.random() < .3
        also_logged = rng.random() < .25
        for i in range(m):
            d = {}
            if cp != "absent": d["context"] = ctx[i]
            d["actions"] = acts[i]; d["rewards"] = rws[i]
            if also_logged:
                j = rng.randrange(len(acts[i])); d["action"] = acts[i][j]; d["reward"] = rng.choice([0, 1, 0.5]); d["probability"] = 0.5
            if extra: d["note"] = i
            inter.append(d)
        st = {**ci, **ai, "rw": rk, "logged": also_logged, "fb": False, "batched": False, "n": n}
    return {"kind": "custom", "interactions": inter, "as_list": rng.random() < .5}, st

def gen_src_saved(rng, n=None):
    inner, st = rng.choice([gen_src_syn, gen_src_lambda, gen_src_custom])(rng, n)
    if n is not None: st = dict(st, big=n)
    chain = []
    for _ in range(rng.randint(0, 2)):
        f = gen_filter(rng, st)
        if f: chain.append(f)
    # what is stored went through Finalize: lazies hardened, Categoricals one-hot, list rewards wrapped
    st = dict(st); st["rw"] = "callable" if st["rw"] != "absent" else "absent"; st.pop("big", None)
    if st.get("acts") == "cat": st["acts"] = "onehot"
    if st.get("ctx") == "dense-mixed": st["ctx"] = "dense-mixed-final"
    return {"kind": "saved", "inner": inner, "chain": chain}, st

# =================================================================================================== generators: filters
SEQ_LEVEL = ["Take", "Slice", "Shuffle", "Reservoir", "Riffle", "Cache", "Chunk", "Params", "Identity"]

# Logging policies for Logged / Environments.logged.  coba's own bandit learners draw the action they play with their OWN seeded
# generator and answer (action, probability): the seed given to logged(..., seed=) is then never used.  A caller-written learner
# in coba's classic interface answers with a PMF over the offered actions (as a list, under the {'pmf': ..} hint, or in front of
# a kwargs dict that learn() gets back) and coba draws the action with the generator of the evaluator that Logged.filter builds
# from `seed` on every read.  "pmf:<form>:<policy>:<params>":
#   form   = list | hint | kwargs      how the prediction is written
#   policy = fixed | learns            position weights only | epsilon-greedy over what learn() has seen so far (stateful)
#   params = fresh | own               params builds a new dict with 'family' on every look-up | hands out the learner's own dict
#                                      (which has no 'family' entry) -- that dict belongs to the caller
BUILTIN_LEARNERS = ["random", "epsilon", "ucb"]
LOG_SEEDS = [1.23, 1, 2, 7.5, 0, 0, 0.0]
def gen_learner(rng):
    if rng.random() < .4: return rng.choice(BUILTIN_LEARNERS)
    return "pmf:%s:%s:%s" % (rng.choice(["list", "list", "hint", "kwargs"]), rng.choice(["fixed", "learns"]), rng.choice(["fresh", "fresh", "own"]))
PLAIN_PMF_LEARNER = "pmf:list:fixed:fresh"
def learner_label(name):
    """what the signature says about a logging policy: nothing for coba's own learners"""
    if not name.startswith("pmf:"): return ""
    return "(pmf-learner" + (",own-params-dict" if name.endswith(":own") else "") + ")"

def gen_filter(rng, st, force=None):
    """picks one applicable filter for the tracked kind `st`, updates `st` in place, returns its spec (or None).
    force: this filter or nothing (None when it is not applicable to the tracked kind).
    st['big'] = N (large-N cases): size parameters (Take, Slice, Reservoir, Where, Batch, Scale/Impute using, Cycle, Cache slices)
    are drawn on the scale of N so that the stream stays long."""
    big = st.get("big")
    sim = st["acts"] not in ("absent", "empty") and st["rw"] != "absent"
    has_ctx = st["ctx"] != "absent"
    cands = []
    if st["batched"]:
        # Appendix B: after Batch only Unbatch, Finalize (BatchSafe) or the end of the chain; order-preserving sequence-level
        # filters keep "all batches but the last have the same size", which BatchSafe relies on when it re-batches -- filters that
        # re-order batches (Shuffle, Reservoir, Riffle) do not and are outside the domain
        cands = ["Take", "Slice", "Cache", "Chunk", "Params", "Identity", "Unbatch", "Unbatch", "Unbatch", "Finalize", "Finalize"]
    else:
        cands = SEQ_LEVEL + ["Shuffle", "Shuffle", "Cache", "Take", "Finalize", "Repr", "Densify", "Noise", "Where", "Batch", "Unbatch", "OpeNone"]
        if has_ctx and st["ctx"] in ("value-num", "dense-num", "dense-mixed", "dense-str", "sparse-num", "sparse-mixed", "densified"): cands += ["Scale", "Scale"]
        if has_ctx and st["ctx"] != "none": cands += ["Impute", "Impute"]
        if has_ctx and st["ctx"] in ("dense-num", "sparse-num") and (st["ctx"] != "sparse-num" or st.get("keys") == "str"): cands += ["Sort", "Sort"]
        if has_ctx and st["acts"] != "empty": cands += ["Sparsify"]
        if (has_ctx and st["ctx"] != "none") or st["acts"] not in ("absent", "empty"): cands += ["Flatten"]
        if sim: cands += ["Binary", "Grounded", "Logged", "Logged"] + (["Cycle"] if st.get("hashable") else [])
        if st["logged"]: cands += ["OpeIPS", "OpeIPS", "Shuffle", "Shuffle"]
    if force is not None:
        if force not in cands: return None
        name = force
    else: name = rng.choice(cands)
    a = {}
    if big and name in ("Take", "Slice", "Reservoir", "Cache", "Where", "Batch", "Scale", "Impute", "Cycle", "Grounded"):
        N = big
        if name == "Take":        a = {"n": rng.choice([N, N-1, N+5, N//2 + 700, 4097, 1400]), "strict": rng.random() < .1}
        elif name == "Slice":     a = {"start": rng.choice([None, 0, 1, 7]), "stop": rng.choice([None, None, N-3, N//2 + 700]), "step": rng.choice([1, 1, 1, 2])}
        elif name == "Reservoir": a = {"n": rng.choice([None, N, N-1, N//2 + 700, 1400, 4097]), "seed": rng.choice([1, 2, 5, 0.5, 0]), "strict": rng.random() < .1}
        elif name == "Cache":     a = {"n_slice": rng.choice([25, 1, 2, 7, 1000, 4096])} if rng.random() < .5 else {}
        elif name == "Where":
            a = {"n_interactions": rng.choice([None, T(1000, None), T(1, None), T(None, 100000), T(1000, 100000)]),
                 "n_actions": rng.choice([None, None, T(2, None), T(None, 4)]) if st["acts"] not in ("absent",) else None, "n_features": None}
        elif name == "Batch":     a = {"size": rng.choice([1, 2, 3, 5, 64, 1000])}
        elif name == "Scale":
            shift = rng.choice([0, "min", "mean", "med", 1.5]); scale = rng.choice(["minmax", "std", "iqr", "maxabs", 2])
            if st["ctx"].startswith("sparse"): shift = 0
            a = {"shift": shift, "scale": scale, "using": rng.choice([None, None, 5, 1000, N, N+10])}
        elif name == "Impute":    a = {"stat": rng.choice(["mean", "median", "mode"]), "indicator": rng.random() < .6, "using": rng.choice([None, None, 5, 1000, N])}
        elif name == "Cycle":     a = {"after": rng.choice([0, 1, 5, N//2, N-1])}
        elif name == "Grounded":
            nu = rng.choice([1, 2, 3, 5, 10, 50]); nw = rng.randint(3, 8)
            a = {"n_users": nu, "n_normal": rng.randint(0, nu), "n_words": nw, "n_good": rng.randint(1, nw-1), "seed": rng.randint(0, 9)}
    elif name == "Take":      a = {"n": rng.choice([0, 1, 2, 3, 5, 10, 25, 26, 100]), "strict": rng.random() < .2}
    elif name == "Slice":     a = {"start": rng.choice([None, 0, 1, 2, 5]), "stop": rng.choice([None, None, 3, 8, 30]), "step": rng.choice([1, 1, 2, 3])}
    elif name == "Shuffle":   a = {"seed": rng.choice([0, 1, 2, 3, 7, 11, 100])}
    elif name == "Reservoir": a = {"n": rng.choice([None, 0, 1, 3, 5, 12, 30]), "seed": rng.choice([1, 2, 5, 0.5, 0]), "strict": rng.random() < .15}
    elif name == "Riffle":    a = {"spacing": rng.choice([1, 2, 3, 5]), "seed": rng.randint(0, 9)}
    elif name == "Cache":     a = {"n_slice": rng.choice([25, 25, 1, 2, 7])} if rng.random() < .4 else {}
    elif name == "Params":    a = {"params": D([("tag", rng.choice(["t", 1, 2.5])), ("nested", [1, 2])])}
    elif name == "Repr":      a = {"ctx": rng.choice([None, "onehot", "onehot_tuple", "string"]), "act": rng.choice([None, "onehot", "onehot_tuple", "string"])}
    elif name == "Densify":
        method = rng.choice(["lookup", "lookup", "hashing"])
        if method == "hashing" and st["ctx"].startswith("sparse") and st.get("keys") != "str": method = "lookup"
        a = {"n_feats": rng.choice([3, 4, 8, 16, 400]), "method": method, "context": True, "action": rng.random() < .2 and st["acts"] == "sparse"}
    elif name == "Noise":
        t = lambda: rng.choice([None, T("g", 0, 1), T(0, 0.5), T("i", 0, 3)])
        a = {"context": t(), "action": t() if st["acts"] in ("dense", "absent") else None, "reward": t(), "seed": rng.randint(0, 9)}
        if st["rw"] == "callable" and st["acts"] in ("absent", "empty"): a["reward"] = None
    elif name == "Where":
        rg = lambda hi: rng.choice([None, rng.randint(0, hi), T(rng.choice([None, 1, 2]), rng.choice([None, 3, 5, 30]))])
        a = {"n_interactions": rg(6), "n_actions": rg(4) if st["acts"] not in ("absent",) else None, "n_features": rg(4) if rng.random() < .4 else None}
    elif name == "Batch":     a = {"size": rng.choice([1, 2, 3, 5])}
    elif name == "Scale":
        shift = rng.choice([0, "min", "mean", "med", 1.5]); scale = rng.choice(["minmax", "std", "iqr", "maxabs", 2])
        if st["ctx"].startswith("sparse"): shift = 0
        a = {"shift": shift, "scale": scale, "using": rng.choice([None, None, 1, 2, 5])}
    elif name == "Impute":    a = {"stat": rng.choice(["mean", "median", "mode"]), "indicator": rng.random() < .6, "using": rng.choice([None, None, 2, 5])}
    elif name == "Sort":
        if st["ctx"] == "dense-num": a = {"keys": rng.choice([[], [0], [[0]], [0, st.get("width", 1)-1]])}
        else: a = {"keys": rng.choice([["a"], ["b", "a"], ["0"], []])}
    elif name == "Sparsify":  a = {"context": True, "action": rng.random() < .15}
    elif name == "Grounded":
        nu = rng.randint(1, 5); nw = rng.randint(2, 5)
        a = {"n_users": nu, "n_normal": rng.randint(0, nu), "n_words": nw, "n_good": rng.randint(1, nw-1), "seed": rng.randint(0, 9)}
    elif name == "Logged":    a = {"learner": gen_learner(rng), "seed": rng.choice(LOG_SEEDS)}
    elif name == "Cycle":     a = {"after": rng.choice([0, 1, 2, 5])}
    # ---- kind tracking
    if name == "Batch": st["batched"] = True
    elif name == "Unbatch": st["batched"] = False
    elif name == "Scale":
        if st["ctx"] in ("dense-str",): pass
    elif name == "Impute":
        if st["ctx"].endswith("-none"): st["ctx"] = st["ctx"][:-5]
        if st["ctx"] == "value-num" and a["indicator"]: st["ctx"] = "value-or-dense"
        st.pop("width", None) if a["indicator"] and "width" in st and False else None
    elif name == "Sparsify":
        if st["ctx"] not in ("none", "absent"):
            st["ctx"] = {"dense-num": "sparse-num", "value-num": "sparse-num", "dense-num-none": "sparse-none", "value-num-none": "sparse-none"}.get(st["ctx"], st["ctx"] if st["ctx"].startswith("sparse") else "sparse-mixed")
            st["keys"] = st.get("keys", "str")
        if a["action"] and st["acts"] not in ("absent", "empty"): st["acts"] = "sparse"; st["hashable"] = False
    elif name == "Densify":
        if st["ctx"].startswith("sparse"): st["ctx"] = "densified"
    elif name == "Flatten":
        if st["ctx"] == "dense-nested": st["ctx"] = "dense-num"; st["width"] = 1
        if st["ctx"] == "dense-nested-cat": st["ctx"] = "dense-mixed"; st.pop("width", None)
    elif name == "Binary": pass
    elif name == "Grounded": st["fb"] = True; st["rw"] = "callable"
    elif name == "Logged": st["logged"] = True
    elif name == "OpeIPS": st["rw"] = "callable"
    elif name == "Repr":
        if a["ctx"] and st["ctx"] == "dense-mixed": st["ctx"] = "dense-mixed-final"
        if a["act"] and st["acts"] == "cat": st["acts"] = "onehot" if a["act"] != "string" else "str"
    elif name == "Finalize":
        if st["acts"] == "cat": st["acts"] = "onehot"
        if st["ctx"] == "dense-mixed": st["ctx"] = "dense-mixed-final"
        if st["rw"] == "list": st["rw"] = "callable"
    elif name == "Noise":
        if st["ctx"] in ("dense-num",) and a["context"]: pass
    return {"f": name, "a": a}

STATEFUL_WHILE_READ = ("Cache",)
OPS_ALL = ["FULL", "PARTIAL", "PARAMS", "MATERIALIZE", "CACHE", "CHUNK", "PICKLE", "SAVE"]
def op_peek(op):
    """position (number of interactions pulled so far) at which params are looked up INSIDE the read, or None.
    ["FULL"] / ["FULL", j] ; ["PARTIAL", k, how] / ["PARTIAL", k, how, j].  j == 0: after read() was called, before the first next()"""
    if op[0] == "FULL" and len(op) > 1: return op[1]
    if op[0] == "PARTIAL" and len(op) > 3: return op[3]
    return None
def op_without_peek(op):
    return ["FULL"] if op[0] == "FULL" else op[:3]

def gen_history(rng, view, n, length):
    ops = []
    def full():
        return ["FULL"] + ([rng.choice([0, 0, 0, 1, 2, max(n-1, 0), n])] if rng.random() < .3 else [])
    for _ in range(length):
        r = rng.random()
        if r < .30: ops.append(full())
        elif r < .55:
            k = rng.choice([0, 1, 1, 2, 3, 5, 24, 25, 26, max(n-1, 0), n, n+3])
            ops.append(["PARTIAL", k, rng.choice(["close", "drop"])] + ([rng.choice([0, 0, 0, 1, k])] if rng.random() < .3 else []))
            if ops[-1][3:] and ops[-1][3] > k: ops[-1][3] = k
        elif r < .70: ops.append(["PARAMS"])
        else:
            tr = ["CACHE", "CHUNK", "PICKLE"] + (["MATERIALIZE", "SAVE", "SAVE"] if view == "final" else ["PICKLE"])
            ops.append([rng.choice(tr)])
    if rng.random() < .5: ops.insert(0, full())
    ops.append(["FULL"])
    if rng.random() < .5: ops.append(["PARAMS"])
    return ops

def gen_case(rng, tier="quick"):
    source, st = gen_source(rng)
    st = dict(st); st0 = dict(st)
    n = st.get("n", 5)
    L = rng.choice([0, 1, 1, 2, 2, 3, 3, 4, 5, 6])
    chain = []
    for _ in range(L):
        f = gen_filter(rng, st)
        if f: chain.append(f)
    view = rng.choice(["raw", "final", "final"])
    hl = 5 if tier == "quick" else rng.randint(3, 8)
    shape = {"ctx": st0.get("ctx"), "acts": st0.get("acts")}          # of the source, before the chain (for reach counters only)
    return {"source": source, "chain": chain, "view": view, "history": gen_history(rng, view, n, hl - 1), "shape": shape}

def gen_case_cached_then_rewritten(rng):
    """<contexts> -> [Densify] -> Cache | Chunk -> Scale | Impute with parameters that are not idempotent, read in full several times:
    filters that write into the contexts they are given, behind a stage that hands out the SAME stored interactions on every read"""
    for _ in range(40):
        source, st = gen_source(rng)
        st = dict(st)
        if st.get("ctx") in ("sparse-num", "sparse-mixed", "dense-num", "value-num", "dense-mixed"): break
    else: return None
    st0 = dict(st); chain = []
    if st["ctx"].startswith("sparse"):
        f = gen_filter(rng, st, force="Densify")
        if f: chain.append(f)
    f = gen_filter(rng, st, force=rng.choice(["Cache", "Chunk"]))
    if f: chain.append(f)
    f = gen_filter(rng, st, force=rng.choice(["Scale", "Scale", "Impute"]))
    if not f: return None
    if f["f"] == "Scale": f["a"].update(shift=rng.choice([1.5, 1, "min"]) if not str(st0["ctx"]).startswith("sparse") or chain[0]["f"] == "Densify" else 0, scale=rng.choice([2, .5, "minmax"]))
    chain.append(f)
    n = st.get("n", 5)
    hist = [["FULL"], ["FULL"], ["PARTIAL", rng.choice([1, 2, n]), rng.choice(["close", "drop"])], ["FULL"]]
    return {"source": source, "chain": chain, "view": rng.choice(["raw", "final"]), "history": hist, "shape": {"ctx": st0.get("ctx"), "acts": st0.get("acts")}}

# =================================================================================================== generators: large-N cases
# The regular cases are small (at most 55 interactions): nothing that only shows once a bounded memo / cache / buffer inside a source
# or filter has overflowed (lru caches, Cache's slices, reservoir buffers, 'using' windows) can be seen there.  A large-N case has a
# few thousand interactions.  Its source is stored as a recipe {"kind": "gen", "of": <source kind>, "seed": s, "n": N}: the data are
# re-generated from (of, seed, n) when the case is built (self-contained and JSON-able, but small enough to keep as a witness).
LARGE_N    = 1400                        # a reference read with at least this many interactions counts as 'large'
BIG_SIZES  = [1500, 2200, 2200, 3000, 3000, 4200, 5000]
BIG_PRIMARY   = ["Grounded", "Cache", "Chunk", "Reservoir", "Shuffle", "Logged"]
BIG_SECONDARY = ["Riffle", "Batch", "Scale", "Impute", "Densify", "Sort", "Cycle", "Noise", "Where", "Take", "Slice", "Sparsify",
                 "Flatten", "Repr", "Finalize", "OpeIPS", "Unbatch", "Binary", "Params", None]
BIG_TRANSFORMS = ["MATERIALIZE", "CACHE", "CHUNK", "PICKLE", "SAVE", None]
# one round of large-N cases: every primary (size-sensitive) filter with every transformation, every other filter once
BIG_ROUND = [(f, t) for f in BIG_PRIMARY for t in BIG_TRANSFORMS] + [(f, "?") for f in BIG_SECONDARY]
BIG_PER_SHARD = {"quick": 7, "thorough": 49}
BIG_SHRINK_S  = 30                       # wall-clock allowance for shrinking one large-N witness

SRC_GENS = {"syn": gen_src_syn, "lambda": gen_src_lambda, "sup-xy": gen_src_supxy, "sup-src": gen_src_supsrc, "sup-file": gen_src_supfile,
            "result": gen_src_result, "custom": gen_src_custom, "saved": gen_src_saved}
_RESOLVED = {}
def resolve_source(s):
    """the full source spec behind a recipe (identity for ordinary source specs)"""
    if s["kind"] != "gen": return s
    key = (s["of"], s["seed"], s["n"])
    if key not in _RESOLVED:
        if len(_RESOLVED) > 3: _RESOLVED.clear()
        _RESOLVED[key] = SRC_GENS[s["of"]](random.Random(s["seed"]), s["n"])
    return _RESOLVED[key][0]

def gen_history_big(rng, view, n, tr):
    """[FULL] [PARTIAL] [transformation] FULL [PARTIAL | PARAMS] FULL [transformation FULL]: every transformation is followed by
    at least one complete re-read, the first one by two"""
    trs = ["CACHE", "CHUNK", "PICKLE"] + (["MATERIALIZE", "MATERIALIZE", "SAVE"] if view == "final" else [])
    def full():
        return ["FULL"] + ([rng.choice([0, 1, n//2, max(n-1, 0), n])] if rng.random() < .25 else [])
    def partial():
        k = rng.choice([1, 25, 26, 1000, 1366, 4097, n//2, max(n-1, 0), n, n+3])
        op = ["PARTIAL", k, rng.choice(["close", "drop"])]
        if rng.random() < .25: op.append(min(k, rng.choice([0, 1, k])))
        return op
    ops = []
    if rng.random() < .5: ops.append(full())
    if rng.random() < .35: ops.append(partial())
    if tr == "?": tr = rng.choice(trs + [None])
    if tr is not None: ops.append([tr])
    ops.append(full())
    r = rng.random()
    if r < .3: ops.append(partial())
    elif r < .5: ops.append(["PARAMS"])
    ops.append(["FULL"])
    if rng.random() < .3:
        ops.append([rng.choice(trs)]); ops.append(["FULL"])
    if rng.random() < .5: ops.append(["PARAMS"])
    return ops

def gen_big_case(rng, focus, tr):
    """a large-N case whose chain holds `focus` (when it is applicable to some source) between 0-2 filters before and after it, and
    whose history applies `tr` ('?': any) and re-reads completely afterwards"""
    need_sim = focus in ("Grounded", "Logged", "Cycle", "Binary", "OpeIPS")
    kinds = ["syn", "syn", "lambda", "custom", "custom", "sup-xy"] if need_sim else \
            ["syn", "syn", "lambda", "lambda", "custom", "custom", "sup-xy", "sup-src", "sup-file", "result", "saved"]
    for attempt in range(16):
        N = rng.choice(BIG_SIZES)
        of = rng.choice(kinds); seed = rng.randrange(2**31)
        source = {"kind": "gen", "of": of, "seed": seed, "n": N}
        _, st = SRC_GENS[of](random.Random(seed), N)
        st = dict(st); st0 = dict(st); st["big"] = N
        is_sim = st["acts"] not in ("absent", "empty") and st["rw"] != "absent"
        if attempt < 15:
            if need_sim and not is_sim: continue
            # feedbacks are functions of the action: they can only be compared on actions they can be evaluated on (hashable
            # ones); the bandit learners that Logged uses index their statistics by action
            if focus in ("Grounded", "Logged") and not st.get("hashable"): continue
        chain = []
        for _ in range(rng.choice([0, 0, 1, 2])):
            f = gen_filter(rng, st)
            if f: chain.append(f)
        if (focus == "OpeIPS" or (focus == "Shuffle" and rng.random() < .4)) and not st["logged"]:
            f = gen_filter(rng, st, force="Logged")
            if f: chain.append(f)
        if focus is not None:
            f = gen_filter(rng, st, force=focus)
            if f is None and attempt < 15: continue
            if f: chain.append(f)
        for _ in range(rng.choice([0, 0, 1, 2])):
            f = gen_filter(rng, st)
            if f: chain.append(f)
        break
    view = "final" if tr in ("MATERIALIZE", "SAVE") else rng.choice(["raw", "final", "final"])
    shape = {"ctx": st0.get("ctx"), "acts": st0.get("acts")}
    return {"source": source, "chain": chain, "view": view, "history": gen_history_big(rng, view, N, tr), "shape": shape}

# =================================================================================================== generators: collection cases
# The cases above build an Environments that holds ONE environment.  The public constructors and the fluent API routinely give
# collections of many environments (a list of seeds, `a + b`, from_custom(*envs), shuffle(n=..), shuffle(seeds), reservoir(seeds=..),
# logged([learners]), filter([filters])), and materialize() / cache() / chunk() / pickling / save() are applied to the COLLECTION: the
# environment 'after save()' is the member at the same position of what save() returns.  A collection case is an ordinary case
# (source, chain, history) plus spec["coll"] = {"how", "m", "at", "pos", "args", "presweep"}: the pipeline is multiplied into m
# sibling environments (at the source for seeds / sum / custom-many, by a multiplying API call applied in front of chain[pos]
# otherwise), the history is executed on member `at` with every transformation applied to the whole collection, and the other
# members are read before (presweep) and after the history.
COLL_SIZES       = [2, 3, 5, 9, 10, 11, 11, 12, 12, 13, 20, 21, 25, 30, 101]
COLL_SOURCE_HOWS = ["seeds", "sum", "custom-many"]
COLL_FILTER_HOWS = ["shuffle-n", "shuffle-seeds", "reservoir-seeds", "params-tags", "logged-learners"]
COLL_TRANSFORMS  = ["MATERIALIZE", "CACHE", "CHUNK", "PICKLE", "SAVE"]
# one round of collection cases: every way of making a collection with every transformation
COLL_ROUND       = [(h, t) for h in COLL_SOURCE_HOWS + COLL_FILTER_HOWS for t in COLL_TRANSFORMS]
COLL_PER_SHARD   = {"quick": 32, "thorough": 640}
COLL_MANY        = 10          # 'many members': more than this

def gen_history_coll(rng, n, tr):
    """[FULL] [PARTIAL] [PARAMS] transformation FULL [PARTIAL | PARAMS] FULL [transformation FULL] [PARAMS].  SAVE carries how the saved
    collection is obtained: what save() returns, Environments.from_save(path), or what a second save() to the same path returns"""
    def full():
        return ["FULL"] + ([rng.choice([0, 1, max(n-1, 0), n])] if rng.random() < .2 else [])
    def partial():
        k = rng.choice([0, 1, 2, 3, 5, 25, 26, max(n-1, 0), n, n+3])
        op = ["PARTIAL", k, rng.choice(["close", "drop"])]
        if rng.random() < .2: op.append(min(k, rng.choice([0, 1, k])))
        return op
    def trop(t):
        return [t, rng.choice(["return", "return", "from_save", "again"])] if t == "SAVE" else [t]
    ops = []
    if rng.random() < .5: ops.append(full())
    if rng.random() < .3: ops.append(partial())
    if rng.random() < .3: ops.append(["PARAMS"])
    ops.append(trop(tr)); ops.append(full())
    r = rng.random()
    if r < .3: ops.append(partial())
    elif r < .5: ops.append(["PARAMS"])
    ops.append(["FULL"])
    if rng.random() < .35:
        ops.append(trop(rng.choice(COLL_TRANSFORMS))); ops.append(["FULL"])
    if rng.random() < .5: ops.append(["PARAMS"])
    return ops

def gen_coll_case(rng, how, tr):
    """a collection case: `how` the collection is made (falls back to params-tags when it is not applicable), `tr` the first
    transformation of the history"""
    M = rng.choice(COLL_SIZES)
    for attempt in range(12):
        if attempt == 11 and how == "logged-learners": how = "params-tags"
        if how == "seeds":         source, st = gen_src_syn(rng)
        elif how == "sum":         source, st = rng.choice([gen_src_syn, gen_src_lambda])(rng)
        elif how == "custom-many": source, st = gen_src_custom(rng)
        else:                      source, st = gen_source(rng)
        st = dict(st); st0 = dict(st); n = st.get("n", 5)
        args = {}; pos = None
        L = rng.choice([0, 1, 1, 2, 2, 3, 4]); want = rng.randint(0, L)
        chain = []
        for i in range(L + 1):
            # the multiplying call goes in front of the first filter at or after `want` where interactions are not batched
            if how in COLL_FILTER_HOWS and pos is None and i >= want and not st["batched"]:
                if how == "logged-learners":
                    f = gen_filter(rng, st, force="Logged")
                    if f is not None:
                        pos = len(chain)
                        args = {"learners": [gen_learner(rng) for _ in range(M)], "seed": f["a"]["seed"]}
                else: pos = len(chain)
            if i < L:
                f = gen_filter(rng, st)
                if f: chain.append(f)
        if how in COLL_FILTER_HOWS and pos is None:
            if how == "logged-learners": continue
            pos = 0                                            # sources are never batched
        break
    if how in ("seeds", "sum"):   args = {"seeds": rng.sample(range(0, 200), M)}
    elif how == "shuffle-seeds":  args = {"seeds": rng.sample(range(0, 200), M), "kw": rng.random() < .5}
    elif how == "reservoir-seeds":
        args = {"n": rng.choice([None, 3, 5, 12, 30, n]), "seeds": rng.sample(range(0, 200), M), "strict": False}
    at = min(M - 1, rng.choice([0, 1, 2, 3, 10, M - 1, M - 1, rng.randrange(M)]))
    coll = {"how": how, "m": M, "at": at, "pos": pos, "args": args, "presweep": rng.random() < .65}
    shape = {"ctx": st0.get("ctx"), "acts": st0.get("acts")}
    return {"source": source, "chain": chain, "view": "final", "history": gen_history_coll(rng, n, tr), "shape": shape, "coll": coll}

# =================================================================================================== builders
class ListEnv:
    """a caller-written environment over a caller-owned interaction list (re-iterable)"""
    def __init__(self, interactions, as_list=False):
        self.interactions = interactions; self.as_list = as_list; self._p = {"env_type": "ListEnv"}
    @property
    def params(self): return self._p
    def read(self): return self.interactions if self.as_list else iter(self.interactions)

class _Tables:
    """module-level callables so that nothing the harness adds is unpicklable by accident"""
    def __init__(self, ctx, acts, rw): self.ctx, self.acts, self.rw = ctx, acts, rw
    def c0(self, i): return self.ctx[i]
    def a0(self, i, c): return self.acts[i]
    def r0(self, i, c, a): return self.rw[i][[x is a for x in self.acts[i]].index(True)]
    def c1(self, i, rng): rng.random(); return self.ctx[i]
    def a1(self, i, c, rng): return self.acts[i]
    def r1(self, i, c, a, rng): return self.rw[i][[x is a for x in self.acts[i]].index(True)] + rng.randint(0, 2)

def build_source(s, tmp, owned, tag="src"):
    """-> Environments of length 1"""
    from coba.environments import Environments, CsvSource, ArffSource, LibSvmSource, ManikSource
    from coba.pipes import ListSource, IterableSource
    k = s["kind"]
    if k == "gen": return build_source(resolve_source(s), tmp, owned, tag)
    if k == "syn":
        w = s["which"]; seed = s["seed"]
        if w == "bandit":    return Environments.from_bandit_synthetic(s["n"], s["n_actions"], seed)
        if w == "linear":
            rf = list(s["reward_features"]); owned[tag + ".reward_features"] = rf
            return Environments.from_linear_synthetic(s["n"], s["n_actions"], s["ncf"], s["naf"], s["n_coeff"], rf, seed)
        if w == "neighbors": return Environments.from_neighbors_synthetic(s["n"], s["n_actions"], s["ncf"], s["naf"], s["n_neighborhoods"], seed)
        if w == "kernel":    return Environments.from_kernel_synthetic(s["n"], s["n_actions"], s["ncf"], s["naf"], s["n_exemplars"], s["kernel"], 3, 1, seed)
        if w == "mlp":       return Environments.from_mlp_synthetic(s["n"], s["n_actions"], s["ncf"], s["naf"], seed)
    if k == "lambda":
        t = _Tables(dec(s["ctx"]), dec(s["acts"]), dec(s["rw"]))
        owned[tag + ".lambda.ctx"] = t.ctx; owned[tag + ".lambda.acts"] = t.acts; owned[tag + ".lambda.rw"] = t.rw
        if s["rng"]: return Environments.from_lambda(s["n"], t.c1, t.a1, t.r1, s["seed"])
        return Environments.from_lambda(s["n"], t.c0, t.a0, t.r0)
    if k == "sup-xy":
        X, Y = dec(s["X"]), dec(s["Y"])
        if s.get("xtuple"): X = tuple(X); Y = tuple(Y)
        owned[tag + ".X"] = X; owned[tag + ".Y"] = Y
        if s["label_type"] is None: return Environments.from_supervised(X, Y)
        return Environments.from_supervised(X, Y, label_type=s["label_type"])
    if k == "sup-src":
        rows = dec(s["rows"]); owned[tag + ".rows"] = rows
        src = ListSource(rows) if s["src"] == "list" else IterableSource(rows)
        return Environments.from_supervised(src, label_col=s["label_col"], label_type=s["label_type"], take=s["take"])
    if k == "sup-file":
        path = os.path.join(tmp, f"{tag}.data")
        with open(path, "w", encoding="utf8", newline="") as f: f.write(s["text"])
        owned[tag + ".file"] = ("$file", path)
        fmt = s["fmt"]
        if fmt == "csv":    src = CsvSource(path, has_header=s["has_header"])
        elif fmt in ("arff", "arff-sparse"): src = ArffSource(path)
        elif fmt == "libsvm": src = LibSvmSource(path)
        else:                 src = ManikSource(path)
        return Environments.from_supervised(src, label_col=s["label_col"], label_type=s["label_type"], take=s["take"])
    if k == "result":
        from coba.results import Result
        path = os.path.join(tmp, f"{tag}.log")
        with open(path, "w", encoding="utf8") as f: f.write(s["log"])
        owned[tag + ".file"] = ("$file", path)
        if s["via"] == "file": return Environments.from_result(path)
        res = Result.from_file(path); owned[tag + ".result"] = ("$result", res)
        return Environments.from_result(res)
    if k == "custom":
        inter = dec(s["interactions"]); owned[tag + ".interactions"] = inter
        return Environments.from_custom(ListEnv(inter, s.get("as_list", False)))
    if k == "saved":
        inner_owned = {}
        E = build_source(s["inner"], tmp, inner_owned, tag + ".inner")
        for f in s["chain"]: E = apply_api(E, f, inner_owned, tag + ".inner")
        path = os.path.join(tmp, f"{tag}.zip")
        E.save(path)
        owned[tag + ".zip"] = ("$file", path)
        return Environments.from_save(path)
    raise ValueError(k)

class PmfLearner:
    """a caller-written logging policy in coba's classic interface: predict() answers with a PMF over the offered actions and coba
    draws the action that is played.  It works by position, so any kind of action will do; at least two entries of the PMF are
    non-zero whenever two actions are offered, and no entry equals a value the generators use as an action.  Deterministic."""
    WEIGHTS = {1: [1.0], 2: [.55, .45], 3: [.45, .35, .2], 4: [.35, .3, .2, .15]}
    def __init__(self, form, policy, params):
        self.form, self.policy, self.own = form, policy, params == "own"
        self.p = {"form": form, "policy": policy, "eps": .3}           # the learner's own dict (no 'family')
        self.sums = {}; self.cnts = {}; self.calls = 0
    @property
    def params(self):
        return self.p if self.own else {"family": "PmfLearner", **self.p}
    def _pmf(self, n):
        if self.policy == "fixed" or not self.cnts:
            w = self.WEIGHTS.get(n)
            return list(w) if w else [1 / n] * n
        means = [self.sums.get(i, 0) / self.cnts[i] if self.cnts.get(i) else 0 for i in range(n)]
        best = means.index(max(means))
        return [self.p["eps"] / n + ((1 - self.p["eps"]) if i == best else 0) for i in range(n)]
    def predict(self, context, actions):
        self.calls += 1
        pmf = self._pmf(len(actions))
        self._last = list(actions)
        if self.form == "hint":   return {"pmf": pmf}
        if self.form == "kwargs": return pmf, {"call": self.calls}
        return pmf
    def learn(self, context, action, reward, probability, **kwargs):
        try: i = [a is action or a == action for a in self._last].index(True)
        except Exception: return
        self.sums[i] = self.sums.get(i, 0) + reward; self.cnts[i] = self.cnts.get(i, 0) + 1

def make_learner(name):
    from coba.learners import RandomLearner, BanditEpsilonLearner, BanditUCBLearner
    if name.startswith("pmf:"): return PmfLearner(*name.split(":")[1:])
    return {"random": lambda: RandomLearner(), "epsilon": lambda: BanditEpsilonLearner(0.2, seed=3), "ucb": lambda: BanditUCBLearner()}[name]()

def make_filter(f, owned, tag):
    import coba.environments.filters as F
    n, a = f["f"], f["a"]
    if n == "Identity":  return F.Identity()
    if n == "Take":      return F.Take(a["n"], a["strict"])
    if n == "Slice":     return F.Slice(a["start"], a["stop"], a["step"])
    if n == "Shuffle":   return F.Shuffle(a["seed"])
    if n == "Reservoir": return F.Reservoir(a["n"], strict=a["strict"], seed=a["seed"])
    if n == "Riffle":    return F.Riffle(a["spacing"], a["seed"])
    if n == "Cache":     return F.Cache(a["n_slice"]) if "n_slice" in a else F.Cache()
    if n == "Chunk":     return F.Chunk()
    if n == "Params":
        p = dec(a["params"]); owned[f"{tag}.Params.params"] = p
        return F.Params(p)
    if n == "Finalize":  return F.BatchSafe(F.Finalize())
    if n == "Repr":      return F.Repr(a["ctx"], a["act"])
    if n == "Densify":   return F.Densify(a["n_feats"], a["method"], a["context"], a["action"])
    if n == "Noise":
        args = [dec(a["context"]), dec(a["action"]), dec(a["reward"])]
        owned[f"{tag}.Noise.args"] = args
        return F.Noise(args[0], args[1], args[2], a["seed"])
    if n == "Where":
        args = {k: dec(a[k]) for k in ("n_interactions", "n_actions", "n_features")}
        owned[f"{tag}.Where.args"] = args
        return F.Where(**args)
    if n == "Batch":     return F.Batch(a["size"])
    if n == "Unbatch":   return F.Unbatch()
    if n == "Scale":     return F.Scale(a["shift"], a["scale"], "context", a["using"])
    if n == "Impute":    return F.Impute(a["stat"], a["indicator"], a["using"])
    if n == "Sort":
        keys = dec(a["keys"]); owned[f"{tag}.Sort.keys"] = keys
        return F.Sort(*keys)
    if n == "Sparsify":  return F.Sparsify(a["context"], a["action"])
    if n == "Flatten":   return F.Flatten()
    if n == "Binary":    return F.Binary()
    if n == "Grounded":  return F.Grounded(a["n_users"], a["n_normal"], a["n_words"], a["n_good"], a["seed"])
    if n == "Logged":
        l = make_learner(a["learner"]); owned[f"{tag}.Logged.learner"] = l
        return F.Logged(l, a["seed"])
    if n == "Cycle":     return F.Cycle(a["after"])
    if n == "OpeIPS":    return F.OpeRewards("IPS")
    if n == "OpeNone":   return F.OpeRewards(None)
    raise ValueError(n)

def apply_api(E, f, owned, tag):
    """the fluent Environments API where it is a thin wrapper, Environments.filter otherwise"""
    n, a = f["f"], f["a"]
    if n == "Take":      return E.take(a["n"], a["strict"])
    if n == "Slice":     return E.slice(a["start"], a["stop"], a["step"])
    if n == "Shuffle":   return E.shuffle(a["seed"])
    if n == "Riffle":    return E.riffle(a["spacing"], a["seed"])
    if n == "Cache" and ("n_slice" not in a or len(E) > 1): return E.cache()     # one Cache object per pipeline (it holds the data)
    if n == "Flatten":   return E.flatten()
    if n == "Binary":    return E.binary()
    if n == "Cycle":     return E.cycle(a["after"])
    if n == "Batch":     return E.batch(a["size"])
    if n == "Unbatch":   return E.unbatch()
    if n == "Sparsify":  return E.sparse(a["context"], a["action"])
    if n == "Densify":   return E.dense(a["n_feats"], a["method"], a["context"], a["action"])
    if n == "Grounded":  return E.grounded(a["n_users"], a["n_normal"], a["n_words"], a["n_good"], a["seed"])
    if n == "Repr":      return E.repr(a["ctx"], a["act"])
    if n == "OpeIPS":    return E.ope_rewards("IPS")
    if n == "Logged":
        l = make_learner(a["learner"]); owned[f"{tag}.Logged.learner"] = l
        return E.logged(l, a["seed"])
    return E.filter(make_filter(f, owned, tag))

def build_collection(spec, tmp, owned):
    """-> Environments with spec['coll']['m'] members (view 'final': the fluent API on the whole collection)"""
    from coba.environments import Environments
    import coba.environments.filters as F
    c = spec["coll"]; how, M, a = c["how"], c["m"], c.get("args") or {}
    s = resolve_source(spec["source"])
    if how == "seeds":
        seeds = list(a["seeds"]); owned["src.seeds"] = seeds
        E = build_source(dict(s, seed=seeds), tmp, owned)
    elif how == "sum":
        E = None
        for j, sd in enumerate(a["seeds"]):
            Ej = build_source(dict(s, seed=sd), tmp, owned, f"src{j}")
            E = Ej if E is None else E + Ej
    elif how == "custom-many":
        # M caller-written environments over rotations of one caller-owned list of interactions (the interaction objects are shared)
        inter = dec(s["interactions"]); owned["src.interactions"] = inter
        envs = []
        for j in range(M):
            r = j % len(inter) if inter else 0
            lst = inter[r:] + inter[:r]; owned[f"src{j}.list"] = lst
            env = ListEnv(lst, s.get("as_list", False)); env._p = {"env_type": "ListEnv", "member": j}
            envs.append(env)
        E = Environments.from_custom(*envs) if M % 2 else Environments.from_custom(envs)
    else:
        E = build_source(s, tmp, owned)
    def multiply(E):
        if how == "shuffle-n": return E.shuffle(n=M)
        if how == "shuffle-seeds":
            seeds = list(a["seeds"]); owned["mult.seeds"] = seeds
            return E.shuffle(seeds=seeds) if a.get("kw") else E.shuffle(seeds)
        if how == "reservoir-seeds":
            seeds = list(a["seeds"]); owned["mult.seeds"] = seeds
            return E.reservoir(a["n"], seeds=seeds, strict=a["strict"])
        if how == "params-tags":
            ps = [{"member": j} for j in range(M)]; owned["mult.params"] = ps
            return E.filter([F.Params(p) for p in ps])
        if how == "logged-learners":
            ls = [make_learner(nm) for nm in a["learners"]]; owned["mult.learners"] = ls
            return E.logged(ls, a["seed"])
        raise ValueError(how)
    for i, f in enumerate(spec["chain"]):
        if how in COLL_FILTER_HOWS and i == c["pos"]: E = multiply(E)
        E = apply_api(E, f, owned, f"f{i}")
    if how in COLL_FILTER_HOWS and c["pos"] >= len(spec["chain"]): E = multiply(E)
    if len(E) != M: raise ValueError(f"collection of {len(E)} members, expected {M}")
    return E

class Built: pass
def build(spec, tmp):
    from coba.environments import Environments
    from coba.pipes import Pipes
    b = Built(); b.owned = {}; b.coll = None
    if spec.get("coll"):
        b.coll = build_collection(spec, tmp, b.owned)
        b.env = b.coll[spec["coll"]["at"]]
        return b
    E = build_source(spec["source"], tmp, b.owned)
    if spec["view"] == "raw":
        filters = [make_filter(f, b.owned, f"f{i}") for i, f in enumerate(spec["chain"])]
        b.env = Pipes.join(*list(E[0])[:-1], *filters)      # E[0] == source pipes + BatchSafe(Finalize()); drop the latter
    else:
        for i, f in enumerate(spec["chain"]): E = apply_api(E, f, b.owned, f"f{i}")
        b.env = E[0]
    return b

# =================================================================================================== the checker
class Invalid(Exception): pass

def _read_full(env):
    return [canon_interaction(i) for i in env.read()]

_NOPEEK = object()
def _lookup(env):
    """-> (canonical params, exception)"""
    try: return canon_params(env.params), None
    except Exception as e: return None, e

def _read(env, k=None, how="drop", peek=None):
    """one read of `env`: complete (k None) or abandoned after k interactions (iterator closed or dropped).  When `peek` is a
    number, params are looked up once INSIDE the read, at the moment `peek` interactions have been pulled (0: read() has been
    called and the iterator exists, but nothing has been pulled yet).  -> (canonical interactions, look-up or _NOPEEK)"""
    it = iter(env.read()); got = []; peeked = _NOPEEK
    while True:
        if peek is not None and peeked is _NOPEEK and len(got) == peek: peeked = _lookup(env)
        if k is not None and len(got) >= k: break
        try: x = next(it)
        except StopIteration: break
        got.append(canon_interaction(x))
    if k is not None and how == "close" and hasattr(it, "close"): it.close()
    del it
    return got, peeked

def _subst(v, a, b):
    """canonical value with every occurrence of the path prefix a replaced by b (fresh and subject live in sibling directories)"""
    if isinstance(v, str): return v.replace(a, b)
    if isinstance(v, tuple): return tuple(_subst(x, a, b) for x in v)
    return v

def _transform(env, op, view, tmp, counter, coll=None, via=None):
    """-> new env, or None when the transformation is not applicable (counted by the caller).
    coll: the transformation is applied to this whole Environments collection and the new collection is returned.
    via (SAVE): 'return' what save() returns | 'from_save' Environments.from_save(path) after save() | 'again' what a second save()
    of the same collection to the same (now existing, matching) path returns"""
    from coba.environments import Environments, Cache, Chunk
    from coba.pipes import Pipes
    from coba.exceptions import CobaException
    one = (lambda E: E[0]) if coll is None else (lambda E: E)
    if op == "CACHE":
        return Pipes.join(env, Cache(25)) if view == "raw" else one((Environments(env) if coll is None else coll).cache())
    if op == "CHUNK":
        return Pipes.join(env, Chunk(), Cache(25)) if view == "raw" else one((Environments(env) if coll is None else coll).chunk())
    if op == "PICKLE":
        try: data = pickle.dumps(env if coll is None else coll)
        except Exception as e: raise Invalid(f"pickle.dumps:{type(e).__name__}")
        return pickle.loads(data)
    if op == "MATERIALIZE":
        return one((Environments(env) if coll is None else coll).materialize())
    if op == "SAVE":
        path = os.path.join(tmp, f"save{next(counter)}.zip")
        E = Environments(env) if coll is None else coll
        try:
            out = E.save(path)
            if via == "from_save": out = Environments.from_save(path)
            elif via == "again":   out = E.save(path)
            return one(out)
        except CobaException as e: raise Invalid(f"save:CobaException")
    raise ValueError(op)

def _twin_pickles(spec, tmp, done):
    """can an object built from `spec` and taken through the transformations `done` -- but never read by the caller -- be pickled?
    (False as well when the twin cannot be built or transformed)"""
    try:
        os.makedirs(tmp)
        twin = build(spec, tmp); env, coll = twin.env, twin.coll
        counter = itertools.count()
        for kind, via in done:
            new = _transform(env, kind, spec["view"], tmp, counter, coll, via)
            if coll is not None: coll = new; new = coll[spec["coll"]["at"]]
            env = new
        pickle.dumps(env if coll is None else coll)
        return True
    except Exception:
        return False

def run_history(spec, ctx=None):
    """-> (status, violations) ; status in {'ok','invalid'}; violations = [(mode, what)]"""
    from coba.context import CobaContext, NullLogger
    CobaContext.logger = NullLogger()
    def note(name, n=1):
        if ctx: ctx.count(name, n)
    viol = []
    tmp = tempfile.mkdtemp(prefix="vf-c04-")
    try:
        # ---------------- the fresh object: its first full read is the reference
        os.makedirs(os.path.join(tmp, "fresh"))
        try: fresh = build(spec, os.path.join(tmp, "fresh"))
        except Exception as e: return "invalid", [("build", f"{type(e).__name__}: {e}")]
        fsnap0 = snapshot_owned(fresh.owned)
        try: ref = _read_full(fresh.env)
        except Exception as e:
            # not even a fresh object can be read: the chain is not type-compatible with the source (out of the domain)
            return "invalid", [(f"first-read-raises.{type(e).__name__}", f"{type(e).__name__}: {e}")]
        fsnap_read = snapshot_owned(fresh.owned)          # after one complete read, before any params look-up
        fresh_params, e = _lookup(fresh.env)              # what an identical object reports after one complete read
        if e is None: fresh_params = _subst(fresh_params, os.path.join(tmp, "fresh"), "$TMP")
        fsnap1 = snapshot_owned(fresh.owned)
        if ctx is not None:
            ctx.extra["_n_ref"] = len(ref)
            # feedbacks that evaluate to values (not to an exception) on the offered actions of the first interaction
            fb = [v for it in ref[:1] if isinstance(it, tuple) for kv in it if isinstance(kv, tuple) and len(kv) == 2 and kv[0] == "feedbacks" for v in [kv[1]]]
            ctx.extra["_fb_values"] = bool(fb) and fb[0][0] == "R" and bool(fb[0][1]) and not any(isinstance(x, tuple) and x[:1] == ("raise",) for x in fb[0][1])
        # ---------------- collection cases: every other member of the fresh collection is read once, after the reference read
        cspec = spec.get("coll"); M = cspec["m"] if cspec else 1; at = cspec["at"] if cspec else 0
        others = {}; others_params = {}          # member -> what it reads / reports (canonical); None: its read / look-up raised
        def sweep(E, tmpdir):
            reads, params = {}, {}
            for j in range(M):
                if j == at: continue
                try: reads[j] = _read_full(E[j])
                except Exception as e: reads[j] = _Raised(e); params[j] = None; continue
                p, e = _lookup(E[j])
                params[j] = None if e is not None else _subst(p, tmpdir, "$TMP")
            return reads, params
        fsnap_params = fsnap1                              # after the read and the params look-up, before the other members are read
        if cspec:
            others, others_params = sweep(fresh.coll, os.path.join(tmp, "fresh"))
            bad = [r for r in others.values() if isinstance(r, _Raised)]
            if bad:
                # a sibling that not even a fresh collection can read (e.g. its own learner cannot handle the actions, its own sample
                # starts with another kind of row): the collection is not type-compatible, and transformations of it read every member
                return "invalid", [(f"sibling-first-read-raises.{bad[0].t}", f"{len(bad)} of {M} members cannot be read")]
            fsnap1 = snapshot_owned(fresh.owned)
        def moved_to(got, table):
            """the other member whose reference equals `got` (None: none)"""
            return next((j for j, r in table.items() if r is not None and not isinstance(r, _Raised) and r == got), None)
        note("oracle.snapshot", len(fsnap0)); note("oracle.snapshot.params-lookup", len(fsnap0))
        reported_owned = set()
        for name in fsnap0:
            if fsnap0[name] != fsnap_read.get(name):
                reported_owned.add(name)
                viol.append((f"owned-modified:{name.split('.', 1)[-1]}", f"one full read of a fresh object changed the caller-owned {name}"))
            elif fsnap_read[name] != fsnap_params.get(name):
                # the read left it alone: it was the params look-up that followed
                reported_owned.add(name)
                viol.append((f"owned-modified-by-params-lookup:{name.split('.', 1)[-1]}", f"one full read of a fresh object left the caller-owned {name} as it was; "
                             "the params look-up that followed changed it"))
            elif fsnap_params[name] != fsnap1.get(name):
                reported_owned.add(name)
                viol.append((f"owned-modified:{name.split('.', 1)[-1]}", f"reading the other members of a fresh collection (and looking up their params) changed the caller-owned {name}"))
        # ---------------- the subject
        os.makedirs(os.path.join(tmp, "subj"))
        try: sub = build(spec, os.path.join(tmp, "subj"))
        except Exception as e: return "invalid", [("build", f"{type(e).__name__}: {e}")]
        snap0 = snapshot_owned(sub.owned)
        env, view = sub.env, spec["view"]
        coll = sub.coll; pre_reads = pre_params = None
        if cspec and cspec.get("presweep"):
            # the other members are read (and their params looked up) before anything is applied to the collection
            pre_reads, pre_params = sweep(coll, os.path.join(tmp, "subj"))
            for j in pre_reads:
                note("oracle.coll.member-fresh")
                if isinstance(others.get(j), _Raised): continue             # differential only: the fresh member cannot be read either
                if pre_reads[j] != others[j]:
                    if isinstance(pre_reads[j], _Raised): viol.append((f"sweep:raise:{pre_reads[j].t}", f"member {j} of a fresh collection reads fine; read after its siblings {sorted(k for k in pre_reads if k < j)} it raises {pre_reads[j].t}"))
                    else:
                        d = diff_reads(pre_reads[j], others[j])
                        viol.append((f"sweep:{d[0]}", f"member {j} read after its siblings {sorted(k for k in pre_reads if k < j)} differs from the same member of a fresh collection: {d[1]}"))
                    return "ok", viol
            others, others_params = pre_reads, pre_params
        counter = itertools.count()
        first_full = None; first_params = None; since = []      # ops since the last FULL
        any_full = False
        has_read = False           # a complete read, or an abandoned read that pulled at least one interaction, has happened
        transformed = False; n_reads = 0; early_lookup = False; applied = []
        done = []                  # the transformations applied so far, as (kind, via)
        pulled_partial = False     # an abandoned read that pulled at least one interaction has happened
        def judge(p, exc, after, inside=False):
            """a params look-up made once the object has been read; -> True when a violation was recorded"""
            nonlocal first_params
            note("oracle.params")
            if inside: note("oracle.params-during-read")
            if early_lookup: note("oracle.params.after-lookup-before-first-pull")
            where = "params looked up inside a read" if inside else "params"
            if exc is not None:
                viol.append((f"params:raise:{type(exc).__name__}", f"{where} after [{after}] raises {type(exc).__name__}: {exc}")); return True
            def keys_of(x, y):
                a, b = (dict(t) if isinstance(t, tuple) and all(isinstance(u, tuple) and len(u) == 2 for u in t) else {} for t in (x, y))
                ks = sorted(k for k in set(a) | set(b) if a.get(k) != b.get(k))
                return f"keys {ks}: {[(a.get(k), b.get(k)) for k in ks][:3]}"
            if first_params is None:
                first_params = p
                if fresh_params is not None:
                    note("oracle.params-fresh")
                    if transformed: note("oracle.params-fresh.after-transformation")
                    q = _subst(p, os.path.join(tmp, "subj"), "$TMP")
                    if q != fresh_params:
                        # entries that the fresh object reports after its read and the subject does not report at all (everything it
                        # does report agrees): the failure mode names them (names of params, never values)
                        fa, fb = (dict(t) if isinstance(t, tuple) and all(isinstance(u, tuple) and len(u) == 2 for u in t) else None for t in (fresh_params, q))
                        lacks = sorted(k for k in fa if k not in fb) if fa is not None and fb is not None and all(fa.get(k) == v for k, v in fb.items()) else []
                        mode = "params:differ-from-fresh" + (":lacks=" + ",".join(lacks) if lacks else "")
                        viol.append((mode, f"{where} after [{after}] differ from what an identical object reports after one complete read in {keys_of(fresh_params, q)}")); return True
            elif p != first_params:
                j = moved_to(_subst(p, os.path.join(tmp, "subj"), "$TMP"), others_params) if cspec else None
                if j is not None:
                    viol.append(("params:member-moved", f"{where} of member {at} after [{after}] are the params of member {j} of the collection")); return True
                viol.append(("params:differ", f"{where} after [{after}] differ from the first look-up in {keys_of(first_params, p)}")); return True
            return False
        def diff_member(got, want, j):
            """like diff_reads; in a collection a read that equals what ANOTHER member reads is reported as such"""
            d = diff_reads(got, want)
            if d and cspec:
                k = moved_to(got, {i: r for i, r in others.items() if i != j})
                if k is None and j != at and got == ref: k = at
                if k is not None: return ("member-moved", f"member {j} of the collection yields the interactions of member {k}")
            return d
        for n_op, op in enumerate(spec["history"]):
            kind = op[0]
            if kind == "FULL":
                peek = op_peek(op)
                try: (got, peeked), exc = _read(env, None, "drop", peek), None
                except Exception as e: got, peeked, exc = None, _NOPEEK, e
                n_reads += 1
                if exc is None and peeked is not _NOPEEK:
                    if n_reads == 1 and peek == 0: early_lookup = True
                    if has_read and judge(peeked[0], peeked[1], ">".join(since) or "FULL", inside=True): break
                if not any_full:
                    # first complete read of the subject: compare with the fresh object's read
                    note("oracle.fresh")
                    after = ">".join(since) or "nothing"
                    if exc is not None:
                        viol.append((f"first-read:raise:{type(exc).__name__}", f"a fresh object reads fine, but after [{after}] the read raises {type(exc).__name__}: {exc}")); break
                    d = diff_member(got, ref, at)
                    if d:
                        viol.append((f"first-read:{d[0]}", f"after [{after}] the first full read differs from a fresh object's read: {d[1]}")); break
                    first_full = got; any_full = True
                else:
                    note("oracle.full-reread")
                    if len(first_full) >= 2: note("oracle.full-reread.two-or-more-interactions")
                    large = len(first_full) >= LARGE_N
                    if large: note("oracle.large-n.full-reread")
                    for s in set(since):
                        if s in ("MATERIALIZE", "CACHE", "CHUNK", "PICKLE", "SAVE"):
                            note(f"oracle.after.{s}")
                            if large: note(f"oracle.large-n.after.{s}")
                        if s == "PARTIAL":
                            note("oracle.full-after-partial")
                            if large: note("oracle.large-n.full-after-partial")
                    after = ">".join(since) or "FULL"
                    if exc is not None:
                        viol.append((f"reread:raise:{type(exc).__name__}", f"full read after [{after}] raises {type(exc).__name__}: {exc}")); break
                    d = diff_member(got, first_full, at)
                    if d:
                        viol.append((f"reread:{d[0]}", f"full read after [{after}] differs from the first full read: {d[1]}")); break
                has_read = True
                since = []
            elif kind == "PARTIAL":
                k, how = op[1], op[2]; peek = op_peek(op)
                try: (got, peeked), exc = _read(env, k, how, peek), None
                except Exception as e: got, peeked, exc = None, _NOPEEK, e
                n_reads += 1
                note("oracle.partial-prefix")
                if len(ref) >= LARGE_N and k >= LARGE_N: note("oracle.large-n.partial-prefix")
                after = ">".join(since) or "nothing"
                if exc is not None:
                    viol.append((f"partial:raise:{type(exc).__name__}", f"reading the first {k} interactions after [{after}] raises {type(exc).__name__}: {exc}")); break
                if peeked is not _NOPEEK:
                    if n_reads == 1 and peek == 0: early_lookup = True
                    if has_read and judge(peeked[0], peeked[1], after, inside=True): break
                if got != ref[:k]:
                    d = diff_reads(got, ref[:k])
                    viol.append((f"partial:{d[0]}", f"the first {k} interactions read after [{after}] are not the prefix of the sequence: {d[1]}")); break
                if got: has_read = True; pulled_partial = True
                since.append("PARTIAL")
            elif kind == "PARAMS":
                p, exc = _lookup(env)
                if has_read:
                    if not any_full: note("oracle.params.after-abandoned-read-only")
                    if judge(p, exc, ">".join(since) or "FULL"): break
                since.append("PARAMS")
            else:
                via = op[1] if len(op) > 1 else None
                if kind == "PICKLE" and n_reads:
                    # the object has been read (completely or part-way): pickling it must be possible whenever it is for an object
                    # that went through the same transformations without having been read by the caller
                    note("oracle.pickle-after-reads")
                    if pulled_partial: note("oracle.pickle-after-abandoned-read")
                try:
                    new = _transform(env, kind, view, os.path.join(tmp, "subj"), counter, coll, via)
                except Invalid as e:
                    if kind == "PICKLE" and n_reads and _twin_pickles(spec, os.path.join(tmp, f"twin{n_op}"), done):
                        t = str(e).split(":")[-1]
                        viol.append((f"transform:PICKLE:raise:{t}", f"an object built from the same spec and taken through [{'>'.join(k for k, _ in done) or 'nothing'}] without being read "
                                     f"by the caller can be pickled; after the caller's reads ([{'>'.join(since) or 'FULL'}] since the last complete read) pickle.dumps raises {t}")); break
                    note(f"skip.transform.{kind}.{e}"); continue
                except Exception as e:
                    viol.append((f"transform:{kind}:raise:{type(e).__name__}", f"{kind} after [{'>'.join(since) or 'nothing'}] raises {type(e).__name__}: {e}")); break
                if coll is not None:
                    note("oracle.coll.length")
                    if len(new) != M:
                        viol.append(("collection:length", f"{kind} of a collection of {M} environments gives a collection of {len(new)}")); break
                    coll = new; new = coll[at]; applied.append(kind)
                env = new; since.append(kind); transformed = True; done.append((kind, via))
        # ---------------- collection cases: the other members after the history
        if cspec and not viol:
            many = ".many" if M > COLL_MANY else ""
            for j in range(M):
                if j == at or isinstance(others.get(j), _Raised): continue
                what = "the read made before" if pre_reads is not None else "the same member of a fresh collection"
                after = ">".join(applied) or "nothing"
                note("oracle.coll.member-reread" if pre_reads is not None else "oracle.coll.member-fresh")
                for t in set(applied): note(f"oracle.coll{many}.after.{t}")
                try: got = _read_full(coll[j])
                except Exception as e:
                    viol.append((f"sweep:raise:{type(e).__name__}", f"member {j} of the collection after [{after}] raises {type(e).__name__}: {e}")); break
                d = diff_member(got, others[j], j)
                if d:
                    viol.append((f"sweep:{d[0]}", f"member {j} of the collection read after [{after}] differs from {what}: {d[1]}")); break
                if pre_params is not None and pre_params.get(j) is not None:
                    # the member had been read and its params looked up before the transformations
                    note("oracle.coll.member-params")
                    p, e = _lookup(coll[j])
                    if e is not None:
                        viol.append((f"params:raise:{type(e).__name__}", f"params of member {j} of the collection after [{after}] raise {type(e).__name__}: {e}")); break
                    p = _subst(p, os.path.join(tmp, "subj"), "$TMP")
                    if p != pre_params[j]:
                        table = {i: r for i, r in pre_params.items() if i != j}
                        if first_params is not None: table[at] = _subst(first_params, os.path.join(tmp, "subj"), "$TMP")
                        elif fresh_params is not None: table[at] = fresh_params
                        k = moved_to(p, table)
                        if k is not None: viol.append(("params:member-moved", f"params of member {j} of the collection after [{after}] are the params of member {k}"))
                        else: viol.append(("params:differ", f"params of member {j} of the collection after [{after}] differ from the look-up made before"))
                        break
        # ---------------- caller-owned data
        snap1 = snapshot_owned(sub.owned)
        note("oracle.snapshot", len(snap0))
        for name in snap0:
            if snap0[name] != snap1.get(name) and name not in reported_owned:
                viol.append((f"owned-modified:{name.split('.', 1)[-1]}", f"the history changed the caller-owned {name}"))
        return "ok", viol
    finally:
        shutil.rmtree(tmp, ignore_errors=True)

def _modes(spec):
    with warnings.catch_warnings():
        warnings.simplefilter("ignore")
        status, viol = run_history(spec)
    return status, viol

TRANSFORMS = ("MATERIALIZE", "CACHE", "CHUNK", "PICKLE", "SAVE")

def kind_of(mode):
    """coarse failure kind: the oracle stage (first read / partial read / re-read) is not part of the mechanism"""
    stage, _, rest = mode.partition(":")
    if rest == "member-moved": return "collection-member-moved"     # a member of a collection reads / reports what ANOTHER member does
    if stage in ("first-read", "partial", "reread", "sweep"):       # sweep: the other members of a collection
        if rest.startswith("raise:"): return "read-" + rest
        if rest in ("lost-all", "lost-tail", "length"): return "read-lost-items" if rest != "length" else "read-wrong-length"
        return "read-differs"                      # another order or other values
    return mode                                    # params:differ, params:raise:T, owned-modified:<what>, transform:<OP>:raise:T

def _is_big(spec):
    return spec["source"]["kind"] == "gen" and spec["source"]["n"] > 55

def shrink(spec, kind, allow_s=None):
    """greedy: drop history steps and filters, switch to the raw view, while a violation of the same kind persists.  A large-N case
    is first tried at an ordinary size (then at N/8, N/4, N/2): when the failure survives, size is not part of the mechanism; what
    remains large is shrunk within a wall-clock allowance"""
    def still(s):
        try: status, v = _modes(s)
        except Exception: return False
        return status == "ok" and any(kind_of(m) == kind for m, _ in v)
    cur = json.loads(json.dumps(spec))
    deadline = None
    def without_filter(c, i):
        """c without chain[i]; the position of a collection's multiplying call moves along"""
        cand = dict(c, chain=c["chain"][:i] + c["chain"][i+1:])
        if c.get("coll") and c["coll"].get("pos") is not None and i < c["coll"]["pos"]: cand["coll"] = dict(c["coll"], pos=c["coll"]["pos"] - 1)
        return cand
    def minimise_collection(final):
        """the plainest way of making a collection (one pipeline under M Params filters; the siblings are told apart by their params,
        so they are read before the history), the plain form of SAVE, the smallest collection (sizes up to COLL_MANY first, then just
        beyond, then half); at the end: no reads of the siblings before the history, and -- when no filter is left -- the plainest source"""
        nonlocal cur
        c = cur["coll"]
        if c["how"] != "params-tags":
            for pre in ([True] if c.get("presweep") else [False, True]):
                cand = dict(cur, coll=dict(c, how="params-tags", pos=0, args={}, presweep=pre))
                if still(cand): cur = cand; c = cur["coll"]; break
        if any(o[0] == "SAVE" and len(o) > 1 for o in cur["history"]):
            cand = dict(cur, history=[["SAVE"] if o[0] == "SAVE" else o for o in cur["history"]])
            if still(cand): cur = cand
        def resized(m):
            a = dict(c.get("args") or {})
            if "seeds" in a: a["seeds"] = a["seeds"][:m]
            if "learners" in a: a["learners"] = a["learners"][:m]
            return [dict(cur, coll=dict(c, m=m, at=at, args=a)) for at in sorted({0, min(c["at"], m-1), m-1})]
        for m in [2, 3, COLL_MANY, COLL_MANY + 1, COLL_MANY + 2, c["m"] // 2]:
            if m >= c["m"] or m < 2: continue
            hit = next((cand for cand in resized(m) if still(cand)), None)
            if hit is not None: cur = hit; c = cur["coll"]; break
        if final:
            if c.get("presweep"):
                cand = dict(cur, coll=dict(c, presweep=False))
                if still(cand): cur = cand; c = cur["coll"]
            if not cur["chain"] and c["how"] not in ("custom-many",):
                cand = dict(cur, source=dict(PLAIN_SOURCE))
                if still(cand): cur = cand
    if cur.get("coll"):
        # is the collection part of the mechanism at all?  (one environment; SAVE in its plain form)
        cand = {k: v for k, v in cur.items() if k != "coll"}
        if still(cand): cur = cand
    if cur.get("coll"): minimise_collection(final=False)
    if _is_big(cur):
        N = cur["source"]["n"]
        for m in (40, 30, 55, 24, N//8, N//4, N//2):          # several ordinary sizes: the recipe draws another source for every n
            cand = dict(cur, source=dict(cur["source"], n=m))
            if still(cand): cur = cand; break
        if _is_big(cur):
            deadline = time.time() + (BIG_SHRINK_S if allow_s is None else allow_s)
            # every run is expensive: look for a single responsible filter before the step-by-step removal
            for i in range(len(cur["chain"]) if len(cur["chain"]) > 1 else 0):
                if time.time() >= deadline: break
                cand = dict(cur, chain=[cur["chain"][i]])
                if still(cand): cur = cand; break
            # ... and make one linear pass over the history steps, the look-ups inside reads and the filters (each tried once)
            i = 0
            while i < len(cur["history"]) and len(cur["history"]) > 1 and time.time() < deadline:
                cand = dict(cur, history=cur["history"][:i] + cur["history"][i+1:])
                if still(cand): cur = cand
                else: i += 1
            for i, o in enumerate(cur["history"]):
                if op_peek(o) is not None and time.time() < deadline:
                    cand = dict(cur, history=cur["history"][:i] + [op_without_peek(o)] + cur["history"][i+1:])
                    if still(cand): cur = cand
            i = 0
            while i < len(cur["chain"]) and time.time() < deadline:
                cand = dict(cur, chain=cur["chain"][:i] + cur["chain"][i+1:])
                if still(cand): cur = cand
                else: i += 1
    if kind.startswith("params:") and (deadline is None or time.time() < deadline):
        # params: the plainest history that can show it -- one transformation, one complete read, one look-up (a look-up made inside
        # a read cannot be taken out of it step by step: without it nothing is judged)
        for t in [o for o in cur["history"] if o[0] in TRANSFORMS]:
            cand = dict(cur, history=[t, ["FULL"], ["PARAMS"]])
            if cand["history"] != cur["history"] and still(cand): cur = cand; break
    changed = True
    while changed and (deadline is None or time.time() < deadline):
        changed = False
        for i in range(len(cur["history"])):
            cand = dict(cur, history=cur["history"][:i] + cur["history"][i+1:])
            if cand["history"] and still(cand): cur = cand; changed = True; break
        if changed: continue
        for i, o in enumerate(cur["history"]):                   # a params look-up inside a read: needed?
            if op_peek(o) is not None:
                cand = dict(cur, history=cur["history"][:i] + [op_without_peek(o)] + cur["history"][i+1:])
                if still(cand): cur = cand; changed = True; break
        if changed: continue
        for i in range(len(cur["chain"])):
            cand = without_filter(cur, i)
            if still(cand): cur = cand; changed = True; break
        if changed: continue
        # a caller-written logging policy: is it part of the mechanism?  (coba's RandomLearner, else the plainest PMF learner)
        for i, f in enumerate(cur["chain"]):
            if f["f"] == "Logged" and f["a"]["learner"].startswith("pmf:") and f["a"]["learner"] != PLAIN_PMF_LEARNER:
                for plain in ("random", PLAIN_PMF_LEARNER):
                    cand = dict(cur, chain=cur["chain"][:i] + [{"f": "Logged", "a": dict(f["a"], learner=plain)}] + cur["chain"][i+1:])
                    if still(cand): cur = cand; changed = True; break
                if changed: break
        if changed: continue
        ls = ((cur.get("coll") or {}).get("args") or {}).get("learners")
        if ls and any(l.startswith("pmf:") and l != PLAIN_PMF_LEARNER for l in ls):
            for plain in ("random", PLAIN_PMF_LEARNER):
                cand = dict(cur, coll=dict(cur["coll"], args=dict(cur["coll"]["args"], learners=[plain if l.startswith("pmf:") else l for l in ls])))
                if still(cand): cur = cand; changed = True; break
        if changed: continue
        if cur["view"] == "final" and not cur.get("coll") and not any(o[0] in ("MATERIALIZE", "SAVE") for o in cur["history"]):
            cand = dict(cur, view="raw")
            if still(cand): cur = cand; changed = True
    if cur.get("coll"):
        minimise_collection(final=True)
    elif kind.startswith("transform:PICKLE:") and not cur["chain"] and not _is_big(cur) and (deadline is None or time.time() < deadline):
        # an object that can no longer be pickled once it has been read, with no filter left: does the source matter?
        cand = dict(cur, source=dict(PLAIN_SOURCE))
        if still(cand): cur = cand
    return cur

PLAIN_SOURCE = {"kind": "syn", "which": "bandit", "n": 6, "n_actions": 3, "ncf": 0, "naf": 0, "seed": 1, "plain": True}
def _src_label(s):
    s = resolve_source(s)
    if s.get("plain"): return "any"          # a shrunk witness: the failure survived the replacement of the source by the plainest one
    return s["kind"] if s["kind"] != "saved" else f"saved({s['inner']['kind']})"

def signature(spec, kind):
    """mechanism-level: failure kind / the minimal filter chain (or, when no filter is needed, the source kind) /
    what has to precede the failing read"""
    names = [f["f"] + (learner_label(f["a"]["learner"]) if f["f"] == "Logged" else "") for f in spec["chain"]]
    names = [n for i, n in enumerate(names) if i == 0 or names[i-1] != n]
    where = ("chain=" + ">".join(names)) if names else ("src=" + _src_label(spec["source"]))
    ops = [o[0] for o in spec["history"]]
    tr = sorted(set(ops) & set(TRANSFORMS))
    if tr: after = "after-" + "+".join(tr) + ("+partial" if "PARTIAL" in ops else "")
    elif "PARTIAL" in ops: after = "after-partial"
    elif ops.count("FULL") >= 2: after = "reread"
    else: after = "single-read"
    peeks = [op_peek(o) for o in spec["history"] if op_peek(o) is not None]
    if peeks: after += "+params-before-first-pull" if 0 in peeks else "+params-during-read"
    if _is_big(spec): after += "+large-n"          # the failure did not survive at an ordinary size (or was never tried there)
    c = spec.get("coll")
    if c:
        # the failure did not survive on a single environment (or was never tried there); '>ten': nor on the small collections tried;
        # the way the collection is made is named when the failure did not survive with the plainest one (or was never tried there)
        ls = (c.get("args") or {}).get("learners") or []
        lab = max((learner_label(l) for l in ls), key=len, default="")          # the most specific label among the members' policies
        after += "+collection" + (">ten" if c["m"] > COLL_MANY else "") + (f"[{c['how']}{lab}]" if c["how"] != "params-tags" else "")
    return f"{kind}/{where}/{after}"

def _rereads_shared_objects(names, hist):
    """two complete reads hand out the very same interaction objects (or shallow copies of them): the chain ends its Grounded part
    in a Cache, or the history applies MATERIALIZE / CACHE / CHUNK, and two FULL reads follow with no PICKLE / SAVE in between"""
    g = names.index("Grounded")
    starts = [-1] if any(n == "Cache" for n in names[g+1:]) else []
    starts += [i for i, h in enumerate(hist) if h in ("MATERIALIZE", "CACHE", "CHUNK")]
    for t in starts:
        fulls = 0
        for h in hist[t+1:]:
            if h == "FULL": fulls += 1
            elif h in ("PICKLE", "SAVE"): fulls = 0
            if fulls >= 2: return True
    return False

def check_case(spec, ctx=None, do_shrink=True):
    """-> [(sig, what, witness_spec)]"""
    with warnings.catch_warnings():
        warnings.simplefilter("ignore")
        status, viol = run_history(spec, ctx)
    names = tuple(f["f"] for f in spec["chain"]); hist = tuple(o[0] for o in spec["history"])
    if ctx:
        if status == "invalid":
            ctx.count("skip.invalid-pipeline"); ctx.count(f"skip.invalid.{viol[0][0]}")
            ctx.case(("invalid",), nontrivial=False)
        else:
            nontrivial = (bool(names) or any(h != "FULL" and h != "PARAMS" for h in hist)) and ctx.extra.get("_n_ref", 0) >= 2
            c = spec.get("coll")
            if c:
                size = "2-10" if c["m"] <= COLL_MANY else "11-30" if c["m"] <= 30 else "over-30"
                ctx.case((_src_label(spec["source"]), names, hist, spec["view"], "coll", c["how"], c.get("pos"), size, bool(c.get("presweep"))), nontrivial=nontrivial)
                ctx.count("reach.coll"); ctx.count(f"reach.coll.how.{c['how']}"); ctx.count(f"reach.coll.members.{size}")
                for o in spec["history"]:
                    if o[0] == "SAVE": ctx.count(f"reach.coll.save.{o[1] if len(o) > 1 else 'return'}")
            else:
                ctx.case((_src_label(spec["source"]), names, hist, spec["view"]), nontrivial=nontrivial)
            ctx.count(f"reach.source.{resolve_source(spec['source'])['kind']}")
            for nme in set(names): ctx.count(f"reach.filter.{nme}")
            if "Shuffle" in names and ("Logged" in names[:names.index("Shuffle")] or spec["source"]["kind"] in ("result",) or
                                       any("action" in i for i in spec["source"].get("interactions", [])[:1])): ctx.count("reach.shuffle-on-logged")
            if ("Cache" in names or "CACHE" in hist or "CHUNK" in hist) and "PARTIAL" in hist: ctx.count("reach.cache-then-partial")
            H = spec["history"]
            if any(o[0] == "PARTIAL" and o[1] >= 1 and ("Cache" in names or {"CACHE", "CHUNK"} & set(hist[:i])) and
                   any(h == "PICKLE" and "FULL" not in hist[i+1:j] for j, h in enumerate(hist) if j > i) for i, o in enumerate(H)):
                ctx.count("reach.pickle-while-a-cache-is-part-filled")
            # logging policies: (learner, seed) of every Logged of the chain and of a collection made by logged([learners])
            logs = [(f["a"]["learner"], f["a"]["seed"]) for f in spec["chain"] if f["f"] == "Logged"]
            if c and c["how"] == "logged-learners": logs += [(l, c["args"]["seed"]) for l in c["args"]["learners"][c["at"]:c["at"]+1]]
            for l, sd in logs:
                if l.startswith("pmf:"):
                    ctx.count("reach.logged.pmf-learner")
                    if not sd: ctx.count("reach.logged.pmf-learner.seed-zero")
                    if l.endswith(":own"): ctx.count("reach.logged.learner-hands-out-own-params-dict")
            if ctx.extra.get("_n_ref", 0) >= LARGE_N:
                ctx.count("reach.large-n")
                ctx.count(f"reach.large-n.source.{_src_label(spec['source']).split('(')[0]}")
                for nme in set(names): ctx.count(f"reach.large-n.filter.{nme}")
                if "Grounded" in names and ctx.extra.get("_fb_values") and _rereads_shared_objects(names, hist):
                    ctx.count("reach.large-n.feedbacks-reread-on-shared-interactions")
            shape = spec.get("shape", {})
            if "nested-cat" in str(shape.get("ctx")) or "nested-cat" in str(shape.get("acts")):
                ctx.count("reach.nested-categorical")
                if spec["view"] == "final" or {"Finalize", "Repr"} & set(names):
                    ctx.count("reach.nested-categorical.encoded")
                    if "PARTIAL" in hist: ctx.count("reach.nested-categorical.encoded.after-partial")
    if status == "invalid": return []
    out = []
    seen = set()
    for mode, what in viol:
        kind = kind_of(mode)
        if kind in seen: continue
        seen.add(kind)
        if kind == "params:differ-from-fresh:lacks=n_actions" and resolve_source(spec["source"])["kind"].startswith("sup-") and "SAVE" in hist:
            # one mechanism, one signature (an open finding has to be listed under a stable name): a supervised environment learns
            # n_actions while it is read; save() of one that has not been read yet stores the params it had before.  Neither the
            # kind of supervised source nor the filters nor the rest of the history are part of it, so nothing is shrunk.
            out.append((f"{kind}/src=supervised/after-SAVE", what, spec)); continue
        if do_shrink:
            budget_ok = True
            if ctx is not None:
                ctx.extra["_shrinks"] = ctx.extra.get("_shrinks", 0) + 1
                budget_ok = ctx.extra["_shrinks"] <= MAX_SHRINKS_PER_SHARD and ctx.time_left() > 5
            if not budget_ok:
                out.append((f"unshrunk:{kind}/src={_src_label(spec['source'])}", what, spec)); continue
            allow = None
            if ctx is not None and _is_big(spec): allow = min(BIG_SHRINK_S, max(5, (ctx.time_left() - 15) / 2))
            w = shrink(spec, kind, allow)
            out.append((signature(w, kind), what, w))
        else:
            out.append((signature(spec, kind), what, spec))
    return out

# =================================================================================================== entry points
def run_shard(ctx):
    sys.setrecursionlimit(10000)
    # large-N cases: a fixed number per shard, spread evenly between the regular cases (when time runs out both kinds are cut alike)
    # and drawn from their own stream (the regular cases are the same with and without them); large-N case g of the run takes entry
    # g of BIG_ROUND, so that one round is complete after len(BIG_ROUND) cases
    k_big = BIG_PER_SHARD.get(ctx.tier, 5)
    every = max(1, ctx.n // k_big)
    brng = random.Random(f"{ctx.seed}/{ctx.prop}/{ctx.tier}/{ctx.shard}/large-n")
    # collection cases: likewise a fixed number per shard from their own stream; collection case g of the run takes entry g of COLL_ROUND
    k_coll = COLL_PER_SHARD.get(ctx.tier, 40)
    every_c = max(1, ctx.n // k_coll)
    crng = random.Random(f"{ctx.seed}/{ctx.prop}/{ctx.tier}/{ctx.shard}/collection")
    i = j = c = 0
    while i < ctx.n and ctx.time_left() > 0:
        if c < k_coll and i == c * every_c + every_c // 2:
            how, tr = COLL_ROUND[(c * ctx.nshards + ctx.shard) % len(COLL_ROUND)]
            spec = gen_coll_case(crng, how, tr)
            for sig, what, witness in check_case(spec, ctx):
                ctx.violation(sig, what, witness)
            if c < 1 and ctx.shard < 2: ctx.sample({"source": _src_label(spec["source"]), "chain": [f["f"] for f in spec["chain"]], "history": spec["history"], "view": spec["view"], "coll": {k: v for k, v in spec["coll"].items() if k != "args"}})
            c += 1
            continue
        if j < k_big and i == j * every:
            focus, tr = BIG_ROUND[(j * ctx.nshards + ctx.shard) % len(BIG_ROUND)]
            spec = gen_big_case(brng, focus, tr)
            for sig, what, witness in check_case(spec, ctx):
                ctx.violation(sig, what, witness)
            if j < 1 and ctx.shard < 2: ctx.sample({"source": spec["source"], "chain": [f["f"] for f in spec["chain"]], "history": spec["history"], "view": spec["view"]})
            j += 1
            continue
        if i % 12 == 5:
            cw = gen_case_cached_then_rewritten(random.Random(f"{ctx.seed}/C04/cached-then-rewritten/{ctx.shard}/{i}"))
            if cw is not None:
                ctx.count("histories.in-place-writer-behind-a-cache")
                if any(f["f"] == "Densify" for f in cw["chain"]): ctx.count("histories.in-place-writer-behind-a-cache.densified")
                for sig, what, witness in check_case(cw, ctx):
                    ctx.violation(sig, what, witness)
        spec = gen_case(ctx.rng, ctx.tier)
        for sig, what, witness in check_case(spec, ctx):
            ctx.violation(sig, what, witness)
        if not spec.get("coll") and any(f["f"] in STATEFUL_WHILE_READ or (f["f"] == "Densify" and f["a"].get("method") == "lookup") for f in spec["chain"]):
            # filters that build up state WHILE they are read (a name->column table, a part-filled cache): the same pipeline is also
            # pickled / saved when that state is part way (a read dropped after k interactions), and the copy is read in full twice
            import copy as _copy
            d = _copy.deepcopy(spec)
            d["history"] = [["PARTIAL", ctx.rng.choice([1, 2, 3, 5]), ctx.rng.choice(["close", "drop"])], ["PICKLE"], ["FULL"], ["FULL"]]
            ctx.count("histories.transformed-while-read-state-is-part-way")
            for sig, what, witness in check_case(d, ctx):
                ctx.violation(sig, what, witness)
        if i < 1: ctx.sample({"source": _src_label(spec["source"]), "chain": [f["f"] for f in spec["chain"]], "history": spec["history"], "view": spec["view"]})
        i += 1
    ctx.count("histories", i); ctx.count("histories.large-n", j); ctx.count("histories.collection", c)
    ctx.extra.pop("_shrinks", None); ctx.extra.pop("_n_ref", None); ctx.extra.pop("_fb_values", None)
    if i < ctx.n: ctx.extra["histories_skipped_for_time"] = ctx.n - i
    if j < k_big: ctx.extra["large_n_histories_skipped_for_time"] = k_big - j
    if c < k_coll: ctx.extra["collection_histories_skipped_for_time"] = k_coll - c

def replay(witness):
    return [(sig, what) for sig, what, _ in check_case(witness, None, do_shrink=False)]
