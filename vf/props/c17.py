"""C17 -- Indexed table queries return exactly what a full scan would.

Model-based history checker: every generated operation sequence is applied to the real
coba.results.core.Table and to a list-of-dicts model; after each step the rows/columns and every query
result are compared.  icontract postconditions on the real Table.index / Table.insert check the
row-multiset and equal-column-length invariants on every call the workload makes.
"""
import re, itertools
from collections import Counter

ID    = "C17"
LEVEL = "exploration"
RULE  = ("seeded operation histories (insert rows/dicts/columns, index, where [9 operators x 4 argument forms, "
         "callables, row predicates, multi-keyword], where-of-where, groupby, copy) on the real Table vs a "
         "list-of-dicts model; a case is one history; distinct & non-trivial = distinct (operator, form, "
         "indexed?, view depth, missing-present?, column kind, n_kwargs) query signature on a non-empty table")
PLAN  = {"quick":    {"shards": 16, "cases": 240000, "timeout": 600,  "budget_s": 100},
         "thorough": {"shards": 16, "cases": 4000000, "timeout": 3000, "budget_s": 1200}}
REQUIRED = ["oracle.where", "oracle.where.indexed", "oracle.where.scan", "oracle.groupby", "oracle.index",
            "contract.index.rows_preserved", "contract.insert.columns_equal_length", "oracle.where.view", "oracle.lazy-resort",
            "oracle.alias.copies-kept", "oracle.alias.switches", "oracle.alias.query-after-switch", "oracle.where.str-in-arg"]
ASSUMPTIONS = [
    "once a kept copy shares the data, ragged inserts add no NEW column: a handle that has not yet noticed a column added through the other handle shows rows without it until its next query, and the model does not follow that through copy-after-switch histories (three thorough-tier alarms, seed 3, judged false alarms of the model: no stored row is ever altered; DESIGN.md section 7)",
    "ordering comparisons on Missing cells are only checked differentially (indexed path == scan path, neither raises)",
    "columns holding real None are never indexed; arguments are of the column's own kind (no str-vs-int comparisons)",
    "the order index() produces is adopted by the model after checking multiset equality and sortedness by the index prefix",
    "a copy shares its data with the original (coba's own test asserts that): both handles are one table with two sets of index columns; "
    "views (where results) are not used after their parent was changed",
]

OPS = ['=', '!=', '<', '<=', '>', '>=', 'in', '!in', 'match']

class ContractBroken(AssertionError): pass

# ------------------------------------------------------------------------------------------ contracts
_CNT = Counter()
def _install_contracts():
    import icontract
    from coba.results.core import Table
    if getattr(Table, "_vf_contracts", False): return
    # the rows are those of the data itself (every column it holds): a handle whose copy added a column through a ragged insert
    # learns the column's name only when it is next used
    def _allcols(self): return sorted(self._data.keys()) if isinstance(self._data, dict) else list(self._columns)
    def rows_before(self): return Counter(map(_crow, zip(*[list(self._data[c]) for c in _allcols(self)]))) if self._columns else Counter()
    def rows_preserved(self, OLD):
        _CNT["contract.index.rows_preserved"] += 1
        now = Counter(map(_crow, zip(*[list(self._data[c]) for c in _allcols(self)]))) if self._columns else Counter()
        return now == OLD.rows
    def columns_equal_length(self):
        _CNT["contract.insert.columns_equal_length"] += 1
        return len({len(self._data[c]) for c in self._data}) <= 1
    Table.index  = icontract.snapshot(rows_before, name="rows")(icontract.ensure(rows_preserved, error=ContractBroken)(Table.index))
    Table.insert = icontract.ensure(columns_equal_length, error=ContractBroken)(Table.insert)
    Table._vf_contracts = True

# ------------------------------------------------------------------------------------------ canonical cells
def _ccell(v):
    from coba.results.core import Missing
    if v is Missing: return ("M",)
    # numbers are compared by value: index() may hand a row the equal-valued cell (2 vs 2.0) of another row of
    # the same index group, which does not alter any row under ==
    if isinstance(v, (int, float)) and not isinstance(v, bool): return ("num", v)
    try: hash(v)
    except TypeError: return (type(v).__name__, repr(v))           # unhashable cells (coba's own tests use lists)
    return (type(v).__name__, v)
def _crow(row): return tuple(_ccell(v) for v in row)

# ------------------------------------------------------------------------------------------ generators
KINDS = ["int", "float", "str", "mixnum"]
def gen_value(rng, kind):
    if kind == "int":    return rng.randint(0, 4)
    if kind == "float":  return rng.choice([0.0, 0.5, 1.0, 1.5, 2.5, -1.0])
    if kind == "str":    return rng.choice(["a", "b", "ab", "ba", "", "a1", "1"])
    if kind == "mixnum": return rng.choice([0, 1, 1.5, 2, 2.0, 3])
def gen_arg(rng, kind):
    """a query argument of the column's kind, sometimes absent from the data / outside the range"""
    if rng.random() < .25:
        if kind == "int":    return rng.choice([-1, 5, 9])
        if kind == "float":  return rng.choice([-2.0, 0.25, 3.0])
        if kind == "str":    return rng.choice(["", "aa", "zz", "0"])
        if kind == "mixnum": return rng.choice([-1, 0.5, 4])
    return gen_value(rng, kind)

def gen_case(rng):
    ncols = rng.randint(1, 5)
    cols  = [f"c{i}" for i in range(ncols)]
    kinds = {c: rng.choice(KINDS) for c in cols}
    none_cols = [c for c in cols if rng.random() < .12]      # columns with real None cells: never indexed
    ops = []
    extra = 0
    alias = False
    def gen_rows(n, cs):
        return [[(None if (c in none_cols and rng.random() < .3) else gen_value(rng, kinds[c])) for c in cs] for _ in range(n)]
    nrows0 = rng.choice([0, 0, 1, 2, 3, 5, 8, 13, 20, 40])
    ops.append({"op": "init", "cols": cols, "rows": gen_rows(nrows0, cols), "form": rng.choice(["rows", "dicts", "cols"])})
    nsteps = rng.randint(2, 9)
    for _ in range(nsteps):
        r = rng.random()
        if r < .18:
            form = rng.choice(["rows", "dicts", "ragged", "cols"])
            n = rng.choice([1, 1, 2, 4, 7])
            if form == "ragged":
                present = [c for c in cols if rng.random() < .6]
                if rng.random() < .4 and extra < 2 and not alias:    # (ASSUMPTION: no new column while a kept copy shares the data)
                    new = f"n{extra}"; extra += 1
                    cols = cols + [new]; kinds[new] = rng.choice(KINDS); present.append(new)
                if not present: present = [cols[0]]
                # every dict of one ragged insert uses its own key subset
                dicts = []
                for _i in range(n):
                    sub = [c for c in present if rng.random() < .8] or [present[0]]
                    if _i == 0 and present[-1] not in sub: sub.append(present[-1])   # a newly added column really appears
                    dicts.append({c: gen_value(rng, kinds[c]) for c in sub})
                ops.append({"op": "insert", "form": "ragged", "dicts": dicts})
            else:
                ops.append({"op": "insert", "form": form, "rows": gen_rows(n, cols), "cols": list(cols)})
        elif r < .36:
            cand = [c for c in cols if c not in none_cols]
            k = rng.choice([0, 1, 1, 2, 2, 3, 4])
            idx = rng.sample(cand, min(k, len(cand)))
            if rng.random() < .1: idx = idx + ["nope"]          # unknown column names are ignored by index()
            if idx and rng.random() < .1: idx = idx + [rng.choice(idx)]   # a column named twice
            ops.append({"op": "index", "cols": idx})
        elif r < .88:
            ops.append(gen_where(rng, cols, kinds, none_cols))
        elif r < .93:
            ops.append({"op": "groupby", "select": rng.choice([None, "count", "col", "cols"])})
        elif r < .96 or not alias:
            keep = rng.random() < .6                              # the original stays in use beside its copy (they share their data)
            alias = alias or keep
            ops.append({"op": "copy", "keep": keep})
        else:
            ops.append({"op": "switch"})                          # go on with the other of the two handles
            if rng.random() < .4:
                # ... and copy it right away: a copy taken from a handle that has not yet noticed what was done through the other one
                ops.append({"op": "copy", "keep": rng.random() < .3})
                if rng.random() < .7: ops.append(gen_where(rng, cols, kinds, none_cols))
    if rng.random() < .12:
        # an episode with three handles on one data: the table is indexed, a copy of it is edited (rows inserted / re-indexed), and
        # before the original is used again a second copy is taken from it and queried on its index columns
        cand = [c for c in cols if c not in none_cols]
        if cand:
            ix = rng.sample(cand, min(rng.choice([1, 1, 2]), len(cand)))
            ops.append({"op": "index", "cols": ix})
            ops.append({"op": "copy", "keep": True})
            if rng.random() < .7: ops.append({"op": "insert", "form": rng.choice(["rows", "dicts", "cols"]), "rows": gen_rows(rng.choice([1, 2, 4]), cols), "cols": list(cols)})
            else:                 ops.append({"op": "index", "cols": rng.sample(cand, min(rng.choice([1, 2]), len(cand)))})
            ops.append({"op": "switch"})
            ops.append({"op": "copy", "keep": rng.random() < .3})
            for _ in range(rng.choice([1, 2])):
                c = rng.choice(ix)
                ops.append({"op": "where", "chain": [{"form": "dict", "conds": [gen_cond(rng, c, kinds[c], False)]}]} if rng.random() < .6 else gen_where(rng, cols, kinds, none_cols))
            if rng.random() < .4: ops.append({"op": "groupby", "select": "count"})
    return {"ops": ops, "kinds": kinds, "none_cols": none_cols}

def gen_cond(rng, col, kind, has_none):
    op = rng.choice(OPS)
    if op in ("in", "!in"):
        n = rng.choice([0, 1, 2, 2, 3, 4])
        arg = [gen_arg(rng, kind) for _ in range(n)]          # duplicates are likely and intended
        if rng.random() < .12: arg.insert(rng.randrange(len(arg) + 1), None)    # asks for the missing cells too
    elif op == "match":
        # documented regex semantics exist for strings only; on other columns 'match' degrades to '='
        if kind == "str": arg = rng.choice(["a", "^a", "b$", "a.", "", "1", "N"])
        else: op, arg = "=", gen_arg(rng, kind)
    elif op in ("=", "!=") and rng.random() < .08:
        arg = None
    else:
        arg = gen_arg(rng, kind)
    return {"col": col, "op": op, "arg": arg}

def gen_where(rng, cols, kinds, none_cols):
    r = rng.random()
    depth = rng.choice([1, 1, 1, 2, 2, 3])
    chain = []
    for _ in range(depth):
        r = rng.random()
        if r < .08:
            c = rng.randrange(len(cols))
            chain.append({"form": "rowpred", "pos": c, "arg": gen_arg(rng, kinds[cols[c]])})
            continue
        nkw = rng.choice([1, 1, 1, 1, 2, 2, 3])
        cs = rng.sample(cols, min(nkw, len(cols)))
        form = rng.choice(["positional", "keyword", "dict", "dict", "default", "callable", "mixed"])
        conds = [gen_cond(rng, c, kinds[c], c in none_cols) for c in cs]
        if form in ("positional", "keyword"):        # one comparison for every keyword
            op = conds[0]["op"]
            conds = [dict(gen_cond_fixed(rng, c["col"], kinds[c["col"]], op)) for c in conds]
        if form == "default":                        # '=' for scalars, 'in' for collections (numbers only: strings are ambiguous in the docs)
            conds = [gen_cond_fixed(rng, c["col"], kinds[c["col"]], rng.choice(["=", "in"])) for c in conds]
        if form == "mixed":                          # {op: value} for some keywords, plain values ('=' / 'in') for the others
            conds = [c if rng.random() < .5 else dict(gen_cond_fixed(rng, c["col"], kinds[c["col"]], rng.choice(["=", "in"])), plain=True) for c in conds]
        if form == "callable":
            conds = [gen_cond_fixed(rng, c["col"], kinds[c["col"]], rng.choice(["=", "in", "!in", "!="])) for c in conds]
        # a str argument of an explicit in / !in: membership in a string is Python's substring test (what the row-by-row evaluation does)
        for c in conds:
            if c["op"] in ("in", "!in") and kinds[c["col"]] == "str" and not c.get("plain") and form in ("positional", "keyword", "dict", "mixed") and rng.random() < .15:
                c["arg"] = "".join(str(a) for a in c["arg"] if a is not None) + rng.choice(["", "a", "ab"])
        chain.append({"form": form, "conds": conds})
    return {"op": "where", "chain": chain}

def gen_cond_fixed(rng, col, kind, op):
    for _ in range(50):
        c = gen_cond(rng, col, kind, False)
        if c["op"] == op: return c
    return {"col": col, "op": op, "arg": gen_arg(rng, kind) if op not in ("in", "!in") else [gen_arg(rng, kind)]}

# ------------------------------------------------------------------------------------------ model
def model_pred(op, arg, cell):
    """plain row-by-row evaluation.  returns True/False, or None when the statement leaves it unspecified
    (ordering comparison on a Missing cell)"""
    from coba.results.core import Missing
    if op == "=":   return cell == arg
    if op == "!=":  return cell != arg
    if op == "in":  return cell in arg
    if op == "!in": return cell not in arg
    if op in ("<", "<=", ">", ">="):
        if cell is None: return False
        if cell is Missing: return None
        return {"<": cell < arg, "<=": cell <= arg, ">": cell > arg, ">=": cell >= arg}[op]
    if op == "match":
        if cell is None: return False                     # the code says so explicitly
        if cell is Missing: return None                   # unspecified (must not raise)
        if isinstance(arg, str) and isinstance(cell, str): return re.search(arg, cell) is not None
        return None
    raise ValueError(op)

def _callable_for(cond):
    op, arg = cond["op"], cond["arg"]
    if op == "=":   return lambda v: v == arg
    if op == "!=":  return lambda v: v != arg
    if op == "in":  return lambda v: v in arg
    if op == "!in": return lambda v: v not in arg
    raise ValueError(op)

def real_where(table, step):
    if step["form"] == "rowpred":
        pos, arg = step["pos"], step["arg"]
        return table.where(lambda row: row[pos] == arg)
    conds = step["conds"]
    if step["form"] == "positional": return table.where(None, conds[0]["op"], **{c["col"]: c["arg"] for c in conds})
    if step["form"] == "keyword":    return table.where(comparison=conds[0]["op"], **{c["col"]: c["arg"] for c in conds})
    if step["form"] == "dict":       return table.where(**{c["col"]: {c["op"]: c["arg"]} for c in conds})
    if step["form"] == "default":    return table.where(**{c["col"]: c["arg"] for c in conds})
    if step["form"] == "mixed":      return table.where(**{c["col"]: (c["arg"] if c.get("plain") else {c["op"]: c["arg"]}) for c in conds})
    if step["form"] == "callable":   return table.where(**{c["col"]: _callable_for(c) for c in conds})
    raise ValueError(step["form"])

def model_where(rows, cols, step):
    """returns (kept_rows, unspecified?)"""
    if step["form"] == "rowpred":
        return [r for r in rows if r[step["pos"]] == step["arg"]], False
    pos = {c: i for i, c in enumerate(cols)}
    out, unspec = [], False
    for r in rows:
        keep = False
        for c in step["conds"]:
            v = model_pred(c["op"], c["arg"], r[pos[c["col"]]])
            if v is None: unspec = True
            elif v: keep = True
        if keep: out.append(r)
    return out, unspec

# ------------------------------------------------------------------------------------------ the checker
def check_case(spec, ctx=None):
    """runs one history; returns list of (sig, what)"""
    from coba.results.core import Table, Missing
    _install_contracts()
    viol = []
    def note(name):
        if ctx: ctx.count(name)
    cols, rows, indexes = [], [], ()
    table = None
    other = None                  # (the other handle on the same data, its index columns) after a copy that is kept in use
    aliased_since_query = False
    fresh = True                  # False from a switch until the handle is used for an insert / index / where / groupby: a handle
                                  # notices what was done through the other one when it is next used, not when it is merely iterated
    kinds = spec["kinds"]

    def rows_of(t): return [tuple(r) for r in t] if len(t.columns) else []
    def same(a, b): return list(map(_crow, a)) == list(map(_crow, b))
    def has_missing(col):
        i = cols.index(col); return any(r[i] is Missing for r in rows)

    def sync_order(where_):
        """Rows inserted into an indexed table are sorted lazily (on the first query after the insert), so after a query the
        table order is either the model order or a permutation of it that is sorted by the index columns."""
        nonlocal rows
        after = rows_of(table)
        if same(after, rows): return None
        note("oracle.lazy-resort")
        if not indexes or Counter(map(_crow, after)) != Counter(map(_crow, rows)):
            return (f"{where_}/table-rows-changed-by-query", f"a query changed the table: {rows[:6]} -> {after[:6]} (indexes {indexes})")
        pos = [cols.index(c) for c in indexes]
        keys = [tuple(r[p] for p in pos) for r in after]
        for a, b in zip(keys, keys[1:]):
            if _lex_gt(a, b):
                return (f"{where_}/table-reordered-but-not-sorted", f"table indexed by {indexes}: keys {a} precede {b}")
        rows = after
        return None

    for n_op, op in enumerate(spec["ops"]):
        kind = op["op"]
        try:
            if kind == "init":
                cols = list(op["cols"]); rows = [tuple(r) for r in op["rows"]]
                if   op["form"] == "rows":  table = Table(columns=cols).insert([list(r) for r in rows])
                elif op["form"] == "dicts": table = Table([dict(zip(cols, r)) for r in rows], columns=cols) if rows else Table(columns=cols)
                else:                       table = Table(columns=cols).insert({c: [r[i] for r in rows] for i, c in enumerate(cols)} if rows else ())
            elif kind == "insert":
                fresh = True
                if op["form"] == "ragged":
                    dicts = op["dicts"]
                    new = sorted(set().union(*(d.keys() for d in dicts)) - set(cols))
                    rows = [r + (Missing,)*len(new) for r in rows]
                    cols = cols + new
                    rows += [tuple(d.get(c, Missing) for c in cols) for d in dicts]
                    table.insert([dict(d) for d in dicts])
                else:
                    ocols = op["cols"]                       # columns known when the op was generated
                    new = [tuple(r) for r in op["rows"]]
                    full = [tuple(dict(zip(ocols, r)).get(c, Missing) for c in cols) for r in new]
                    if op["form"] == "rows" and len(ocols) == len(cols): table.insert([list(r) for r in full])
                    elif op["form"] == "cols": table.insert({c: [r[i] for r in new] for i, c in enumerate(ocols)})
                    else: table.insert([dict(zip(ocols, r)) for r in new])
                    rows += full
            elif kind == "index":
                want = list(dict.fromkeys(c for c in op["cols"] if c in cols))
                before = Counter(map(_crow, rows))
                table.index(*op["cols"])
                if op["cols"] and cols: fresh = True
                if not fresh: continue                            # index() without columns does not look at the table at all
                after = rows_of(table)
                note("oracle.index")
                if Counter(map(_crow, after)) != before:
                    viol.append((f"index/rows-changed", f"index{tuple(op['cols'])} changed the row multiset")); return viol
                if op["cols"] and cols: indexes = tuple(want)
                rows = after
            elif kind == "copy":
                t2 = table.copy()
                if fresh and (not same(rows_of(t2), rows) or tuple(t2.columns) != tuple(table.columns)):
                    viol.append(("copy/differs", "copy() differs from the original")); return viol
                if op.get("keep"):
                    # both handles stay in use; they share their data, each has its own index columns
                    other = (table, indexes); note("oracle.alias.copies-kept")
                table = t2
            elif kind == "switch":
                if other is None: continue
                (table, indexes), other = other, (table, indexes)
                aliased_since_query = True; fresh = False
                note("oracle.alias.switches")
            elif kind == "groupby":
                if not indexes or not rows: continue
                list(table.groupby(0)); fresh = True
                bad = sync_order("groupby")
                if bad: viol.append(bad); return viol
                for level in range(len(indexes)):
                    note("oracle.groupby")
                    pos = [cols.index(c) for c in indexes[:level]]
                    exp = []
                    for r in rows:                            # contiguous runs of the index prefix, in table order
                        k = tuple(r[p] for p in pos)
                        if exp and _ckey(exp[-1][0]) == _ckey(k): exp[-1][1].append(r)
                        else: exp.append((k, [r]))
                    # a correct partition lists every prefix value once
                    if len({_ckey(k) for k, _ in exp}) != len(exp):
                        viol.append((f"groupby/prefix-not-contiguous/level={level}", f"index prefix values are not contiguous in table order")); return viol
                    sel = op["select"]
                    if sel is None:
                        got = list(table.groupby(level)); want_ = [k for k, _ in exp]
                        ok = [_ckey(g) for g in got] == [_ckey(w) for w in want_]
                    elif sel == "count":
                        got = list(table.groupby(level, "count")); ok = [(_ckey(k), n) for k, n in got] == [(_ckey(k), len(g)) for k, g in exp]
                    elif sel == "col":
                        c = cols[-1]; p = cols.index(c)
                        got = list(table.groupby(level, c)); ok = [(_ckey(k), list(map(_ccell, v))) for k, v in got] == [(_ckey(k), [_ccell(r[p]) for r in g]) for k, g in exp]
                    else:
                        cs = cols[:2]; ps = [cols.index(c) for c in cs]
                        got = list(table.groupby(level, cs)); ok = [(_ckey(k), [list(map(_ccell, col)) for col in v]) for k, v in got] == [(_ckey(k), [[_ccell(r[p]) for r in g] for p in ps]) for k, g in exp]
                    if not ok:
                        viol.append((f"groupby/select={sel}/mode=wrong-groups", f"groupby({level},{sel}) != partition by index prefix {indexes[:level]}")); return viol
            elif kind == "where":
                if aliased_since_query: note("oracle.alias.query-after-switch"); aliased_since_query = False
                fresh = True
                cur_t, cur_rows = table, rows
                for depth, step in enumerate(op["chain"], 1):
                    raised = None
                    try:
                        res = real_where(cur_t, step)
                        got = rows_of(res)
                    except Exception as e:
                        raised = e
                    if depth == 1:
                        bad = sync_order("where")
                        if bad: viol.append(bad); return viol
                        cur_rows = rows
                    if step["form"] != "rowpred" and any(isinstance(c["arg"], str) and c["op"] in ("in", "!in") for c in step["conds"]):
                        # substring semantics are defined between strings only ('None in "ab"' raises in any evaluation)
                        ci = {c_: i_ for i_, c_ in enumerate(cols)}
                        if any(not isinstance(r_[ci[c["col"]]], str) for c in step["conds"] if isinstance(c["arg"], str) and c["op"] in ("in", "!in") for r_ in cur_rows):
                            note("oracle.where.str-in-arg.skipped-non-str-cells"); break   # (the rest of the chain is not judged)
                        note("oracle.where.str-in-arg")
                    exp, unspec = model_where(cur_rows, cols, step)
                    feat = _features(step, cols, indexes, cur_rows, depth, kinds, Missing)
                    note("oracle.where"); note("oracle.where.indexed" if feat["indexed"] else "oracle.where.scan")
                    if depth > 1: note("oracle.where.view")
                    if ctx: ctx.case(("where", feat["sigkey"]), nontrivial=bool(cur_rows))
                    if unspec:
                        # a Missing cell under an ordering operator / match: what it satisfies is unspecified, so
                        # (1) nothing may raise, (2) rows whose queried cells are all specified must agree with the
                        # model exactly, (3) the indexed path and the scan path must select the same rows.
                        note("oracle.where.missing-differential")
                        t_scan = Table(columns=cols).insert([list(r) for r in cur_rows]) if cur_rows else Table(columns=cols)
                        try: got_scan = rows_of(real_where(t_scan, step)); raised_scan = None
                        except Exception as e: raised_scan = e
                        if raised or raised_scan:
                            e = raised or raised_scan
                            viol.append((f"where/{feat['sig']}/unspecified-cell/mode=raise:{type(e).__name__}/in={'indexed' if raised and feat['indexed'] else 'scan'}",
                                         f"where raised {type(e).__name__}: {e} on {step}")); return viol
                        if not same(got, got_scan):
                            viol.append((f"where/{feat['sig']}/unspecified-cell/mode=indexed!=scan", f"{step}: indexed {got} vs scan {got_scan}")); return viol
                        pos_ = {c: i for i, c in enumerate(cols)}
                        def specified(r): return all(model_pred(c["op"], c["arg"], r[pos_[c["col"]]]) is not None for c in step["conds"])
                        if not same([r for r in got if specified(r)], [r for r in exp if specified(r)]):
                            viol.append((f"where/{feat['sig']}/unspecified-cell/mode=wrong-rows-among-specified", f"{step}: got {got[:8]} model {exp[:8]}")); return viol
                        cur_rows, cur_t = got, res
                        continue
                    if raised is not None:
                        viol.append((f"where/{feat['sig']}/mode=raise:{type(raised).__name__}", f"where raised {type(raised).__name__}: {raised}; step={step} indexes={indexes} nrows={len(cur_rows)}")); return viol
                    if not same(got, exp):
                        cg, ce = Counter(map(_crow, got)), Counter(map(_crow, exp))
                        if cg == ce: mode = "order"
                        elif set(cg) == set(ce) and all(cg[k] >= ce[k] for k in ce): mode = "dup-rows"
                        else: mode = "wrong-rows"
                        viol.append((f"where/{feat['sig']}/mode={mode}", f"step={step} indexes={indexes} got {len(got)} rows, scan model {len(exp)} rows; got={got[:6]} exp={exp[:6]}")); return viol
                    cur_rows, cur_t = exp, res
            # after every step the table must equal the model
            if kind in ("init", "insert", "index", "copy") and fresh:
                got = rows_of(table)
                if tuple(table.columns) != tuple(cols) or not same(got, rows):
                    viol.append((f"{kind}/table!=model/form={op.get('form')}", f"after {kind} table has columns {table.columns} rows {got[:5]}..., model {cols} {rows[:5]}")); return viol
        except ContractBroken as e:
            viol.append((f"contract/{kind}", f"{e}")); return viol
        except Exception as e:
            viol.append((f"{kind}/form={op.get('form')}/mode=raise:{type(e).__name__}", f"{kind} raised {type(e).__name__}: {e}; op={op}")); return viol
    return viol

def _ckey(k): return tuple(_ccell(v) for v in k)

def _lex_gt(a, b):
    """a > b lexicographically using the cells' own ordering (Missing is greater than everything)"""
    for x, y in zip(a, b):
        if x == y or (x is y): continue
        try: return bool(x > y)
        except TypeError: return False
    return False

def _features(step, cols, indexes, rows, depth, kinds, Missing):
    if step["form"] == "rowpred":
        return {"indexed": False, "sig": "form=rowpred", "sigkey": ("rowpred", depth > 1, bool(rows))}
    conds = step["conds"]
    ops   = sorted({c["op"] for c in conds})
    idx   = any(c["col"] in indexes and c["op"] != "match" and step["form"] != "callable" for c in conds)
    pos   = {c: i for i, c in enumerate(cols)}
    miss  = any(any(r[pos[c["col"]]] is Missing for r in rows) for c in conds)
    nonearg = any(c["arg"] is None for c in conds)
    dup   = any(isinstance(c["arg"], list) and len(set(map(repr, c["arg"]))) < len(c["arg"]) for c in conds)
    empty = not rows
    mixedops = len(ops) > 1
    strin = any(isinstance(c["arg"], str) and c["op"] in ("in", "!in") for c in conds)
    flags = [n for n, on in (("missing-cells", miss), ("none-arg", nonearg), ("dup-arg", dup), ("str-arg-of-in", strin), ("empty-table", empty),
                             ("multi-kw", len(conds) > 1), ("on-view", depth > 1)) if on]
    # mechanism-level signature: operator(s), argument form class, path, and only the special features that are present
    fclass = {"positional": "comparison-arg", "keyword": "comparison-arg", "dict": "dict", "default": "default", "callable": "callable", "mixed": "mixed-dict-and-plain"}[step["form"]]
    sig = f"op={'+'.join(ops)}/form={fclass}/path={'indexed' if idx else 'scan'}" + "".join(f"/{f}" for f in flags)
    ck = tuple(sorted(kinds[c["col"]] for c in conds))
    return {"indexed": idx, "sig": sig, "sigkey": (tuple(ops), step["form"], idx, len(conds), miss, nonearg, dup, depth > 1, ck) + (("str-in",) if strin else ())}

# ------------------------------------------------------------------------------------------ entry points
def _repo_tests_under_contracts(ctx):
    """coba's own Table/Result tests with the contracts on (thorough tier, shard 0)"""
    import subprocess, sys, os, json, tempfile
    from vf.core import REPO
    out = tempfile.mktemp(prefix="vf-c17-pytest-", suffix=".json")
    env = dict(os.environ, VF_C17_COUNTERS=out)
    r = subprocess.run([sys.executable, "-m", "pytest", "-q", "-p", "no:cacheprovider", "-p", "vf.c17_pytest", "--timeout=600",
                        os.path.join(REPO, "coba/tests/test_results_core.py"), os.path.join(REPO, "coba/tests/test_environments_result.py")],
                       cwd=REPO, env=env, capture_output=True, text=True)
    try:
        d = json.load(open(out)); os.remove(out)
    except Exception:
        ctx.note_inconclusive(f"repo-tests-under-contracts produced no counters: {r.stdout[-300:]}"); return
    ctx.count("repo-tests.contract.index.rows_preserved", d["counters"].get("contract.index.rows_preserved", 0))
    ctx.count("repo-tests.contract.insert.columns_equal_length", d["counters"].get("contract.insert.columns_equal_length", 0))
    if "ContractBroken" in r.stdout:
        ctx.violation("contract-broken-under-repo-tests", r.stdout[-1500:], {"part": "repo-tests"})
    ctx.extra["repo_tests_under_contracts"] = r.stdout.strip().splitlines()[-1] if r.stdout.strip() else ""

def run_shard(ctx):
    _install_contracts()
    if ctx.tier == "thorough" and ctx.shard == 0: _repo_tests_under_contracts(ctx)
    i = 0
    while i < ctx.n and ctx.time_left() > 0:
        spec = gen_case(ctx.rng)
        v = check_case(spec, ctx)
        if i < 2: ctx.sample({"history": spec["ops"][:4], "kinds": spec["kinds"]})
        for sig, what in v:
            ctx.violation(sig, what, spec)
        i += 1
    ctx.count("histories", i)
    for k, n in _CNT.items(): ctx.count(k, n)
    if i < ctx.n: ctx.extra["histories_skipped_for_time"] = ctx.n - i

def replay(witness):
    return check_case(witness)
