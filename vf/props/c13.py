"""C13 -- Lazy row views are indistinguishable from the eager table they describe.

Reference-model checker.  A generated table (dense lists / sparse dicts / ARFF-style lazy rows) is pushed through a
generated pipeline of the real HeadRows / EncodeRows / DropRows / LabelRows / EncodeCatRows filters and, in parallel,
through an *eager model* that applies the same operations to plain lists and dicts (vf/rows_c13.py).  An access
script (row[i], row[name], list(row), dict(row.items()), len(row), row == other, row.feats, row.label, with keys
taken from the eager model only) is replayed on every surviving lazy row and on the model; then the pipeline is
built a second time and the same accesses are replayed in a shuffled (row, access) order to check that no access
changes what another access returns.  Violations are delta-debugged (stages removed, source simplified) so that the
signature names the smallest stage chain that still shows the same failure.

The filters are reusable objects: in a share of the cases the SAME stage objects also process a *prior table* of a
different layout (columns moved, header names changed, wider / narrower, other column types, another row class, dense
lists <-> dicts keyed 0..n-1) completely before, set up before and consumed after, or after the judged table is read,
and/or the second build re-reads the judged table through the first build's objects.  The prior table is derived from
the judged source column-wise and is used only when the eager model accepts the whole stage chain on it; the judged
table's rows must still equal the eager model (`reuse.differs.*` counts per stage kind how often the two tables make
the filter object resolve something different: width, position of a name, key of a position, categorical columns).

Header maps need not name every column (HeadRows with a Mapping/Sequence naming a subset, a CSV header line shorter
than its data lines), and on sparse rows keyed by header name (sparse ARFF, dicts + HeadRows) the label may be given
by position through any stack of views; `domain_features` counts how often those shapes reach each kind of stage.

LabelRows may stand anywhere in the chain: feats/label are read behind the stages that follow it (header assignment,
encoding, column drops act on rows that already are labelled) and must be the parts of the row as it is then -- the
label is the column it was given as, feats the remaining columns -- until a stage drops the label column or
EncodeCatRows rebuilds the rows (`domain.label-then.*`, `oracle.*.part-behind-later-stage`).
"""
import random
from vf import rows_c13 as M
from vf.rows_c13 import Invalid

ID    = "C13"
LEVEL = "exploration"
RULE  = ("seeded (table, pipeline, access script) triples: table in {dense list/tuple, LazyDense with/without loader, "
         "ARFF dense via LazyDense or ArffReader text, CSV text whose header line may be shorter than its data lines, "
         "sparse dict with int/str keys, LazySparse, ARFF sparse} "
         "(in ~1/3 of the ARFF tables some tokens look like a missing marker -- an empty field, '' / '?' as a declared nominal level or under an "
         "encoder that accepts every string -- and are a missing value or an ordinary value depending on the column's type); pipeline "
         "of 0-6 stages from HeadRows(seq/map/permuted map/map or sequence naming only some columns), EncodeRows(seq/map "
         "by index/name), DropRows(cols by index/name, row predicates), LabelRows(index/name; on sparse rows keyed by "
         "header name also by position through any stack of views; at any place of the chain, so that later stages act on labelled rows and "
         "feats/label are read behind them), EncodeCatRows(onehot/onehot_tuple/string); 10-24 accesses "
         "per row replayed in two orders on two builds; in ~30% of the cases with stages the same filter objects also process "
         "a prior table derived from the judged one (columns moved / renamed / added / removed / re-typed, other rows, other "
         "row class, or the other layout) before / around / after reading the judged table, in ~15% the second build re-reads "
         "through the first build's filter objects. A case is distinct by (layout, source kind, stage "
         "chain with variants, label-parts-checked?, sharing history with the kinds of difference); non-trivial = at least one surviving row with at least one column "
         "behind at least one lazy wrapper")
PLAN  = {"quick":    {"shards": 16, "cases": 144000,  "timeout": 600,  "budget_s": 80},
         "thorough": {"shards": 16, "cases": 6400000, "timeout": 3000, "budget_s": 800}}
REQUIRED = ["oracle.dense.pos", "oracle.dense.name", "oracle.dense.iter", "oracle.dense.len", "oracle.dense.eq",
            "oracle.dense.neq", "oracle.dense.eqrow", "oracle.dense.f_iter", "oracle.dense.f_len", "oracle.dense.f_pos",
            "oracle.dense.f_eq", "oracle.dense.label",
            "oracle.sparse.key", "oracle.sparse.iter", "oracle.sparse.items", "oracle.sparse.len", "oracle.sparse.eq",
            "oracle.sparse.neq", "oracle.sparse.eqrow", "oracle.sparse.f_items", "oracle.sparse.f_key",
            "oracle.sparse.f_len", "oracle.sparse.f_iter", "oracle.sparse.f_eq", "oracle.sparse.label",
            "oracle.order-independence", "oracle.rowpred", "stage.head", "stage.encode", "stage.drop", "stage.label",
            "stage.cat", "source.arff_lazy", "source.arff_text", "source.lazy_loader", "source.csv_text",
            "domain.partial-headers.source", "domain.partial-headers.head", "domain.partial-headers.encode-map",
            "domain.partial-headers.encode-seq", "domain.partial-headers.dropcols", "domain.partial-headers.label",
            "domain.sparse-headers.label-by-pos", "domain.sparse-headers.view.label-by-pos",
            "reuse.prior", "reuse.prior-read", "reuse.when.before", "reuse.when.pending", "reuse.when.after", "reuse.reread",
            "reuse.prior.cols-moved", "reuse.prior.names-changed", "reuse.prior.wider", "reuse.prior.narrower",
            "reuse.prior.types-changed", "reuse.prior.other-source", "reuse.prior.cross-layout",
            "reuse.differs.head", "reuse.differs.encode", "reuse.differs.drop", "reuse.differs.label", "reuse.differs.cat",
            "reuse.differs.label.dense-by-name", "reuse.differs.label.sparse-by-pos",
            "domain.marker-token.value.str", "domain.marker-token.value.nom", "domain.marker-token.value.x",
            "domain.marker-token.missing.num-empty", "domain.marker-token.value@arff_text", "domain.marker-token.value@arff_lazy",
            "domain.marker-token.value@dense", "domain.marker-token.value@sparse",
            "oracle.dense.marker-token-is-a-value.pos", "oracle.dense.marker-token-is-a-value.name",
            "oracle.dense.marker-token-is-a-value.part", "oracle.sparse.marker-token-is-a-value.key",
            "oracle.sparse.marker-token-is-a-value.part",
            "domain.label-then.dense.head", "domain.label-then.dense.encode", "domain.label-then.dense.dropcols",
            "domain.label-then.sparse.head", "domain.label-then.sparse.encode", "domain.label-then.sparse.dropcols",
            "oracle.dense.part-behind-later-stage", "oracle.sparse.part-behind-later-stage"]
ASSUMPTIONS = [
    "only keys that exist in the eager model are accessed: positions 0..len-1, header names that survive, sparse keys present in the model row; negative positions, dropped names and out-of-range positions are never used",
    "feats/label are checked behind every stage that follows LabelRows (header assignment, encoding, column and row drops: the label stays the column it was given as, feats are the other columns of the row as it is now) for as long as the label column survives; what they mean after a stage dropped the label column or after EncodeCatRows rebuilt the rows is not asserted; feats is compared by iteration, length, position/key access and equality, never by header name on dense rows",
    "dense header maps give at most one unique string name per column and only name positions that exist (they need not name every column; names of unnamed/dropped columns are never used); sparse header maps cover every key of the table; Sequence encoders have exactly one encoder per column",
    "on sparse rows keyed by header name an integer label means the column the (outermost) header map places at that position (ARFF attribute index / the integer key under HeadRows); positions are not renumbered by sparse column drops; it is only used while that column survives, and never after a second header map renamed names to names or after EncodeCatRows rebuilt the rows",
    "CSV text is generated in the plainest dialect (no quotes, no embedded separators, no blank lines); dialect questions belong to C12",
    "encoders never raise on the cells they are applied to; on sparse rows an encoder is only used on a column with absent entries when coba's documented default-zero rule (absent == encoder('0') when that is non-zero, else stays absent) agrees with encoding the column's own implicit zero",
    "EncodeCatRows is only applied when every categorical column holds a Categorical in every surviving row (no missing cells); what feats/label/headers mean after it is not asserted (its output rows are plain lists/dicts)",
    "numbers are compared with == (0 vs 0.0 equal), Categorical vs str and None vs anything are distinguished; list vs tuple is not",
    "ARFF text is generated in the plainest dialect (no comments, no quotes in data lines; the only quoted thing is the empty level '' in a nominal attribute's level list); dialect questions belong to C12",
    "a raw ARFF token '' or '?' is a missing value (None) only where the column's type has no value for it: numeric columns (both), string columns ('?' only; '' is the empty string), nominal columns unless it is a declared level; under a custom encoder such a token is only generated when the encoder returns a value for it, and that value is the cell; in ARFF text only empty fields of dense lines with at least two columns are used, a declared '?' level only on directly constructed LazyDense/LazySparse rows (whose missing flag is 'some token is ?' by construction)",
    "a prior table is given to the shared filter objects only when the eager model accepts every stage of the chain on it (each stage is a legal use there) and at least one of its rows reaches the end; what the pipeline yields for the prior table is not judged in that case (every such table is a case of its own), only the judged table's rows are",
]

DENSE_KINDS  = ["pos", "pos", "pos", "name", "name", "iter", "len", "eq", "neq", "eqrow",
                "f_iter", "f_len", "f_pos", "f_pos", "f_eq", "label", "label"]
SPARSE_KINDS = ["key", "key", "key", "iter", "items", "items", "len", "eq", "neq", "eqrow",
                "f_items", "f_iter", "f_len", "f_key", "f_key", "f_eq", "label", "label"]

# ------------------------------------------------------------------------------------------ generation
NAMES = ["a", "b", "c", "d", "e", "f", "g", "h", "A", "x1", "y", "lbl", "k_0", "n0", "w"]

def _gen_cell(rng, kind):
    if kind == "istr":  return rng.choice(["0", "1", "2", "7", "10", "-3"])
    if kind == "fstr":  return rng.choice(["0", "1.5", "2.25", "-0.5", "3", "0.0"])
    if kind == "int":   return rng.choice([0, 1, 2, 3, 5, -1])
    if kind == "float": return rng.choice([0.0, 0.5, 1.0, -2.5, 3.25])
    if kind == "word":  return rng.choice(["a", "b", "ab", "", "x y", "0", "z"])
    if kind == "cword": return rng.choice(["a", "b", "ab", "", "x y", "0", " z", "k;"])
    if kind == "cat":   return {"cat": [rng.choice(["a", "b", "c"]), ["a", "b", "c"]]}
    if kind == "cat2":  return {"cat": [rng.choice(["u", "v"]), ["u", "v"]]}
    raise ValueError(kind)

_TOTAL_ENCS = ("x:str", "x:id", "x:dbl", "x:bang")            # custom encoders that have an answer for every string

def _gen_tok(rng, typ, miss_p, empty_p=0):
    """one raw ARFF token.  With empty_p the token may look like a missing marker where only the column's type says
    whether it is one: an empty field (missing in a numeric column, the ordinary value '' in a string column), '' / '?'
    under an encoder that accepts every string; a nominal column that declares '' or '?' as a level uses it like any other"""
    if typ.startswith("x:"):
        if typ in _TOTAL_ENCS and rng.random() < empty_p: return rng.choice(["", "", "?"])
        return rng.choice(["0", "1", "2", "10", "-3"])
    if rng.random() < miss_p: return "?"
    if typ == "numeric": return "" if rng.random() < empty_p / 2 else rng.choice(["0", "1", "2.5", "-3", "10", "0.25"])
    if typ == "string":  return "" if rng.random() < empty_p else rng.choice(["a", "bb", "w1", "zz", "0"])
    levels = [M._unquote(l) for l in typ[1:-1].split(",")]
    return rng.choice(levels)

def gen_source(rng, layout):
    nrows = rng.choice([1, 2, 2, 3, 3, 4, 5])
    r = rng.random()
    if r < .38:                                              # ARFF-style lazy rows
        ncols = rng.choice([1, 2, 3, 3, 4, 5, 6, 8])
        names = rng.sample(NAMES, ncols)
        kind = rng.choice(["arff_lazy", "arff_lazy", "arff_text"])
        pool = ["numeric", "numeric", "string", "{a,b,c}", "{u,v}", "real", "integer"]
        # tokens that look like a missing marker but are ordinary values of their column: empty fields, a declared '' / '?' level
        # (text: only what the plain dialect can write, i.e. an empty field of a dense line with at least two columns)
        empty_p = rng.choice([0, 0, .25]) if kind == "arff_lazy" or (layout == "dense" and ncols > 1) else 0
        if empty_p: pool = pool + ["string", "{'',a,b}"] + (["{'?',u,v}"] if kind == "arff_lazy" else [])
        types = [rng.choice(pool) for _ in range(ncols)]
        miss_p = rng.choice([0, 0, .15])
        if kind == "arff_text" and layout == "dense" and ncols == 1: miss_p = 0   # a lone '?' line: the reader's missing flag is C12's business
        if kind == "arff_lazy" and rng.random() < .5:        # LazyDense/LazySparse driven with arbitrary (non-idempotent) encoders
            types = [rng.choice(["x:int", "x:float", "x:str", "x:id", "x:dbl", "x:bang"]) if rng.random() < .6 else t for t in types]
        src = {"kind": kind, "attrs": [[n, t] for n, t in zip(names, types)], "loader": rng.random() < .7}
        norm = lambda t: "numeric" if t in ("real", "integer") else t
        if layout == "dense":
            src["rows"] = [[_gen_tok(rng, norm(t), miss_p, empty_p) for t in types] for _ in range(nrows)]
        else:
            p = rng.choice([.3, .6, .9])
            src["rows"] = [[[i, _gen_tok(rng, norm(t), miss_p, empty_p)] for i, t in enumerate(types) if rng.random() < p] for _ in range(nrows)]
        return src
    if layout == "dense" and r < .47:                        # CSV text; the header line may be shorter than the data lines
        ncols = rng.choice([1, 2, 3, 3, 4, 5, 6])
        kinds = [rng.choice(["istr", "fstr", "cword"]) for _ in range(ncols)]
        rows = [[_gen_cell(rng, k) for k in kinds] for _ in range(nrows)]
        if ncols == 1: rows = [[c or "q"] for (c,) in rows]
        hdr = None
        if rng.random() < .85:
            nh = ncols if rng.random() < .4 else rng.randint(1, ncols)
            hdr = rng.sample(NAMES, nh)
        return {"kind": "csv_text", "header": hdr, "rows": rows}
    ncols = rng.choice([1, 2, 2, 3, 3, 4, 5, 6, 8])
    kinds = [rng.choice(["istr", "istr", "fstr", "int", "int", "float", "word", "cat", "cat2"]) for _ in range(ncols)]
    if layout == "dense":
        none_p = rng.choice([0, 0, 0, .15])
        rows = [[(None if (k in ("int", "word") and rng.random() < none_p) else _gen_cell(rng, k)) for k in kinds] for _ in range(nrows)]
        return {"kind": rng.choice(["list", "list", "tuple", "lazy", "lazy_loader"]), "rows": rows}
    strkeys = rng.random() < .4
    keys = rng.sample(NAMES, ncols) if strkeys else list(range(ncols))
    p = rng.choice([.3, .6, .9, 1.0])
    zero = {"istr": "0", "fstr": "0", "word": "0", "int": 0, "float": 0, "cat": "0", "cat2": "0"}
    rows = [[[k, _gen_cell(rng, kd)] for k, kd in zip(keys, kinds) if rng.random() < p] for _ in range(nrows)]
    return {"kind": rng.choice(["dict", "dict", "lazy", "lazy_loader"]), "cols": [[k, zero[kd]] for k, kd in zip(keys, kinds)], "rows": rows}

ENC_POOL = ["int", "float", "str", "id", "neg", "inc", "dbl", "bang", "nom:a|b|c", "nom:0|1|2|7|10|-3"]

def _valid_encs(rng, st, col):
    """encoder names that the model accepts on that column (dense: position, sparse: key)"""
    out = []
    for name in ENC_POOL:
        if M.enc_ok(st, col, name): out.append(name)
    return out

def gen_stage(rng, st, want=None):
    """proposes one stage for the model state st (may still be rejected by the model)"""
    dense = st.layout == "dense"
    cols = list(range(st.ncols())) if dense else list(st.universe)
    kind = want or rng.choice(["head", "encode", "encode", "drop", "drop", "drop", "label", "cat"])
    if kind == "head":
        if not cols: return None
        names = rng.sample(NAMES, len(cols)) if len(cols) <= len(NAMES) else None
        if names is None: return None
        if rng.random() < .3: names = [n + str(rng.randint(2, 3)) for n in names]
        if dense:
            form = rng.choice(["seq", "seq", "map", "perm", "pmap", "pmap", "short"])
            if form in ("pmap", "short") and len(cols) < 2: form = "seq"
            if form == "pmap":                               # a Mapping naming only some columns, in any order
                poss = rng.sample(cols, rng.randint(1, len(cols) - 1))
                return {"k": "head", "form": "pmap", "map": [[n, p] for n, p in zip(names, poss)]}
            if form == "short":                              # fewer names than columns: the trailing columns have no name
                return {"k": "head", "form": "seq", "names": names[:rng.randint(1, len(cols) - 1)], "partial": True}
            s = {"k": "head", "form": form, "names": names}
            if form == "perm":
                order = list(range(len(names))); rng.shuffle(order); s["order"] = order
            return s
        ints = all(isinstance(k, int) for k in cols) and sorted(cols) == list(range(len(cols)))
        if ints and rng.random() < .4:
            return {"k": "head", "form": "seq", "names": names}
        pairs = [[n, k] for n, k in zip(names, cols)]
        rng.shuffle(pairs)
        return {"k": "head", "form": "map", "map": pairs}
    if kind == "encode":
        if not cols: return None
        if dense:
            if rng.random() < .5:
                encs = []
                for c in cols:
                    v = _valid_encs(rng, st, c)
                    if not v: return None
                    encs.append(rng.choice(v))
                return {"k": "encode", "form": "seq", "encs": encs}
            items = []
            for c in cols:
                if rng.random() < .6:
                    v = _valid_encs(rng, st, c)
                    if not v: continue
                    nm = st.name_or_none(c)
                    byname = nm is not None and rng.random() < .6
                    items.append([nm if byname else c, rng.choice(v)])
            rng.shuffle(items)
            return {"k": "encode", "form": "map", "items": items}
        ints = all(isinstance(k, int) for k in cols) and sorted(cols) == list(range(len(cols)))
        if ints and rng.random() < .3:
            encs = []
            for c in sorted(cols):
                v = _valid_encs(rng, st, c)
                if not v: return None
                encs.append(rng.choice(v))
            return {"k": "encode", "form": "seq", "encs": encs}
        items = []
        for c in cols:
            if rng.random() < .6:
                v = _valid_encs(rng, st, c)
                if v: items.append([c, rng.choice(v)])
        rng.shuffle(items)
        return {"k": "encode", "form": "map", "items": items}
    if kind == "drop":
        ndrop = rng.choice([0, 1, 1, 1, 2, 2, 3]) if cols else 0
        ndrop = min(ndrop, len(cols))
        picked = rng.sample(cols, ndrop)
        dc = []
        for c in picked:
            nm = st.name_or_none(c) if dense else None
            if nm is not None and rng.random() < .5: dc.append(nm)
            else: dc.append(c)
        if rng.random() < .08: dc.append(rng.choice(["nope", 97]))              # a column that does not exist: no-op
        pred = None
        if rng.random() < (.3 if ndrop else .9):
            pred = gen_pred(rng, st)
        if not dc and pred is None: return None
        return {"k": "drop", "cols": dc, "pred": pred}
    if kind == "label":
        if not cols or st.label is not None: return None
        c = rng.choice(cols)
        if dense:
            nm = st.name_or_none(c)
            if nm is not None and rng.random() < .6: c = nm
        elif st.posmap and rng.random() < .5:                # rows keyed by header name, label given by position
            pos = [p for p, n in st.posmap.items() if n == c]
            if pos: return {"k": "label", "key": pos[0], "via": "pos", "tipe": rng.choice(["c", "r", "m", None])}
        return {"k": "label", "key": c, "tipe": rng.choice(["c", "r", "m", None])}
    if kind == "cat":
        if not st.has_cats(): return None
        return {"k": "cat", "tipe": rng.choice(["onehot", "onehot", "onehot_tuple", "string", None])}
    return None

def gen_pred(rng, st):
    dense = st.layout == "dense"
    rows = st.alive_rows()
    if st.arff_fresh and rng.random() < .5:
        return {"p": "missing"}
    if not rows: return None
    row = rng.choice(rows)
    if dense:
        if not row: return None
        r = rng.random()
        i = rng.randrange(len(row))
        if r < .5:  return {"p": "eq", "key": i, "val": M.to_spec(row[i])}
        if r < .75 and st.name_or_none(i) is not None: return {"p": "eq", "key": st.name_of(i), "val": M.to_spec(row[i])}
        if r < .9:  return {"p": "has", "val": M.to_spec(row[i])}
        return {"p": "lenodd"}
    common = [k for k in st.universe if all(k in r for r in rows)]
    r = rng.random()
    if common and r < .6:
        k = rng.choice(common)
        return {"p": "eq", "key": k, "val": M.to_spec(row[k])}
    if r < .85: return {"p": "lenodd"}
    k = rng.choice(list(st.universe)) if st.universe else None
    return None if k is None else {"p": "haskey", "key": k}

# ---- prior tables: another table, of a different layout, that the SAME filter objects process before / while / after the
# judged one.  It is derived from the judged source column-wise (so that stages naming columns stay legal on it) and is
# only used when the eager model accepts the whole stage chain on it and leaves at least one row.
REUSE_OPS = ["cols-moved", "cols-moved", "names-changed", "names-changed", "wider", "narrower", "types-changed",
             "other-source", "cross-layout"]
_ZERO = {"istr": "0", "fstr": "0", "word": "0", "int": 0, "float": 0, "cat": "0", "cat2": "0"}

def _norm_t(t): return "numeric" if t in ("real", "integer") else t

def _family(layout, src):
    k = src["kind"]
    return "arff" if k.startswith("arff") else "csv" if k == "csv_text" else "plain" if layout == "dense" else "dict"

def _cols_of(layout, src):
    """the source as a list of columns {name|key, type|zero, cells: {row index: cell}}"""
    kind, rows = src["kind"], src["rows"]
    n = len(rows)
    if kind.startswith("arff"):
        cols = [{"name": a[0], "type": a[1], "cells": {}} for a in src["attrs"]]
        for r, row in enumerate(rows):
            for i, t in (enumerate(row) if layout == "dense" else row): cols[i]["cells"][r] = t
        return cols, n
    if layout == "dense":
        hdr = src.get("header") if kind == "csv_text" else None
        return [{"name": hdr[i] if hdr is not None and i < len(hdr) else None, "cells": {r: rows[r][i] for r in range(n)}}
                for i in range(len(rows[0]))], n
    cols = [{"key": k, "zero": z, "cells": {}} for k, z in src["cols"]]
    idx = {c["key"]: c for c in cols}
    for r, pairs in enumerate(rows):
        for k, v in pairs: idx[k]["cells"][r] = v
    return cols, n

def _fill_col(rng, fam, col, rows):
    """(re)generates the type and the cells of one column for the given row indices; keeps its name/key"""
    if fam == "arff":
        t = rng.choice(["numeric", "string", "{a,b,c}", "{u,v}", "integer", "{'',a,b}"])
        col["type"] = t; col["cells"] = {r: _gen_tok(rng, _norm_t(t), 0, .2) for r in rows}
    elif fam == "csv":
        k = rng.choice(["istr", "fstr", "cword"]); col["cells"] = {r: _gen_cell(rng, k) for r in rows}
    else:
        k = rng.choice(["istr", "fstr", "int", "float", "word", "cat", "cat2"])
        col["zero"] = _ZERO[k]; col["cells"] = {r: _gen_cell(rng, k) for r in rows}
    return col

def _fresh_names(rng, cols, k):
    used = {c.get("name") for c in cols} | {c.get("key") for c in cols}
    return rng.sample([n for n in NAMES + [n + "9" for n in NAMES] if n not in used], k)

def vary_source(rng, layout, src, ops):
    """-> (layout', source', ops applied) : the judged source with its columns moved / renamed / added / removed /
    re-typed, other rows, possibly another row class or the other layout (dense lists <-> dicts keyed 0..n-1)"""
    fam, kind = _family(layout, src), src["kind"]
    dense = layout == "dense"
    cols, n = _cols_of(layout, src)
    loader = src.get("loader", True)
    tags = []
    for op in sorted(set(ops), key=lambda o: o == "cross-layout"):       # the layout switch comes last
        if op == "cols-moved":
            if len(cols) < 2: continue
            if fam == "csv":                                 # the names of a CSV header line are a prefix of the columns
                a = [c for c in cols if c["name"] is not None]; b = [c for c in cols if c["name"] is None]
                rng.shuffle(a); rng.shuffle(b); new = a + b
            else:
                new = cols[:]; rng.shuffle(new)
            if all(x is y for x, y in zip(new, cols)): continue
            if fam == "dict": new = [dict(c, key=o["key"]) for c, o in zip(new, cols)]     # the data moves under other keys
            cols = new
        elif op == "names-changed":
            named = [c for c in cols if isinstance(c.get("name", c.get("key")), str)]
            if not named: continue
            pick = rng.sample(named, rng.randint(1, len(named)))
            for c, nn in zip(pick, _fresh_names(rng, cols, len(pick))):
                c["key" if fam == "dict" else "name"] = nn
        elif op == "wider":
            if len(cols) >= 9: continue
            rows = [r for r in range(n) if dense or rng.random() < .6]
            if fam == "dict":
                ints = all(isinstance(c["key"], int) for c in cols)
                key = max([c["key"] for c in cols], default=-1) + 1 if ints else _fresh_names(rng, cols, 1)[0]
                cols.append(_fill_col(rng, fam, {"key": key}, rows))
            else:
                name = _fresh_names(rng, cols, 1)[0] if fam == "arff" or (fam == "csv" and all(c["name"] is not None for c in cols) and src.get("header") is not None) else None
                lo = sum(c["name"] is not None for c in cols) if fam == "csv" and name is None else 0
                cols.insert(rng.randint(lo, len(cols)), _fill_col(rng, fam, {"name": name}, rows))
        elif op == "narrower":
            if len(cols) < 2: continue
            cols.pop(rng.randrange(len(cols)))
        elif op == "types-changed":
            if not cols: continue
            c = rng.choice(cols); _fill_col(rng, fam, c, sorted(c["cells"]))
        elif op == "other-source":
            if fam == "csv": continue
            if fam == "arff":
                if any(c["type"].startswith("x:") for c in cols): loader = not loader
                else: kind = "arff_text" if kind == "arff_lazy" else "arff_lazy"
            else:
                kind = rng.choice([k for k in (["list", "tuple", "lazy", "lazy_loader"] if dense else ["dict", "lazy", "lazy_loader"]) if k != kind])
        elif op == "cross-layout":
            if fam == "plain":
                p = rng.choice([.6, .9, 1.0])
                cols = [{"key": i, "zero": "0" if isinstance(next(iter(c["cells"].values()), 0), (str, dict)) else 0,
                         "cells": {r: v for r, v in c["cells"].items() if v is not None and rng.random() < p}} for i, c in enumerate(cols)]
                fam, dense, layout, kind = "dict", False, "sparse", rng.choice(["dict", "lazy", "lazy_loader"])
            elif fam == "dict" and sorted(c["key"] for c in cols if isinstance(c["key"], int)) == list(range(len(cols))):
                cols = [{"name": None, "cells": {r: c["cells"].get(r, c["zero"]) for r in range(n)}} for c in sorted(cols, key=lambda c: c["key"])]
                fam, dense, layout, kind = "plain", True, "dense", rng.choice(["list", "tuple", "lazy", "lazy_loader"])
            else: continue
        else: raise ValueError(op)
        tags.append(op)
    sel = list(range(n)) if rng.random() < .5 else [rng.randrange(n) for _ in range(rng.choice([1, 2, 2, 3, 4]))]
    if fam == "arff":
        out = {"kind": kind, "attrs": [[c["name"], c["type"]] for c in cols], "loader": loader}
        if dense: out["rows"] = [[c["cells"][r] for c in cols] for r in sel]
        else: out["rows"] = [[[i, c["cells"][r]] for i, c in enumerate(cols) if r in c["cells"]] for r in sel]
    elif fam == "csv":
        out = {"kind": kind, "header": None if src.get("header") is None else [c["name"] for c in cols if c["name"] is not None],
               "rows": [[c["cells"][r] for c in cols] for r in sel]}
    elif fam == "plain":
        out = {"kind": kind, "rows": [[c["cells"][r] for c in cols] for r in sel]}
    else:
        out = {"kind": kind, "cols": [[c["key"], c["zero"]] for c in cols],
               "rows": [[[c["key"], c["cells"][r]] for c in cols if r in c["cells"]] for r in sel]}
    return layout, out, tags

def prior_ok(prior, stages):
    """every stage is legal on the prior table (the eager model accepts the chain) and at least one row reaches the end"""
    try: st = M.run_model({"layout": prior["layout"], "source": prior["source"], "stages": stages})
    except Exception: return False                          # Invalid, or a stage spec that has no meaning in the other layout
    return bool(st.rows)

def gen_prior(rng, layout, src, stages, ops=None, attempts=8):
    for _ in range(attempts):
        pl, psrc, tags = vary_source(rng, layout, src, ops or rng.sample(REUSE_OPS, rng.choice([1, 1, 2, 2, 3])))
        if not tags: continue
        prior = {"layout": pl, "source": psrc, "tags": sorted(tags), "when": rng.choice(["before", "before", "pending", "after"])}
        if prior_ok(prior, stages): return prior
    return None

def gen_case(rng):
    layout = "dense" if rng.random() < .5 else "sparse"
    for _ in range(20):
        src = gen_source(rng, layout)
        try: st = M.model_source(layout, src); break
        except Invalid: continue
    else:
        raise RuntimeError("cannot generate a valid source")
    stages = []
    n = rng.choice([0, 1, 1, 2, 2, 3, 3, 4, 5, 6])
    for i in range(n):
        for _attempt in range(4):
            s = gen_stage(rng, st)
            if s is None: continue
            try: st2 = M.apply_stage(st.copy(), s)
            except Invalid: continue
            stages.append(s); st = st2; break
    if st.label is None and rng.random() < .55:
        s = gen_stage(rng, st, "label")
        if s is not None:
            try: st = M.apply_stage(st.copy(), s); stages.append(s)
            except Invalid: pass
    kinds = DENSE_KINDS if layout == "dense" else SPARSE_KINDS
    script = [[rng.choice(kinds), rng.randrange(1 << 16)] for _ in range(rng.randint(8, 20))]
    script += [[k, rng.randrange(1 << 16)] for k in (["iter", "len", "pos", "pos", "name"] if layout == "dense" else ["items", "iter", "len", "key", "key"])]
    rng.shuffle(script)
    spec = {"layout": layout, "source": src, "stages": stages, "script": script, "perm": rng.randrange(1 << 30)}
    if stages and rng.random() < .3:                         # the same filter objects also process another table
        prior = gen_prior(rng, layout, src, stages)
        if prior: spec["prior"] = prior
    if stages and rng.random() < .15: spec["second"] = "same" # the second build re-reads through the first build's filter objects
    return spec

# ------------------------------------------------------------------------------------------ real side
def _drain(rows):
    """consumes a pipeline the way a reader of the table would; what it yields is not judged here"""
    try:
        for row in rows:
            if hasattr(row, "items"): dict(row.items())
            else: list(row)
            if hasattr(row, "labeled"): row.labeled
        return True
    except Exception:
        return False

def build_real(spec, filters=None, ctx=None):
    """-> (rows of the judged table, the filter objects).  One filter object per stage; with spec['prior'] the same
    objects also process the prior table: completely before the judged table ('before'), with their pipeline set up
    before and consumed after the judged table was read ('pending'), or after the judged table was read but before
    its rows are accessed ('after')."""
    if filters is None: filters = [M.real_filter(spec["layout"], s) for s in spec["stages"]]
    def pipe(layout, source):
        rows = M.real_source(layout, source)
        for f in filters: rows = f.filter(rows)
        return rows
    prior = spec.get("prior")
    when = prior["when"] if prior else None
    ok = True
    if when == "before": ok = _drain(pipe(prior["layout"], prior["source"]))
    if when == "pending": pending = pipe(prior["layout"], prior["source"])
    rows = list(pipe(spec["layout"], spec["source"]))
    if when == "pending": ok = _drain(pending)
    if when == "after": ok = _drain(pipe(prior["layout"], prior["source"]))
    if ctx and prior: ctx.count("reuse.prior-read" if ok else "reuse.prior-raised")
    return rows, filters

def resolve(spec, st):
    """turns the abstract script into concrete accesses per surviving model row, with the model's answer"""
    dense = st.layout == "dense"
    rows = st.alive_rows()
    out = []
    for ri, row in enumerate(rows):
        accs = []
        feats = st.feats_of(row) if st.feats_ok else None
        for kind, r in spec["script"]:
            if dense:
                if kind == "pos":
                    if row: i = r % len(row); accs.append(("pos", i, M.canon(row[i])))
                elif kind == "name":
                    if st.headers and row:
                        names = sorted(st.headers); n = names[r % len(names)]
                        accs.append(("name", n, M.canon(row[st.headers[n]])))
                elif kind == "iter":  accs.append(("iter", None, [M.canon(v) for v in row]))
                elif kind == "len":   accs.append(("len", None, len(row)))
                elif kind == "eq":    accs.append(("eq", M.to_spec_row(row), True))
                elif kind == "neq":   accs.append(("neq", M.to_spec_row(M.mutate_dense(row, r)), False))
                elif kind == "eqrow":
                    j = r % len(rows); accs.append(("eqrow", j, bool(len(row) == len(rows[j]) and all(a == b for a, b in zip(row, rows[j])))))
                elif feats is not None:
                    if kind == "f_iter":  accs.append(("f_iter", None, [M.canon(v) for v in feats]))
                    elif kind == "f_len": accs.append(("f_len", None, len(feats)))
                    elif kind == "f_pos":
                        if feats: i = r % len(feats); accs.append(("f_pos", i, M.canon(feats[i])))
                    elif kind == "f_eq":  accs.append(("f_eq", M.to_spec_row(feats), True))
                    elif kind == "label": accs.append(("label", None, M.canon(st.label_of(row))))
            else:
                keys = sorted(row, key=repr)
                if kind == "key":
                    if keys: k = keys[r % len(keys)]; accs.append(("key", k, M.canon(row[k])))
                elif kind == "iter":  accs.append(("iter", None, sorted(M.ckey(k) for k in row)))
                elif kind == "items": accs.append(("items", None, M.canon_dict(row)))
                elif kind == "len":   accs.append(("len", None, len(row)))
                elif kind == "eq":    accs.append(("eq", M.to_spec_dict(row), True))
                elif kind == "neq":   accs.append(("neq", M.to_spec_dict(M.mutate_sparse(row, r)), False))
                elif kind == "eqrow":
                    j = r % len(rows); accs.append(("eqrow", j, bool(row == rows[j])))
                elif feats is not None:
                    fkeys = sorted(feats, key=repr)
                    if kind == "f_items":  accs.append(("f_items", None, M.canon_dict(feats)))
                    elif kind == "f_iter": accs.append(("f_iter", None, sorted(M.ckey(k) for k in feats)))
                    elif kind == "f_len":  accs.append(("f_len", None, len(feats)))
                    elif kind == "f_key":
                        if fkeys: k = fkeys[r % len(fkeys)]; accs.append(("f_key", k, M.canon(feats[k])))
                    elif kind == "f_eq":   accs.append(("f_eq", M.to_spec_dict(feats), True))
                    elif kind == "label":  accs.append(("label", None, M.canon(st.label_of(row))))
        out.append(accs)
    return out

def do_access(dense, row, acc, real_rows):
    """performs one access on the real row; returns a canonical value"""
    kind, arg = acc[0], acc[1]
    if kind in ("pos", "name", "key"): return M.canon(row[arg])
    if kind == "len":   return len(row)
    if kind == "eqrow": return bool(row == real_rows[arg])
    if kind == "label": return M.canon(row.label)
    if kind == "f_len": return len(row.feats)
    if kind in ("f_pos", "f_key"): return M.canon(row.feats[arg])
    if dense:
        if kind == "iter":   return [M.canon(v) for v in row]
        if kind in ("eq", "neq"):
            other = M.real_row_dense(arg)
            return bool(row == (tuple(other) if type(row) is tuple else other))    # a plain tuple row is not a lazy view
        if kind == "f_iter": return [M.canon(v) for v in row.feats]
        if kind == "f_eq":   return bool(row.feats == M.real_row_dense(arg))
    else:
        if kind == "iter":    return sorted(M.ckey(k) for k in row)
        if kind == "items":   return M.canon_dict(dict(row.items()))
        if kind in ("eq", "neq"): return bool(row == M.real_row_sparse(arg))
        if kind == "f_iter":  return sorted(M.ckey(k) for k in row.feats)
        if kind == "f_items": return M.canon_dict(dict(row.feats.items()))
        if kind == "f_eq":    return bool(row.feats == M.real_row_sparse(arg))
    raise ValueError(kind)

_KEYED = ("pos", "name", "key", "label", "f_pos", "f_key")      # reads of one cell (everything else goes through iteration)
_PARTS = ("label", "f_iter", "f_items", "f_len", "f_pos", "f_key", "f_eq")

def _later_stages(spec):
    """the column-changing stages that follow the label stage (they act on rows that already are labelled)"""
    ks = [s["k"] for s in spec["stages"]]
    if "label" not in ks: return []
    return [s for s in spec["stages"][ks.index("label") + 1:] if s["k"] in ("head", "encode") or (s["k"] == "drop" and s["cols"])]

def _mode(kind, got, exp):
    if kind in ("len", "f_len"): return "wrong-length"
    if kind in ("eq", "f_eq"): return "equal-rows-compare-unequal"
    if kind == "neq": return "different-rows-compare-equal"
    if kind == "eqrow": return "row-vs-row-equality-differs-from-model"
    if kind in ("iter", "f_iter", "items", "f_items"):
        if isinstance(got, list) and isinstance(exp, list) and len(got) != len(exp): return "wrong-keys" if kind != "iter" and kind != "f_iter" else "wrong-members"
        if isinstance(got, dict) and isinstance(exp, dict) and set(got) != set(exp): return "wrong-keys"
        return "wrong-value"
    return "wrong-value"

def check_core(spec, ctx=None):
    """returns list of (access kind, mode, what)"""
    out = []
    dense = spec["layout"] == "dense"
    st = M.run_model(spec)                                   # may raise Invalid (only for hand-edited / shrunk specs)
    if spec.get("prior") and not prior_ok(spec["prior"], spec["stages"]): raise Invalid("a stage is not legal on the prior table")
    plan = resolve(spec, st)
    def note(n, k=1):
        if ctx: ctx.count(n, k)
    # ---- first build: row-major order
    try:
        real, filters = build_real(spec, None, ctx)
    except Exception as e:
        return [("build", f"raise:{type(e).__name__}", f"building/iterating the pipeline raised {type(e).__name__}: {e}")]
    if any(s["k"] == "drop" and s.get("pred") for s in spec["stages"]): note("oracle.rowpred")
    if len(real) != len(plan):
        return [("rows", "wrong-row-count", f"pipeline yielded {len(real)} rows, eager model {len(plan)}")]
    first = {}
    lay = spec["layout"]
    seen = set()
    marked = ctx is not None and any(f.startswith("value.") for f in M.marker_features(lay, spec["source"]))
    behind = ctx is not None and st.feats_ok and _later_stages(spec)   # feats/label are read behind stages that follow LabelRows
    for ri, accs in enumerate(plan):
        for ai, acc in enumerate(accs):
            note(f"oracle.{lay}.{acc[0]}")
            if behind and acc[0] in _PARTS: note(f"oracle.{lay}.part-behind-later-stage")
            if marked and acc[0] in _KEYED and acc[2][0] in ("str", "cat") and acc[2][1] in ("", "?"):
                note(f"oracle.{lay}.marker-token-is-a-value." + ("part" if acc[0] in ("label", "f_pos", "f_key") else acc[0]))
            try: got = ("ok", do_access(dense, real[ri], acc, real))
            except Exception as e: got = ("raise", type(e).__name__, str(e)[:200])
            first[(ri, ai)] = got
            if got != ("ok", acc[2]):
                mode = f"raise:{got[1]}" if got[0] == "raise" else _mode(acc[0], got[1], acc[2])
                if (acc[0], mode) not in seen:
                    seen.add((acc[0], mode))
                    out.append((acc[0], mode, f"row {ri} access {acc[0]}({acc[1]!r}): lazy {got[1:]!r} != eager {acc[2]!r}; wrappers={M.chain_of(real[ri])}"))
    # ---- second, independent build: shuffled (row, access) order
    try:
        real2, _ = build_real(spec, filters if spec.get("second") == "same" else None)
    except Exception as e:
        return out + [("build", f"second-build-raise:{type(e).__name__}", f"second build raised {e}")]
    if len(real2) != len(plan):
        return out + [("rows", "second-build-row-count", f"second build yielded {len(real2)} rows, first {len(real)}")]
    order = [(ri, ai) for ri, accs in enumerate(plan) for ai in range(len(accs))]
    random.Random(spec["perm"]).shuffle(order)
    for ri, ai in order:
        acc = plan[ri][ai]
        note("oracle.order-independence")
        try: got = ("ok", do_access(dense, real2[ri], acc, real2))
        except Exception as e: got = ("raise", type(e).__name__, str(e)[:200])
        if got != first[(ri, ai)] and first[(ri, ai)] == ("ok", acc[2]):
            if (acc[0], "order-dependent") not in seen:
                seen.add((acc[0], "order-dependent"))
                out.append((acc[0], "order-dependent", f"row {ri} access {acc[0]}({acc[1]!r}) gave {first[(ri, ai)][1:]!r} in script order but {got[1:]!r} in shuffled order"))
    return out

# ------------------------------------------------------------------------------------------ localisation -> signature
# One mechanism usually breaks several access kinds of the same row (a wrong cell shows up in list(row), row[i],
# row == other, feats ...) and keeps showing behind every later stage.  To get one signature per mechanism:
#   1. every prefix of a pipeline is itself a pipeline of the quantifier, so the *shortest failing prefix* is reported
#      (its last stage is where lazy and eager first part ways);
#   2. of that prefix only the most primitive failing access is reported (whole-row views first), plus order-dependence;
#   3. the stages before the last one are replaced by their eager result as plain rows, or -- if the failure needs a
#      lazy input -- as bare LazyDense/LazySparse rows; then single stages are removed while the same failure persists.
PRIORITY = ["build", "rows", "iter", "items", "len", "pos", "name", "key", "label", "f_iter", "f_items", "f_len", "f_pos",
            "f_key", "eq", "f_eq", "neq", "eqrow"]

def _pick(res):
    plain = sorted((r for r in res if r[1] != "order-dependent"), key=lambda r: PRIORITY.index(r[0]))[:1]
    return plain + [r for r in res if r[1] == "order-dependent"][:1]

def _fails(spec, kind, mode):
    try: res = check_core(spec)
    except Exception: return False                         # Invalid (outside the domain) or a broken candidate
    return any(k == kind and m == mode for k, m, _ in res)

def shrink(spec, kind, mode, budget=60):
    spec = dict(spec, stages=list(spec["stages"]))
    done = False
    for i in range(len(spec["stages"]), -1, -1):             # longest eager prefix first; i == 0 only simplifies the source
        for lazy in (False, True):
            if i == 0 and (spec["source"]["kind"] in ("list", "dict") or (lazy and spec["source"]["kind"] == "lazy")): continue
            try: cand = M.materialise_prefix(spec, i, lazy)
            except Invalid: continue
            budget -= 1
            if _fails(cand, kind, mode):
                spec = cand; done = True; break
        if done or budget <= 0: break
    try: plainer = M.demarked(spec["layout"], spec["source"])   # does it need a '' / '?' token that is an ordinary value of its column?
    except Invalid: plainer = None
    if plainer is not None and _fails(dict(spec, source=plainer), kind, mode): spec = dict(spec, source=plainer)
    changed = True
    while changed and budget > 0:
        changed = False
        for i in range(len(spec["stages"]) - 1, -1, -1):
            cand = dict(spec, stages=spec["stages"][:i] + spec["stages"][i+1:])
            budget -= 1
            if _fails(cand, kind, mode):
                spec = cand; changed = True; break
        if changed: continue
        for i, s in enumerate(spec["stages"]):                # a stage that drops columns and rows: try each half
            if s["k"] == "drop" and s["cols"] and s.get("pred"):
                for half in (dict(s, pred=None), dict(s, cols=[])):
                    cand = dict(spec, stages=spec["stages"][:i] + [half] + spec["stages"][i+1:])
                    budget -= 1
                    if _fails(cand, kind, mode):
                        spec = cand; changed = True; break
                if changed: break
    return spec

def _is_partial_head(s):
    return s.get("form") == "pmap" or bool(s.get("partial"))

def stage_tag(s):
    if s["k"] == "head":   return "head[perm]" if s.get("form") == "perm" else "head[partial]" if _is_partial_head(s) else "head"
    if s["k"] == "encode": return "encode"
    if s["k"] == "drop":   return "dropcols" if s["cols"] and not s.get("pred") else "droprows" if not s["cols"] else "dropcols+rows"
    if s["k"] == "label":  return "label[pos]" if s.get("via") == "pos" else "label"
    if s["k"] == "cat":    return f"cat[{s['tipe']}]"
    return s["k"]

def src_tag(spec):
    k = spec["source"]["kind"]
    if k == "csv_text" and spec["source"].get("header") is not None and len(spec["source"]["header"]) < len(spec["source"]["rows"][0]):
        return "csv[short-header]"
    if k.startswith("arff"):
        # after shrinking such tokens are only left when the failure needs them
        try: f = M.marker_features(spec["layout"], spec["source"])
        except Exception: f = ()
        return "arff[marker-token-is-a-value]" if any(x.startswith("value.") for x in f) else "arff"
    return {"list": "plain", "tuple": "plain", "dict": "plain", "lazy": "lazy", "lazy_loader": "lazy", "csv_text": "csv"}[k]

def reuse_tag(spec):
    """the sharing history, for the case key: when the prior table is processed and how it differs"""
    parts = []
    if spec.get("prior"): parts.append(f"prior-{spec['prior']['when']}:" + ("+".join(spec["prior"]["tags"]) or "same-layout"))
    if spec.get("second") == "same": parts.append("reread")
    return ",".join(parts)

def reuse_sig(spec):
    """the sharing history, for a signature: when the prior table is processed and which stage kinds have to resolve
    something else on it than on the judged table (not how the generator happened to derive it)"""
    parts = []
    prior = spec.get("prior")
    if prior:
        if prior["layout"] != spec["layout"]: diff = "other-layout"
        else:
            try: d = sorted(f[8:] for f in reuse_features(spec) if f.startswith("differs.") and f.count(".") == 1)
            except Exception: d = ["?"]
            diff = "differs=" + ("+".join(d) or "nothing")
        parts.append(f"prior-{prior['when']}:{diff}")
    if spec.get("second") == "same": parts.append("reread")
    return ",".join(parts)

def _unshared(spec): return {k: v for k, v in spec.items() if k not in ("prior", "second")}

def _fails_shared_only(spec):
    try: return bool(check_core(spec)) and not check_core(_unshared(spec))
    except Exception: return False

def shrink_reuse(spec, kind, mode, budget=80):
    """a failure that needs the filter objects to be shared: keeps only the sharing and the stages the failure needs"""
    def fails(c):
        nonlocal budget
        budget -= 1
        return _fails(c, kind, mode)
    if spec.get("prior") and spec.get("second") == "same":
        for drop in ("second", "prior"):
            cand = {k: v for k, v in spec.items() if k != drop}
            if fails(cand): spec = cand; break
    changed = True
    while changed and budget > 0:
        changed = False
        for i in range(len(spec["stages"]) - 1, -1, -1):
            cand = dict(spec, stages=spec["stages"][:i] + spec["stages"][i+1:])
            if fails(cand): spec = cand; changed = True; break
    try: plainer = M.demarked(spec["layout"], spec["source"])
    except Invalid: plainer = None
    if plainer is not None and fails(dict(spec, source=plainer)): spec = dict(spec, source=plainer)
    if spec.get("prior") and spec["prior"]["when"] != "before":  # the plainest history that shows it
        cand = dict(spec, prior=dict(spec["prior"], when="before"))
        if fails(cand): spec = cand
    return spec

def reuse_report(spec):
    # every access kind is replayed, so that the stage where the tables part ways is found whatever the script asked for
    kinds = DENSE_KINDS if spec["layout"] == "dense" else SPARSE_KINDS
    spec = dict(spec, script=spec["script"] + [[k, 7 + 13 * i] for i, k in enumerate(dict.fromkeys(kinds))])
    for j in range(len(spec["stages"])):                      # shortest prefix that fails only when shared
        cand = dict(spec, stages=spec["stages"][:j])
        if _fails_shared_only(cand): spec = cand; break
    res = check_core(spec)
    out = []
    for kind, mode, what in _pick(res):
        small = shrink_reuse(spec, kind, mode)
        tags = [stage_tag(s) for s in small["stages"]]
        chain = (">".join(tags) if len(tags) <= 2 else f"{tags[0]}>..>{tags[-1]}") or "-"
        sig = f"{spec['layout']}/{src_tag(small)}/{chain}/{kind}/mode={mode}/shared-filters[{reuse_sig(small)}]"
        out.append((sig, what + f" || only when the filter objects are shared; minimal: source={small['source']} stages={small['stages']} "
                               f"prior={small.get('prior')} second={small.get('second', 'fresh')}"))
    return out

def check_case(spec, ctx=None):
    res = check_core(spec, ctx)
    if not res: return []
    if spec.get("prior") or spec.get("second") == "same":
        plain = {k: v for k, v in spec.items() if k not in ("prior", "second")}
        try: rp = check_core(plain)
        except Exception: rp = []
        if not rp: return reuse_report(spec)                 # the failure needs the filter objects to be shared
        spec, res = plain, rp                                # it does not: reported as the plain pipeline's failure
    # shortest failing prefix; every cell is also read by key there, so that a wrong cell is found at the stage that
    # introduces it whatever cells the script of the case happened to ask for behind the later stages
    kinds = DENSE_KINDS if spec["layout"] == "dense" else SPARSE_KINDS
    sweep = [[k, r] for k in dict.fromkeys(k for k in kinds if k in _KEYED) for r in range(8)]
    # behind stages that follow LabelRows every view of the parts is read, so that the same access names the failure every time
    if _later_stages(spec): sweep += [[k, 0] for k in dict.fromkeys(kinds) if k in _PARTS and k not in _KEYED]
    for j in range(len(spec["stages"]) + (1 if _later_stages(spec) else 0)):      # (there the whole chain is swept as well)
        sub = dict(spec, stages=spec["stages"][:j], script=spec["script"] + sweep)
        try: r = check_core(sub)
        except Exception: continue
        if r:
            spec, res = sub, r; break
    out = []
    for kind, mode, what in _pick(res):
        small = shrink(spec, kind, mode)
        tags = [stage_tag(s) for s in small["stages"]]
        # the parts differ behind a stage that follows LabelRows: the chain is named from the label stage on (what had to
        # stay before it only supplies the names the later stages use) and the parts are named as feats / label
        if kind in _PARTS and _later_stages(small):
            tags = ["label"] + tags[[s["k"] for s in small["stages"]].index("label") + 1:]   # however the label was given
            kind = "label" if kind == "label" else "feats"
        # stages that could not be removed between the first and the last one (later stages refer to their columns)
        # are not part of the mechanism's name
        chain = (">".join(tags) if len(tags) <= 2 else f"{tags[0]}>..>{tags[-1]}") or "-"
        sig = f"{spec['layout']}/{src_tag(small)}/{chain}/{kind}/mode={mode}"
        # one signature per mechanism: the parts are built from the row beneath the label view, so no stage that follows
        # LabelRows shows in them (whatever the stage and whatever turns out wrong)
        if kind in ("label", "feats") and tags[:1] == ["label"] and len(tags) > 1 and not mode.startswith("raise"):
            sig = f"{spec['layout']}/stage-after-LabelRows-does-not-reach-{kind}"
        out.append((sig, what + f" || minimal: source={src_tag(small)} stages={small['stages']}"))
    return out

# ------------------------------------------------------------------------------------------ entry points
def domain_features(spec):
    """replays the model stage by stage; returns (final state, structural features the case exercises)"""
    st = M.model_source(spec["layout"], spec["source"])
    feats = set(); later = set()
    views = 0                                                # lazy views stacked on the row that carries the sparse header map
    if st.partial_headers(): feats.add("partial-headers.source")
    for s in spec["stages"]:
        k = s["k"]
        labelled = st.label is not None and st.feats_ok
        if st.partial_headers():
            if k == "encode": feats.add("partial-headers.encode-" + s["form"])
            elif k == "drop" and s["cols"]: feats.add("partial-headers.dropcols")
            elif k == "label": feats.add("partial-headers.label")
            elif k == "cat": feats.add("partial-headers.cat")
        if k == "label" and s.get("via") == "pos":
            feats.add("sparse-headers.label-by-pos")
            if views: feats.add("sparse-headers.view.label-by-pos")
        if st.layout == "sparse":
            if k == "head": views = 0
            elif k == "encode" or (k == "drop" and s["cols"]): views += 1
        st = M.apply_stage(st, s)
        if k == "head" and st.partial_headers(): feats.add("partial-headers.head")
        if labelled and st.label is not None and (k in ("head", "encode") or (k == "drop" and s["cols"])):
            later.add(f"label-then.{st.layout}." + ("dropcols" if k == "drop" else k))
    if st.label is None: st.feats_ok = False
    if st.feats_ok: feats |= later                           # a stage changed columns of labelled rows and the label column is still there
    return st, feats

def reuse_features(spec):
    """which kinds of shared-filter histories the case exercises, and for which stage kinds the two tables make the
    filter object resolve something different (width, position of a name, key of a position, categorical columns)"""
    feats = set()
    if spec.get("second") == "same": feats.add("reread")
    prior = spec.get("prior")
    if not prior: return feats
    feats.add("prior"); feats.add("when." + prior["when"])
    for t in prior["tags"]: feats.add("prior." + t)
    a = M.model_source(spec["layout"], spec["source"]); b = M.model_source(prior["layout"], prior["source"])
    for s in spec["stages"]:
        ra, rb = M.resolution(a, s), M.resolution(b, s)
        if ra is not None and rb is not None and ra != rb:
            feats.add("differs." + s["k"])
            if s["k"] == "label": feats.add("differs.label." + a.layout + ("-by-pos" if s.get("via") == "pos" else "-by-name" if isinstance(s["key"], str) and a.layout == "dense" else ""))
        a = M.apply_stage(a, s); b = M.apply_stage(b, s)
    return feats

def run_shard(ctx):
    i = 0
    while i < ctx.n and ctx.time_left() > 0:
        spec = gen_case(ctx.rng)
        st, dfeats = domain_features(spec)
        for f in dfeats: ctx.count("domain." + f)
        for f in M.marker_features(spec["layout"], spec["source"]): ctx.count("domain.marker-token." + f)
        for f in reuse_features(spec): ctx.count("reuse." + f)
        tags = tuple(stage_tag(s) + ":" + str(s.get("form", "")) for s in spec["stages"])
        nontrivial = bool(st.alive_rows()) and st.ncols_any() > 0 and (bool(spec["stages"]) or spec["source"]["kind"] not in ("list", "tuple", "dict"))
        ctx.case((spec["layout"], spec["source"]["kind"], tags, st.feats_ok, reuse_tag(spec)), nontrivial=nontrivial)
        ctx.count("source." + spec["source"]["kind"])
        for s in spec["stages"]: ctx.count("stage." + s["k"])
        if i < 2: ctx.sample({"layout": spec["layout"], "source": spec["source"], "stages": spec["stages"], "script": spec["script"][:6]})
        for sig, what in check_case(spec, ctx):
            ctx.violation(sig, what, spec)
        i += 1
    ctx.count("cases", i)
    if i < ctx.n: ctx.extra["cases_skipped_for_time"] = ctx.n - i

def replay(witness):
    return check_case(witness)
