"""C01 -- Experiment results do not depend on execution configuration.

Differential runtime monitoring: the same generated experiment spec is built from scratch and run by the real
Experiment.run in-process (reference), in-process again (rebuild determinism), in-process with task chunking, and under
several multi-process configurations (real spawn-ed workers, each configuration in its own subprocess).  Canonical Results
must be identical.  Recorders observe what actually happened: worker pids that evaluated triples (side file written by the
evaluators inside the workers), the experiment seed seen inside workers (part of the rows), and the arrival order of the
T1-T4 transaction records at TransactionEncode.
"""
import os, tempfile, shutil, json, hashlib, random
from vf import expkit as X

ID    = "C01"
LEVEL = "exploration"
RULE  = ("one case = (experiment spec: env groups incl. shared chunk()/cache() prefixes and shuffle(n=k) fan-out, learner kinds incl. "
         "stateful / PMF / kwargs-returning, evaluator kinds, cross product or explicit tuple list) x execution configuration "
         "(processes, maxchunksperchild, maxtasksperchunk); distinct & non-trivial = distinct (component kinds, triple structure, "
         "configuration) where the configuration is multi-process and >= 2 triples exist")
PLAN  = {"quick":    {"shards": 8, "parallel": 4, "cases": 24,   "timeout": 1500},
         "thorough": {"shards": 8, "parallel": 4, "cases": 480,  "timeout": 7000}}
REQUIRED = ["oracle.rebuild-same", "oracle.inproc-chunked-same", "oracle.multiproc-same", "observed.multiproc-evaluations",
            "observed.runs-with-2+-worker-pids", "observed.arrival-orders", "oracle.multiproc-after-earlier-run",
            "observed.cases-with-experiment-seed-0", "observed.cases-with-materialized-environments",
            "observed.cases-with-midstream-generator-learner-listed-once", "observed.cases-with-an-environment-without-interactions",
            "observed.cases-with-a-listed-learner-that-is-a-logging-policy-elsewhere",
            "observed.cases-with-one-environment-and-two-evaluators-per-learner"]
ASSUMPTIONS = ["only deterministic picklable components; timing columns excluded", "processes <= 6",
               "seed=None (time seeded) filters are not generated"]

def gen_case(rng, force_seed0=False, force_materialized=False, force_partial_cache=False, force_rnginit=False, force_empty_env=False, force_policy=False, force_one_env=False):
    spec = X.gen_spec(rng)
    if force_one_env:
        # ONE environment, stateful learners, TWO evaluators (cross product): every learner is paired with a single environment but
        # evaluated twice; the two evaluations are in one chunk in-process and in different chunks / workers when maxtasksperchunk=1
        g = spec["groups"][0]; g["filters"] = [f for f in g["filters"] if f[0] in ("chunk", "cache", "shuffle", "take", "sort")]
        spec["groups"] = [g]; spec.pop("combine", None)
        spec["lrns"] = [dict(X.gen_learner(rng, i), kind=rng.choice(["stateful-ap", "stateful-pmf", "ucb", "epsilon"])) for i in range(rng.choice([1, 2]))]
        spec["vals"] = [{"kind": "cb", "tag": "V0", "seed": 1, "nrows": 2}, {"kind": rng.choice(["cb-seed", "rec", "cb-record"]), "tag": "V1", "seed": rng.randrange(1, 20), "nrows": 4}]
        spec["triples"] = "cross"
    if force_policy:
        # a learner listed once (trained in place by an in-process run, pickled pristine for a worker) that is also the logging policy
        # of a later triple's environment, which is evaluated off-policy
        spec = X.policy_sharing_spec(rng)
    if force_partial_cache:
        # a cached environment longer than one cache slice (25), read in part by a later stage, evaluated by several learners
        g = spec["groups"][0]
        g["n"] = rng.choice([40, 55]); g["filters"] = [[rng.choice(["chunk", "cache"])], ["take", rng.choice([8, 30])]]
        if len(spec["lrns"]) < 2: spec["lrns"].append(X.gen_learner(rng, len(spec["lrns"])))
        spec["triples"] = "cross"; spec.pop("combine", None)
    if force_materialized:
        # interactions and their reward objects (keyed by float action features) exist before the work is shipped to workers
        g = spec["groups"][0]
        g.update(kind="linear", na=3, ncf=2, naf=2); g["filters"] = [f for f in g["filters"] if f[0] in ("shuffle_n", "take")] + [["materialize"]]
        spec.pop("combine", None)
    if force_seed0:
        # the experiment seed 0 (falsy) with consumers of the experiment seed: a PMF learner under an unseeded SequentialCB
        spec["seed"] = 0; spec["lrns"][0]["kind"] = "stateful-pmf"; spec["vals"][0]["kind"] = "cb"
    # a learner whose own CobaRandom is part way through its stream when the experiment starts (it drew its initial weights in the
    # constructor), listed in exactly one triple: run in place in-process, pickled for a worker.  Decided by a generator of its own
    # so that the other choices of the case are the ones they were before this class was added.
    r2 = random.Random(f"rnginit/{force_rnginit}/{spec!r}")
    if force_rnginit or r2.random() < .4:
        n = len(spec["lrns"])
        spec["lrns"].append({"kind": "stateful-rnginit", "tag": f"L{n}", "seed": r2.randrange(1, 20), "uni": False})
        if spec["triples"] == "cross":
            if force_rnginit:
                spec["triples"] = [[r2.random(), r2.randrange(n), r2.randrange(len(spec["vals"]))] for _ in range(r2.randint(1, 4))] + [[r2.random(), n, 0]]
        else:
            spec["triples"].insert(r2.randrange(len(spec["triples"]) + 1), [r2.random(), n, r2.randrange(len(spec["vals"]))])
    if force_empty_env or (not force_one_env and spec["triples"] == "cross" and r2.random() < .15):
        # an environment without interactions (a strict take of more than there is) behind a chunk() prefix, evaluated -- among others --
        # by an evaluator that records a row for every evaluation it is asked for
        spec["groups"].append({"kind": "lambda", "n": 6, "seed": 3, "tag": f"g{len(spec['groups']) + 5}",
                               "filters": [["chunk"]] + ([["shuffle_n", 2]] if r2.random() < .5 else []) + [["take_strict", 50]]})
        spec["vals"].append({"kind": "rec-sum", "tag": f"V{len(spec['vals'])}", "seed": 1, "nrows": 3})
        spec["triples"] = "cross"
    cfgs = []
    cfgs.append([1, 0, rng.choice([1, 2, 3, 5])])                     # in-process, chunks split
    for _ in range(3):
        p = rng.choice([1, 2, 2, 3, 4, 6]); mc = rng.choice([0, 0, 1, 2, 3]); mt = rng.choice([0, 0, 1, 2, 3, 5])
        if p == 1 and mc == 0: mc = rng.choice([1, 2])
        cfgs.append([p, mc, mt])
    if force_one_env: cfgs[1:3] = [[2, 0, 1], [1, 1, 1]]
    return {"spec": spec, "cfgs": cfgs}

def _once_rnginit(spec):
    if spec["triples"] == "cross": return False
    ids = [i for i, l in enumerate(spec["lrns"]) if l["kind"] == "stateful-rnginit"]
    return any(sum(1 for t in spec["triples"] if t[1] == i) == 1 for i in ids)

def _sig_features(spec):
    fs = set()
    for g in spec["groups"]:
        for f in g["filters"]: fs.add(f[0])
    return sorted(fs)

def check_case(case, ctx=None, workdir=None):
    own = workdir is None
    if own: workdir = tempfile.mkdtemp(prefix="vf-c01-")
    viol = []
    spec = case["spec"]
    def note(n, k=1):
        if ctx is not None: ctx.count(n, k)
    try:
        arr0 = []
        ref, idx = X.run_inproc(spec, (1, 0, 0), arrival=arr0)
        cref = X.canon_result(ref)
        n_triples = len(idx)
        kinds = (tuple(sorted(l["kind"] for l in spec["lrns"])), tuple(sorted(v["kind"] for v in spec["vals"])),
                 tuple(sorted(g["kind"] for g in spec["groups"])), tuple(_sig_features(spec)), spec["triples"] == "cross")
        # (1) constructing and running the same experiment a second time gives the same Result
        again, _ = X.run_inproc(spec, (1, 0, 0))
        note("oracle.rebuild-same")
        d = X.diff_canon(cref, X.canon_result(again))
        if ctx is not None: ctx.case(("rebuild", kinds), nontrivial=False)
        if d: viol.append((f"rebuild/differs/table={d[0]}", d[1]))
        orders = {hashlib.blake2b(repr(arr0).encode(), digest_size=6).hexdigest()}
        for cfg in case["cfgs"]:
            multi = cfg[0] > 1 or cfg[1] != 0
            feat = f"p={'1' if cfg[0]==1 else '2+'}/mc={'0' if cfg[1]==0 else 'pos'}/mt={'0' if cfg[2]==0 else 'pos'}"
            if ctx is not None: ctx.case(("cfg", kinds, tuple(cfg)), nontrivial=multi and n_triples >= 2)
            if not multi:
                arr = []
                r, _ = X.run_inproc(spec, cfg, arrival=arr)
                note("oracle.inproc-chunked-same")
                orders.add(hashlib.blake2b(repr(arr).encode(), digest_size=6).hexdigest())
                d = X.diff_canon(cref, X.canon_result(r))
                if d: viol.append((f"inproc-chunked/differs/table={d[0]}/{feat}", f"cfg={cfg}: {d[1]}"))
                continue
            side = os.path.join(workdir, "side.log")
            if os.path.exists(side): os.remove(side)
            # the last configuration of a case runs after another multi-process run (other seed) in the same interpreter
            pre = [{"spec": dict(spec, seed=spec["seed"] + 100), "cfg": cfg}] if cfg is case["cfgs"][-1] else None
            if pre: note("oracle.multiproc-after-earlier-run")
            out = X.run_subprocess(spec, cfg, workdir, side=side, pre=pre)
            if out["status"] == "timeout":          # a watchdog firing decides nothing: one more attempt with a long deadline
                note("multiproc-watchdog-retry")
                if os.path.exists(side): os.remove(side)
                out = X.run_subprocess(spec, cfg, workdir, side=side, pre=pre, timeout=900)
            if out["status"] != "ok":
                if out["status"] == "raised":
                    viol.append((f"multiproc/raised/{feat}", f"cfg={cfg}: {out['error']}"))
                elif ctx is not None: ctx.note_inconclusive(f"multiproc-case-{out['status']}: {str(out)[:300]}")
                continue
            note("oracle.multiproc-same")
            evals = X.read_side(side)
            note("observed.multiproc-evaluations", len(evals))
            if len({e[3] for e in evals}) >= 2: note("observed.runs-with-2+-worker-pids")
            orders.add(hashlib.blake2b(repr(out["arrival"]).encode(), digest_size=6).hexdigest())
            d = X.diff_canon(cref, out["canon"])
            if d:
                viol.append((f"multiproc/differs/table={d[0]}/{feat}", f"cfg={cfg}: {d[1]}; worker log tail: {out['logs'][-3:]}"))
        note("observed.arrival-orders", len(orders))
        if ctx is not None: ctx.extra.setdefault("_orders", set()).update(orders)
    finally:
        if own: shutil.rmtree(workdir, ignore_errors=True)
    return viol

def run_shard(ctx):
    workdir = tempfile.mkdtemp(prefix=f"vf-c01-{ctx.shard}-")
    try:
        for i in range(ctx.n):
            case = gen_case(ctx.rng, force_seed0=(i == 0), force_materialized=(i == 1), force_partial_cache=(i == 2), force_rnginit=(i == 1 and ctx.shard % 2 == 1), force_empty_env=(i == 0 and ctx.shard % 2 == 0),
                            force_policy=(i == 2 and ctx.shard % 2 == 0), force_one_env=(i == 1 and ctx.shard % 4 == 0))
            if i == 1 and ctx.shard % 4 == 0: ctx.count("observed.cases-with-one-environment-and-two-evaluators-per-learner")
            if case["spec"].get("policy_sharing"): ctx.count("observed.cases-with-a-listed-learner-that-is-a-logging-policy-elsewhere")
            if any(f[0] == "take_strict" for g in case["spec"]["groups"] for f in g["filters"]): ctx.count("observed.cases-with-an-environment-without-interactions")
            if _once_rnginit(case["spec"]): ctx.count("observed.cases-with-midstream-generator-learner-listed-once")
            if any(f[0] == "materialize" for g in case["spec"]["groups"] for f in g["filters"]): ctx.count("observed.cases-with-materialized-environments")
            if case["spec"]["seed"] == 0: ctx.count("observed.cases-with-experiment-seed-0")
            try:
                v = check_case(case, ctx, workdir)
            except Exception as e:
                import traceback
                v = [(f"reference-run/raised:{type(e).__name__}", f"{e} {traceback.format_exc()[-600:]}")]
            if i < 1: ctx.sample({"groups": [(g["kind"], g["filters"]) for g in case["spec"]["groups"]], "lrns": [l["kind"] for l in case["spec"]["lrns"]],
                                  "vals": [v_["kind"] for v_ in case["spec"]["vals"]], "cfgs": case["cfgs"]})
            for sig, what in v: ctx.violation(sig, what, case)
    finally:
        shutil.rmtree(workdir, ignore_errors=True)
    ctx.extra["distinct_arrival_orders"] = sorted(ctx.extra.pop("_orders", set()))
    if X.WATCHDOG_LOG:
        # a watchdog that fired decided nothing (the run was repeated), but it is recorded: how often, and what the run was waiting for
        ctx.count("watchdog.multiproc-run-repeated", len(X.WATCHDOG_LOG))
        ctx.extra["watchdog_firings"] = [{"cfg": w["cfg"], "timeout_s": w["timeout_s"], "stacks_tail": w["stacks"][-2500:]} for w in X.WATCHDOG_LOG[:2]]

def finalize(merged, tier, seed):
    s = set()
    for lst in merged["extra"].pop("distinct_arrival_orders", []): s.update(lst)
    merged["extra"]["distinct_arrival_orders"] = len(s)

def replay(witness):
    return check_case(witness)
