"""C09 -- Ordering and selection filters keep exactly the interactions they promise.

Every case builds one finite environment (a list of real coba Interaction objects, each carrying a unique
`_uid`) and one filter configuration, runs the REAL filter through every access path coba offers
(coba.pipes.<F>, coba.environments.filters.<F>, the Environments.<f>() shortcut -- raw pipeline and the
finalized pipeline a user gets from indexing) and compares the output with a 10-20 line reference model
written from the property statement.  Besides the selected/ordered `_uid` sequence the monitor checks
  * content preservation: canonical form of every output == canonical form of the input with the same `_uid`;
  * a deep snapshot of the inputs (canonical form of every interaction + identity/order of the list) taken
    before the run still holds after it;
  * seed-determinism for Shuffle / Riffle / Reservoir: a fresh instance and the re-used instance give the same
    sequence again.
Dense and sparse contexts are held by a list / dict or by one of coba's own Dense / Sparse classes (HashableDense/-Sparse,
LazyDense/-Sparse loaded or still lazy, header-mapped sparse ARFF rows, label-dropped reader rows DropOne/DropSparse, a
mappingproxy): the statement quantifies over dense and sparse contexts, not over their Python class, so all oracles apply
unchanged and a failure that disappears with list / dict contexts is reported as `<filter>/input=context-class:<class>/mode=...`.
One Cache instance is also read by several readers side by side and again after a read during which its source raised.
The interactions of one environment do not all have to be assembled the same way: in about half of the environments
some (or all) interactions carry the very same items in a different key insertion order (a second code path, a log
read back with another field order, dict.update, a filter that pops and re-adds a key), and some environments hold
plain dicts.  Nothing in the statement lets a filter depend on that, so all oracles apply unchanged; a failure that
disappears when the same interactions are assembled the ordinary way is reported as `<filter>/input=mixed-key-order/mode=...`.
Adversarial seeds are computed by inverting coba's LCG so that the uniform 0.0 / the largest uniform lands on
each draw that Shuffle, Riffle and Reservoir's Algorithm L consume.

Every fifth case is a COLLECTION case (check_collection): the Environments.<f>() shortcut is called ONCE over two or
three different environments (disjoint `_uid` ranges) and the resulting environments are read in varying orders, more
than once, sequentially / interleaved item by item / after abandoned partial reads.  Each environment's output is
judged against the reference model of its own input, so state that leaks from one environment of a collection into
another (a filter object or cache shared by the pipelines) shows up as `sibling-environment-item`, lost / extra items
or a seed that no longer reproduces the answer of a fresh filter.
"""
from collections import Counter
import random as _random

ID    = "C09"
LEVEL = "exploration"
RULE  = ("one case = one generated environment (length 0..60; simulated/logged/grounded; None/scalar/dense/tuple/"
         "sparse contexts, dense and sparse ones held by a list/dict or by one of coba's own Dense/Sparse classes (Hashable*, "
         "Lazy* loaded or not, header-mapped, label-dropped reader rows, mappingproxy); list/DiscreteReward/BinaryReward rewards; unique _uid per interaction; all interactions with "
         "the constructor's key order / some assembled in one other key order / each in its own key order; Interaction "
         "subclasses or plain dicts) x one filter "
         "configuration (Shuffle, Riffle, Sort, Take, Slice, Reservoir, Where, Cache, Chunk, Params, Identity, "
         "Batch+Unbatch) run through every access path (pipes class, environments.filters class, Environments "
         "shortcut raw + finalized) and two input forms (list / one-shot iterator); one Cache instance is read once / twice / "
         "after an abandoned read / by 2-3 interleaved readers / after a read whose source raised; distinct & non-trivial = "
         "distinct (filter, parameter class, length class, interaction kind, context kind) with length >= 2.  Every "
         "fifth case is a COLLECTION: one Environments.<f>() shortcut call over 2-3 different environments (disjoint "
         "_uid ranges, same or mixed schema), the resulting environments read in 2-3 rounds (permuted sequential "
         "order / item-by-item interleaved / abandoned partial reads), each read judged against its own input; "
         "distinct = (filter, parameter class, #environments, round modes, mixed schema, multi-seed)")
PLAN  = {"quick":    {"shards": 16, "cases": 30000,   "timeout": 600,  "budget_s": 80},
         "thorough": {"shards": 16, "cases": 1250000, "timeout": 3000, "budget_s": 800}}
# the CLASS of a dense / sparse context (not part of its content either: coba's Dense and Sparse are ABCs, and the rows its
# own readers hand out are lazily decoded Dense_/Sparse_ objects, not lists and dicts):
#   cwrap   None = list / dict;  HashableDense / HashableSparse (what Finalize makes);  LazyDense / LazySparse already
#           loaded or still holding their loader (`-lazy`);  DropOne / DropSparse = a reader row whose label column was
#           dropped, as SupervisedSimulation makes them (the wrapped row holds one item more than the context);
#           LazySparse-headers = a (loaded) sparse ARFF row: held under column numbers, presented under the header names;
#           mappingproxy = any other abc.Mapping
_CWRAP = {"dense":  [None, None, None, "HashableDense", "LazyDense", "LazyDense-lazy", "DropOne"],
          "sparse": [None, None, None, "HashableSparse", "LazySparse", "LazySparse-lazy", "LazySparse-headers", "DropSparse", "mappingproxy"]}
_CWRAP_ALL = sorted({w for ws in _CWRAP.values() for w in ws if w})

FILTERS = ["Shuffle", "Riffle", "Sort", "Take", "Slice", "Reservoir", "Where", "Cache", "Chunk", "Params", "Identity", "BatchUnbatch"]
REQUIRED = [f"oracle.{f}" for f in FILTERS] + [
    "oracle.content-preserved", "oracle.input-snapshot", "oracle.determinism", "oracle.seed.adversarial",
    "oracle.Reservoir.algorithm-L-entered", "reach.Reservoir.all-initial-members-replaced", "oracle.Where.drop", "oracle.Where.pass", "oracle.Sort.ties",
    "via.pipes", "via.envf", "via.shortcut", "via.shortcut-finalized", "input.list", "input.iter",
    "input.key-order.mixed", "input.plain-dicts", "oracle.BatchUnbatch.batched.mixed-key-order", "collection.mixed-key-order"] + \
    [f"oracle.{f}.mixed-key-order" for f in FILTERS] + \
    [f"oracle.collection.{f}" for f in FILTERS] + [
    "collection.first-read", "collection.after-sibling", "collection.re-read", "collection.interleaved",
    "collection.round.partial", "collection.raw", "collection.finalized", "collection.mixed-schema"] + \
    [f"input.context-class.{w}" for w in _CWRAP_ALL] + [f"oracle.Where.n_features.context-class.{w}" for w in _CWRAP_ALL] + [
    "oracle.Sort.context-class", "oracle.Where.n_features.string-scalar",
    "oracle.Cache.reads.twice", "oracle.Cache.reads.partial", "oracle.Cache.reads.interleaved", "oracle.Cache.reads.failed"]
ASSUMPTIONS = [
    "which permutation / which sample a seed yields is not asserted, only that it is a permutation (resp. min(n,N) distinct members) of the input and reproducible; seed=None is excluded",
    "Sort: keys exist in every dense context; sparse contexts take 0 for an absent key; sparse contexts without keys, and scalar contexts, only have to come out as a permutation (order unspecified); sort-key columns hold one orderable type; None/scalar contexts are sorted without keys only",
    "Where: the feature count of an environment is asserted only when every context has the same number of features (None = 0; a scalar -- number or string -- = 1: 'a value (a single feature)' in coba's own description of contexts; dense / sparse = number of values, whatever Dense / Sparse class holds them); n_actions only on interactions that carry 'actions'; an empty environment yields nothing whatever the bounds",
    "the class that holds a dense / sparse context (list, tuple, HashableDense, LazyDense, DropOne / dict, HashableSparse, LazySparse with or without header names, DropSparse, any other Mapping; lazily decoded rows loaded or not) is not content: every context of one environment is held the same way, the filters must do what the statement says for all of them, and two contexts with the same values in the same kind of container are the same content",
    "Cache: one instance may be read once, twice, again after an abandoned read, by two or three readers side by side (any interleaving of single-item steps; every reader is drained in the end), and again after a read during which its SOURCE raised (the failing read itself is not judged: its input is not a finite sequence); every read that is given the intact finite sequence and completes must be the identity on it",
    "every interaction of one environment has the same key set and the same value kinds (coba decides per environment from its first interaction); "
    "the ORDER in which an interaction's keys were inserted, and whether it is an Interaction subclass or a plain dict, is not content: "
    "interactions of one environment may differ in it ('the only assumption made by Coba is that interactions are a dict') and every filter must still do what the statement says",
    "content equality is type-strict on values (list vs tuple, int vs float) but ignores the dict subclass of the interaction and its key order (Cache copies, Batch+Unbatch rebuild the dict)",
    "legal parameters only: counts/start/stop >= 0 or None, step >= 1, spacing >= 0, batch size >= 0 or None, integer seeds >= 0 for Shuffle, int/float seeds for Riffle and Reservoir",
    "Reservoir inputs are at most 60 long, so float-rounding corners of Algorithm L that need > 10^7 items are out of reach",
    "collections: the members of one collection are different Environment objects with disjoint _uid ranges; for Sort and Where they share one schema (the keys / bounds are legal for that schema); reading the environments an Environments shortcut returns in any order, repeatedly, lazily side by side, or abandoning a read, is ordinary use and must not change what any of them yields; for seeded filters 'determined by the seed' is taken as: equal to what a fresh environments.filters instance with that seed yields on the same input",
]

M, A, C_ = 2**30, 116646453, 9
A_INV = pow(A, -1, M)

def lcg_seed(k, t):
    """the integer seed whose k-th uniform (0-based) is produced from LCG state t, i.e. equals t/2^30"""
    s = t
    for _ in range(k + 1): s = (A_INV * (s - C_)) % M
    return s

# ===================================================================================== generators (JSON-able specs)
def gen_len(rng):
    r = rng.random()
    if r < .06: return 0
    if r < .12: return 1
    if r < .20: return 2
    if r < .62: return rng.randint(3, 12)
    if r < .90: return rng.randint(13, 40)
    return rng.randint(41, 60)

_SCHEMA_KEYS = ("kind", "ctx", "rwd", "akind", "const_actions", "has_actions", "has_prob", "has_tag", "d", "coltypes",
                "skeys", "uniform_sparse", "scalar_type", "na_const")
# how the interactions of one environment were assembled (not part of their content: interactions are dicts, and two
# dicts with the same items are the same interaction whatever order the items were inserted in):
#   korder  same = every interaction has its keys in the constructor's order;
#           some = a second "code path" assembles some of the interactions with the same keys in ONE other order;
#           each = every interaction has its own key insertion order
#   plain   the interactions are plain dicts instead of coba's Interaction subclasses

def gen_env(rng, like=None, n=None, uid_base=100):
    """one environment spec.  like = an earlier spec whose schema (interaction kind, context kind, column types, ...)
    is re-used with fresh values; uid_base keeps the _uid ranges of the members of one collection apart."""
    if n is None: n = gen_len(rng)
    if like is not None:
        sc = like["schema"]
    else:
        sc = {}
        sc["kind"] = rng.choice(["sim", "sim", "log", "log", "grd"])
        sc["ctx"]  = rng.choice(["none", "scalar", "dense", "dense", "tuple", "sparse", "sparse"])
        sc["rwd"]  = rng.choice(["list", "list", "discrete", "binary"])
        sc["akind"] = rng.choice(["int", "str", "vec"])
        sc["const_actions"] = rng.random() < .3
        sc["has_actions"] = sc["kind"] != "log" or rng.random() < .6
        sc["has_prob"]    = rng.random() < .7
        sc["has_tag"]     = rng.random() < .3
        sc["d"] = rng.randint(1, 4)
        sc["coltypes"] = [rng.choice(["int", "int", "float", "str"]) for _ in range(sc["d"])]
        sc["skeys"] = rng.sample(["a", "b", "c", "d"], rng.randint(1, 4))
        sc["uniform_sparse"] = rng.random() < .5
        sc["scalar_type"] = rng.choice(["int", "float", "str"])
        sc["na_const"] = rng.randint(1, 4)
        sc["korder"] = rng.choice(["same", "same", "same", "some", "some", "each"])
        sc["plain"] = rng.random() < .15
        sc["cwrap"] = rng.choice(_CWRAP.get(sc["ctx"], [None]))
    korder = sc.get("korder", "same"); alt_order = rng.randrange(1, 10**6); p_alt = rng.choice([.15, .35, .5, .85])
    kind, ctx, rwd, akind, const_actions, has_actions, has_prob, has_tag, d, coltypes, skeys, uniform_sparse, scalar_type, na_const = (sc[k] for k in _SCHEMA_KEYS)
    def val(t):
        if t == "int":   return rng.randint(0, 2)
        if t == "float": return rng.choice([0.0, 0.5, -1.5, 2.25])
        return rng.choice(["x", "y", "zz"])
    def context():
        if ctx == "none":   return None
        if ctx == "scalar": return val(scalar_type)
        if ctx == "dense":  return [val(t) for t in coltypes]
        if ctx == "tuple":  return {"t": [val(t) for t in coltypes]}
        ks = skeys if uniform_sparse else [k for k in skeys if rng.random() < .7]
        return {"s": {k: rng.choice([1, 2, 3, 0.5, -1]) for k in ks}}
    pool = {"int": [0, 1, 2, 3, 4], "str": ["a", "b", "c", "d", "e"], "vec": [[1, 0, 0], [0, 1, 0], [0, 0, 1], [1, 1, 0], [0, 1, 1]]}[akind]
    uids = rng.sample(range(uid_base, uid_base + 3 * max(n, 1)), n)
    rows = []
    for i in range(n):
        na = na_const if const_actions else rng.randint(1, 4)
        acts = rng.sample(pool, na)
        row = {"u": uids[i], "c": context()}
        if has_actions: row["a"] = acts
        if kind in ("sim", "grd"):
            row["r"] = [rng.choice([0, 1, 0.25, 0.5]) for _ in acts]
            row["j"] = rng.randrange(na)
        if kind == "grd":
            row["f"] = [rng.choice([0, 1, 2]) for _ in acts]
            row["user"] = rng.randint(0, 3); row["normal"] = rng.random() < .5
        if kind == "log":
            row["la"] = rng.choice(acts); row["lr"] = rng.choice([0, 1, 0.5])
            if has_prob: row["lp"] = rng.choice([0.25, 0.5, 1.0])
        if has_tag: row["tag"] = rng.choice(["p", "q"])
        if korder == "some" and rng.random() < p_alt: row["ko"] = alt_order
        if korder == "each": row["ko"] = rng.randrange(1, 10**6)
        rows.append(row)
    return {"kind": kind, "ctx": ctx, "rwd": rwd, "akind": akind, "d": d, "coltypes": coltypes, "skeys": skeys,
            "has_actions": has_actions, "rows": rows, "schema": sc}

def _near(rng, n, none=True):
    c = [0, 1, 2, max(n - 1, 0), n, n + 1, n + 5, rng.randint(0, max(n, 1))]
    if none: c += [None]
    return rng.choice(c)

def gen_seed(rng, positions, int_only=False):
    """returns (seed, seedclass, role); positions = draw indices the filter is known to consume"""
    r = rng.random()
    if positions and r < .22:
        k = rng.choice(positions)
        top = rng.random() < .35
        return lcg_seed(k, M - 1 if top else 0), ("umax" if top else "u0"), k
    if r < .55: return rng.choice([0, 1, 2, 3, 7]), "plain", None
    if r < .65 and not int_only: return rng.choice([1.5, 2.0, 0.25]), "float", None
    return rng.randrange(M), "plain", None

def gen_filter(rng, env, name=None):
    n = len(env["rows"])
    name = name or rng.choice(["Shuffle", "Riffle", "Sort", "Sort", "Take", "Take", "Slice", "Slice", "Reservoir", "Reservoir", "Reservoir",
                       "Where", "Where", "Where", "Cache", "Chunk", "Params", "Identity", "BatchUnbatch", "BatchUnbatch"])
    f = {"name": name, "input": rng.choice(["list", "iter"])}
    if name == "Shuffle":
        seed, sc, k = gen_seed(rng, list(range(max(n - 1, 0))), int_only=True)
        f.update(seed=seed, seedclass=sc, form=rng.choice(["seed", "seed_kw", "seeds", "seeds_kw", "n", "default"]),
                 more=[rng.randint(0, 9) for _ in range(rng.randint(1, 2))], nshuf=rng.randint(1, 3))
    elif name == "Riffle":
        sp = rng.choice([0, 1, 2, 3, 3, 5, max(n - 1, 0), n, n + 1])
        seed, sc, k = gen_seed(rng, list(range(int(n / (sp + 1)))))
        f.update(spacing=sp, seed=seed, seedclass=sc)
    elif name == "Sort":
        if env["ctx"] in ("dense", "tuple"): pool = list(range(env["d"]))
        elif env["ctx"] == "sparse":         pool = list(env["skeys"]) + (["zz"] if rng.random() < .2 else [])
        else:                                pool = []
        keys = rng.sample(pool, rng.randint(0, min(3, len(pool)))) if pool else []
        f.update(keys=keys, form=rng.choice(["flat", "one-list", "mixed"]))
    elif name == "Take":
        f.update(count=_near(rng, n), strict=rng.random() < .5)
    elif name == "Slice":
        start = rng.choice([None, 0, 1, 2, max(n - 1, 0), n, n + 2, rng.randint(0, max(n, 1))])
        s0 = start or 0
        stop = rng.choice([None, 0, s0, s0 + 1, s0 + 3, max(n - 1, 0), n, n + 3, rng.randint(0, max(n, 1))])
        f.update(start=start, stop=stop, step=rng.choice([1, 1, 2, 3, 7, n + 1]), stepform=rng.choice(["pos", "default"]))
        if f["stepform"] == "default": f["step"] = 1
    elif name == "Reservoir":
        count = _near(rng, n)
        pos = []
        if count is not None and 0 < count <= n:     # Algorithm L draws triples after the (count-1) shuffle draws
            p = max(count - 1, 0)
            pos = list(range(p, p + 9)) + list(range(max(count - 1, 0)))[:3]
        seed, sc, k = gen_seed(rng, pos)
        role = None
        if k is not None and count:
            p = max(count - 1, 0)
            role = f"r{(k - p) % 3 + 1}" if k >= p else "shuffle"
        f.update(count=count, strict=rng.random() < .5, seed=seed, seedclass=sc, role=role,
                 more=[rng.randint(0, 9)] if rng.random() < .3 else [])
    elif name == "Where":
        def rng_arg(center):
            r = rng.random()
            near = lambda: max(0, center + rng.choice([-2, -1, 0, 0, 1, 2, 5]))
            if r < .25: return {"form": "int", "v": near()}
            lo, hi = sorted([near(), near()])
            if r < .45: return {"form": rng.choice(["tuple", "list"]), "v": [lo, None]}
            if r < .65: return {"form": rng.choice(["tuple", "list"]), "v": [None, hi]}
            if r < .95: return {"form": rng.choice(["tuple", "list"]), "v": [lo, hi]}
            if r < .975: return {"form": "tuple", "v": [None, None]}
            return {"form": "tuple", "v": [hi + 1, lo]}       # empty range: nothing can satisfy it
        ni = rng_arg(n) if rng.random() < .7 else None
        na = rng_arg(2) if env["has_actions"] and rng.random() < .5 else None
        nf0 = _nfeat(env["rows"][0]["c"]) if env["rows"] else 0
        nf = rng_arg(nf0) if rng.random() < .5 else None
        if ni is None and na is None and nf is None: ni = rng_arg(n)
        f.update(n_interactions=ni, n_actions=na, n_features=nf)
    elif name == "Cache":
        # one Cache instance is read the ways one environment can be read: once / twice / again after an abandoned read /
        # by two or three readers side by side (`schedule` = whose turn it is to take one item; then every reader is drained)
        # / again after a read that FAILED because the source raised while item `fail_at` was fetched (`source`: a generator,
        # which is dead afterwards, or an iterator that would carry on with the next item)
        reads = rng.choice(["once", "twice", "partial", "interleaved", "interleaved", "failed", "failed"])
        f.update(n_slice=rng.choice([None, 1, 2, 3, 25, max(n, 1), n + 1]), reads=reads, k=rng.randint(0, max(n, 1)))
        if reads == "interleaved":
            f["readers"] = rng.choice([2, 2, 3])
            f["schedule"] = [rng.randrange(f["readers"]) for _ in range(rng.randint(1, 2 * n + 2))]
        if reads == "failed":
            # `exc`: what cuts the read -- an I/O error of the source, or the user's Ctrl-C / a sys.exit() arriving while the source is
            # asked for an item (BaseExceptions; a notebook user reads the same environment again afterwards)
            f.update(fail_at=rng.randint(0, max(n - 1, 0)), source=rng.choice(["generator", "iterator"]), after=rng.choice([1, 2]),
                     exc=rng.choice(["io", "io", "keyboard", "sysexit"]))
    elif name == "Chunk":
        f.update(cache=rng.random() < .5)
    elif name == "Params":
        f.update(params={"p": rng.randint(0, 3)})
    elif name == "BatchUnbatch":
        f.update(size=rng.choice([None, 0, 1, 2, 3, 4, max(n - 1, 1), max(n, 1), n + 1]), join=rng.choice(["chain", "pipes"]))
    return f

def gen_case(rng):
    env = gen_env(rng)
    return {"env": env, "filter": gen_filter(rng, env)}

def gen_collection(rng, env0=None):
    """a COLLECTION case: two or three different environments (disjoint _uid ranges) behind ONE Environments.<f>()
    shortcut call, plus the order in which the resulting environments are read (several rounds: sequentially in a
    permuted order, interleaved item by item, or abandoned after a few items)."""
    env0 = env0 or gen_env(rng)
    name = rng.choice(FILTERS)
    f = gen_filter(rng, env0, name)
    n0 = len(env0["rows"])
    # Sort keys / Where bounds are legal for env0's schema only: its siblings share the schema there
    mixed = name not in ("Sort", "Where") and rng.random() < .35
    envs = [env0]
    for j in range(1, rng.choice([2, 2, 3])):
        n = max(0, n0 + rng.choice([-1, 0, 1])) if rng.random() < .3 else gen_len(rng)
        envs.append(gen_env(rng, like=None if mixed else env0, n=n, uid_base=100 + 1000 * j))
    npipes = len(envs) * len(_shortcut_seeds(f))
    rounds = []
    for r in range(rng.choice([2, 2, 3])):
        mode = rng.choice(["seq", "seq", "seq", "interleave", "partial"] if r == 0 else ["seq", "seq", "interleave"])
        rd = {"mode": mode, "perm": rng.sample(range(npipes), npipes)}
        if mode == "partial": rd["k"] = rng.choice([0, 1, 2, 5, 26])
        rounds.append(rd)
    return {"envs": envs, "filter": f, "rounds": rounds, "finalized": rng.random() < .5, "mixed": mixed}

def _shortcut_seeds(f):
    """the seeds for which the Environments shortcut of `f` makes one environment each ([None]: not a seeded family)"""
    name = f["name"]
    if name == "Shuffle":
        form, s = f["form"], f["seed"]
        if form in ("seed", "seed_kw"): return [s]
        if form == "default":           return [1]
        if form == "n":                 return list(range(f["nshuf"]))
        return list(dict.fromkeys([s] + list(f["more"])))
    if name == "Reservoir": return [f["seed"]] + [x for x in f["more"] if x != f["seed"]]
    if name == "Riffle":    return [f["seed"]]
    return [None]

# ===================================================================================== building real coba objects
def _dec_ctx(c):
    if isinstance(c, dict):
        if "t" in c: return tuple(c["t"])
        return dict(c["s"])
    return list(c) if isinstance(c, list) else c

def _dec_action(a): return tuple(a) if isinstance(a, list) else a

def _wrap_ctx(c, how):
    """the same context held by another of coba's Dense / Sparse classes (how = schema['cwrap'])"""
    if not how or not isinstance(c, (list, dict)): return c
    from coba.primitives import HashableDense, HashableSparse
    from coba.pipes.rows import LazyDense, LazySparse, DropOne, DropSparse
    if isinstance(c, list):
        if how == "HashableDense":  return HashableDense(c)
        if how == "LazyDense":      return LazyDense(c)
        if how == "LazyDense-lazy": return LazyDense(lambda: c)
        if how == "DropOne":        full = c + ["label"]; return DropOne(LazyDense(lambda: full), len(c))
    else:
        if how == "HashableSparse":  return HashableSparse(c)
        if how == "LazySparse":      return LazySparse(c)
        if how == "LazySparse-lazy": return LazySparse(lambda: c)
        if how == "LazySparse-headers":
            cols = {k: j for j, k in enumerate(["a", "b", "c", "d", "zz"])}
            raw = {cols[k]: v for k, v in c.items()}
            return LazySparse(raw, {}, set(), cols, {j: k for k, j in cols.items()})
        if how == "DropSparse":      full = dict(c, __label__="label"); return DropSparse(LazySparse(lambda: full), {"__label__"})
        if how == "mappingproxy":    import types; return types.MappingProxyType(c)
    raise ValueError(how)

def build_env(env):
    from coba.primitives import SimulatedInteraction, LoggedInteraction, GroundedInteraction, DiscreteReward, BinaryReward
    out = []
    for row in env["rows"]:
        extra = {"_uid": row["u"]}
        if "tag" in row: extra["tag"] = row["tag"]
        ctx = _wrap_ctx(_dec_ctx(row["c"]), env.get("schema", {}).get("cwrap"))
        acts = [_dec_action(a) for a in row["a"]] if "a" in row else None
        def rw(vals):
            if env["rwd"] == "list":     return list(vals)
            if env["rwd"] == "discrete": return DiscreteReward(list(acts), list(vals))
            return BinaryReward(acts[row["j"]])
        if env["kind"] == "sim":
            out.append(SimulatedInteraction(ctx, acts, rw(row["r"]), **extra))
        elif env["kind"] == "grd":
            fb = list(row["f"]) if env["rwd"] == "list" else DiscreteReward(list(acts), list(row["f"]))
            out.append(GroundedInteraction(ctx, acts, rw(row["r"]), fb, userid=row["user"], isnormal=row["normal"], **extra))
        else:
            if acts is not None: extra["actions"] = acts
            out.append(LoggedInteraction(ctx, _dec_action(row["la"]), row["lr"], row.get("lp"), **extra))
        if "ko" in row:                 # the same items, inserted in another order
            it = out[-1]
            keys = list(it)
            for k in _random.Random(row["ko"]).sample(keys, len(keys)): it[k] = it.pop(k)
        if env.get("schema", {}).get("plain"): out[-1] = dict(out[-1])
    return out

def _mixed_order(base):
    """do the interactions of this built environment differ in key insertion order?"""
    return len(base) >= 2 and any(list(i) != list(base[0]) for i in base[1:])

def _plain_assembly(env, keep=()):
    """the same environment spec assembled the ordinary way (constructor key order, Interaction subclasses);
    keep: the unusual features to retain ("mixed-key-order", "plain-dicts", "context-class:<class>")"""
    sc = dict(env.get("schema", {}))
    rows = env["rows"]
    if "mixed-key-order" not in keep:
        sc["korder"] = "same"; rows = [{k: v for k, v in r.items() if k != "ko"} for r in rows]
    if "plain-dicts" not in keep: sc["plain"] = False
    if not any(k.startswith("context-class:") for k in keep): sc["cwrap"] = None
    if "string-scalar-context" not in keep and _string_scalar(env):      # the same environment with numbers for scalars
        sc["scalar_type"] = "int"; rows = [dict(r, c=len(r["c"])) for r in rows]
    return dict(env, schema=sc, rows=rows)

def _assembly_features(env):
    t = []
    if any("ko" in r for r in env["rows"]): t.append("mixed-key-order")
    if env.get("schema", {}).get("plain"):  t.append("plain-dicts")
    if env.get("schema", {}).get("cwrap") and env["rows"]: t.append("context-class:" + env["schema"]["cwrap"])
    if _string_scalar(env): t.append("string-scalar-context")       # a string has a len(), a number has not
    return t

def _attribute_assembly(envs, rerun):
    """mechanism minimisation for failures on unusually assembled interactions.  rerun(envs') -> set of signatures of the
    same case on other environment specs.  Returns attribute(sig, env) -> None when the failure also happens with the
    interactions assembled the ordinary way, else the smallest set of unusual features that reproduces it ('a+b')."""
    feats = sorted({t for e in envs for t in _assembly_features(e)})
    if not feats: return lambda sig, env: None
    memo = {}
    def sigs(keep):
        if keep not in memo:
            try:    memo[keep] = rerun([_plain_assembly(e, keep) for e in envs])
            except Exception: memo[keep] = None
        return memo[keep]
    def attribute(sig, env):
        own = _assembly_features(env)
        if not own: return None
        base = sigs(())
        if base is None or sig in base: return None
        if len(feats) > 1:
            for t in own:
                one = sigs((t,))
                if one is not None and sig in one: return t
        return "+".join(own)
    return attribute

def _assembly_sig(sig, tag, marker=""):
    """a failure that needs unusually assembled interactions: the trigger is the assembly, not the parameter class /
    access path / position of the read, and whatever follows from mis-filed values (foreign items, exceptions further
    down the pipeline) is the same mechanism -> filter / input feature / failure mode"""
    parts = sig.split("/")
    mode = next((p_ for p_ in parts if p_.startswith("mode=")), "mode=?")
    return parts[0] + marker + f"/input={tag}/{mode}"

def _special_assembly(env):
    return bool(_assembly_features(env))

# ===================================================================================== canonical content
def _cv(v):
    t = type(v)
    if v is None or t is bool: return v
    if t is int:   return ("i", v)
    if t is float: return ("f", repr(v))
    if t is str:   return ("s", v)
    if isinstance(v, str):   return (t.__name__, str(v))
    if isinstance(v, list):  return ("L" if t is list else "L:" + t.__name__, tuple(_cv(x) for x in v))
    if isinstance(v, tuple): return ("T" if t is tuple else "T:" + t.__name__, tuple(_cv(x) for x in v))
    if isinstance(v, dict):  return ("D" if t is dict else "D:" + t.__name__, tuple(sorted((repr(k), _cv(x)) for k, x in v.items())))
    if not _DS: from coba.primitives import Dense, Sparse; _DS.extend([Dense, Sparse])
    try:                     # coba's own Dense / Sparse containers (lazily decoded reader rows, Hashable*, any Mapping)
        if isinstance(v, _DS[1]): return ("D:" + t.__name__, tuple(sorted((repr(k), _cv(x)) for k, x in v.items())))
        if isinstance(v, _DS[0]): return ("L:" + t.__name__, tuple(_cv(x) for x in v))
    except Exception as e:   return ("o", t.__name__, "unreadable", type(e).__name__)
    return ("o", t.__name__, repr(v))
_DS = []

def canon(inter):
    """key-order- and dict-subclass-insensitive, value-type-strict canonical form of one interaction;
    reward/feedback functions are represented by their values on the interaction's own actions"""
    out = {}
    acts = inter.get("actions") if isinstance(inter, dict) else None
    for k, v in inter.items():
        if callable(v) and not isinstance(v, (list, tuple, dict, str)):
            try:    vals = tuple(_cv(v(a)) for a in (acts or []))
            except Exception as e: vals = ("raises", type(e).__name__)
            out[k] = ("fn", type(v).__name__, vals)
        else:
            out[k] = _cv(v)
    return out

def _diff(a, b):
    return sorted(k for k in set(a) | set(b) if a.get(k, "<absent>") != b.get(k, "<absent>"))

# ===================================================================================== reference models (from the statement)
def _nfeat(c):
    """feature count of a JSON-encoded context: no context has no features, a dense / sparse context one per value, a
    scalar context -- a number or a string ("a value (a single feature)", coba.primitives.Learner.predict) -- is one feature"""
    if c is None: return 0
    if isinstance(c, dict): return len(c["t"]) if "t" in c else len(c["s"])
    if isinstance(c, list): return len(c)
    return 1

def _bounds(arg):
    if arg is None: return None, None
    if arg["form"] == "int": return arg["v"], arg["v"]
    return arg["v"][0], arg["v"][1]

def _inside(v, lo, hi): return (lo is None or lo <= v) and (hi is None or v <= hi)

def _argform(arg):
    if arg is None: return "unset"
    if arg["form"] == "int": return "exact"
    lo, hi = arg["v"]
    return "open" if lo is None and hi is None else "lo-only" if hi is None else "hi-only" if lo is None else "two-sided"

def reference(f, env, seed=None):
    """-> (kind, uids, extra, reason);  kind: exact | perm | subset(extra = k)"""
    rows = env["rows"]; U = [r["u"] for r in rows]; N = len(U); name = f["name"]
    if name in ("Shuffle", "Riffle"): return "perm", U, None, ""
    if name in ("Cache", "Chunk", "Params", "Identity", "BatchUnbatch"): return "exact", U, None, ""
    if name == "Take":
        n = f["count"]
        if n is None: return "exact", U, None, ""
        if f["strict"] and N < n: return "exact", [], None, "strict-short"
        return "exact", U[:n], None, ""
    if name == "Slice":
        a, b, s = f["start"] or 0, f["stop"], f["step"]
        return "exact", [u for i, u in enumerate(U) if i >= a and (b is None or i < b) and (i - a) % s == 0], None, ""
    if name == "Reservoir":
        n = f["count"]
        if n is None: return "perm", U, None, ""
        if n == 0:    return "exact", [], None, ""
        if N < n:     return ("exact", [], None, "strict-short") if f["strict"] else ("perm", U, None, "short")
        return "subset", U, n, ""
    if name == "Sort":
        keys, ctx = f["keys"], env["ctx"]
        if ctx == "none": return "exact", U, None, "no-features"
        if ctx == "scalar" or (ctx == "sparse" and not keys): return "perm", U, None, "order-unspecified"
        def key(r):
            c = r["c"]
            if ctx == "sparse": return tuple(c["s"].get(k, 0) for k in keys)
            c = c["t"] if isinstance(c, dict) else c
            return tuple(c[k] for k in keys) if keys else tuple(c)
        order = sorted(range(N), key=lambda i: (key(rows[i]), i))        # (key, position) = the stable ordering
        ties = len({key(r) for r in rows}) < N
        return "exact", [U[i] for i in order], None, "ties" if ties else ""
    if name == "Where":
        if N == 0: return "exact", [], None, "empty"
        lo, hi = _bounds(f["n_interactions"])
        if lo is not None and N < lo: return "exact", [], None, "drop:n_interactions<lo"
        if hi is not None and N > hi: return "exact", [], None, "drop:n_interactions>hi"
        flo, fhi = _bounds(f["n_features"])
        if f["n_features"] is not None and (flo is not None or fhi is not None):
            counts = {_nfeat(r["c"]) for r in rows}
            if len(counts) != 1 or None in counts: return "unspecified", U, None, "n_features-not-uniform"
            nf = counts.pop()
            if flo is not None and nf < flo: return "exact", [], None, "drop:n_features<lo"
            if fhi is not None and nf > fhi: return "exact", [], None, "drop:n_features>hi"
        alo, ahi = _bounds(f["n_actions"])
        kept = [r["u"] for r in rows if f["n_actions"] is None or _inside(len(r["a"]), alo, ahi)]
        return "exact", kept, None, "pass" if len(kept) == N else "pass:n_actions-selects"
    raise ValueError(name)

# ===================================================================================== parameter classes (for keys / signatures)
def _cnt_class(c, N):
    return "none" if c is None else "0" if c == 0 else "<len" if c < N else "=len" if c == N else ">len"

def pclass(f, env, reason=""):
    N = len(env["rows"]); name = f["name"]
    seedpart = "" if f.get("seedclass", "plain") == "plain" else f"/seed={f['seedclass']}" + (f"@{f['role']}" if f.get("role") else "")
    if name == "Shuffle":   return ("logged" if env["kind"] == "log" else "not-logged") + seedpart
    if name == "Riffle":
        sp = f["spacing"]
        return f"spacing={'0' if sp == 0 else '>=len' if sp >= N else '<len'}" + seedpart
    if name == "Sort":
        k = f["keys"]
        return f"keys={'none' if not k else 'one' if len(k) == 1 else 'multi'}/ctx={env['ctx']}" + ("/ties" if reason == "ties" else "")
    if name == "Take":      return f"count={_cnt_class(f['count'], N)}" + ("/strict" if f["strict"] else "")
    if name == "Slice":
        a, b = f["start"], f["stop"]
        sa = "none" if a is None else "0" if a == 0 else "<len" if a < N else ">=len"
        sb = "none" if b is None else "<=start" if b <= (a or 0) else "<len" if b < N else ">=len"
        return f"start={sa}/stop={sb}/step={'1' if f['step'] == 1 else '>1'}"
    if name == "Reservoir":
        # strict only matters when the input is shorter than count; count <= len is the Algorithm-L regime
        c = f["count"]; cc = "none" if c is None else "0" if c == 0 else "<=len" if c <= N else ">len"
        return f"count={cc}" + ("/strict" if f["strict"] and cc == ">len" else "") + seedpart
    if name == "Where":
        # when one bound decides (expected drop) only that argument's form is part of the mechanism
        if reason.startswith("drop:"):
            a = reason[5:].split("<")[0].split(">")[0]
            return f"{a}={_argform(f[a])}"
        if reason == "pass-but-dropped":      # only the environment-level bounds can drop an environment
            return "/".join(f"{a}={_argform(f[a])}" for a in ("n_interactions", "n_features") if f[a] is not None)
        if reason == "pass-wrong-selection":  # only n_actions selects single interactions
            return f"n_actions={_argform(f['n_actions'])}"
        return "/".join(f"{a}={_argform(f[a])}" for a in ("n_interactions", "n_actions", "n_features") if f[a] is not None)
    if name == "Cache":
        ns = f["n_slice"]
        return f"n_slice={'none' if ns is None else '1' if ns == 1 else '<len' if ns < N else '>=len'}/reads={f['reads']}"
    if name == "Chunk":     return ""
    if name == "BatchUnbatch":
        s = f["size"]
        sc = "none" if s is None else "0" if s == 0 else "1" if s == 1 else ">len" if s > N else "=len" if s == N else "divides" if N % s == 0 else "partial-last"
        return f"size={sc}" + ("" if env["rwd"] == "list" or env["kind"] == "log" else "/reward-functions")
    return ""

def _string_scalar(env):
    return env["ctx"] == "scalar" and any(isinstance(r["c"], str) for r in env["rows"])

def _len_class(N):
    return "0" if N == 0 else "1" if N == 1 else "2" if N == 2 else "3-5" if N <= 5 else "6-15" if N <= 15 else "16-40" if N <= 40 else "41-60"

# ===================================================================================== running the real code
_ENV_CLS = {}
def _cell_env(cell, params=None):
    """an Environment whose read() hands out whatever the harness put into `cell` (list or one-shot iterator)"""
    from coba.primitives import Environment
    if "cls" not in _ENV_CLS:
        class ListEnvironment(Environment):
            def __init__(self, cell, params): self._cell, self._params = cell, dict(params or {})
            @property
            def params(self): return dict(self._params)
            def read(self): return self._cell["items"] if self._cell["form"] == "list" else iter(self._cell["items"])
        _ENV_CLS["cls"] = ListEnvironment
    return _ENV_CLS["cls"](cell, params)

def _where_arg(arg):
    if arg is None: return None
    if arg["form"] == "int": return arg["v"]
    return tuple(arg["v"]) if arg["form"] == "tuple" else list(arg["v"])

def _sort_args(f):
    k = list(f["keys"])
    if f["form"] == "flat" or not k: return k
    if f["form"] == "one-list": return [k]
    return [k[0], k[1:]] if len(k) > 1 else [tuple(k)]

def _class_runner(mk):
    """build() -> runner bound to ONE filter instance"""
    def build():
        inst = mk()
        return lambda items, form: inst.filter(items if form == "list" else iter(items))
    return build

def _short_runner(mk, pick, finalized):
    """build() -> runner bound to ONE pipeline made by the Environments shortcut `mk`.
    finalized=False: the shortcut's own pipeline; True: what indexing/iterating Environments hands to a user"""
    def build():
        from coba.environments import Environments
        cell = {"items": [], "form": "list"}
        envs = mk(Environments(_cell_env(cell)))
        pipes = list(envs) if finalized else list(envs._envs)
        if pick is None or len(pipes) == 1:
            if len(pipes) != 1: raise AssertionError(f"shortcut produced {len(pipes)} environments")
            pipe = pipes[0]
        else:
            match = [p for p in pipes if pick in (p.params.get("shuffle_seed"), p.params.get("reservoir_seed"))]
            if len(match) != 1: raise AssertionError(f"shortcut produced {len(match)} environments for seed {pick}")
            pipe = match[0]
        def run(items, form):
            cell["items"], cell["form"] = items, form
            return pipe.read()
        # Environments.shuffle sorts the finalized pipelines, so even its "raw" pipeline ends in BatchSafe(Finalize())
        from coba.environments.filters import BatchSafe, Finalize
        run.finalized = any(isinstance(p, BatchSafe) and isinstance(p._filter, Finalize) for p in pipe)
        return run
    build.mk = mk
    return build

def plans(f):
    """-> list of (via, seed, build); build() returns a runner(items, form) -> output iterable of the REAL code, bound to
    one filter / pipeline instance.  `seed` labels runs that must reproduce each other."""
    import coba.pipes as P
    import coba.environments.filters as F
    from coba.pipes import Pipes
    name = f["name"]; out = []
    def cls(via, mk, seed=None): out.append((via, seed, _class_runner(mk)))
    def short(mk, pick=None):
        out.append(("shortcut", pick, _short_runner(mk, pick, False)))
        out.append(("shortcut-finalized", pick, _short_runner(mk, pick, True)))
    if name == "Shuffle":
        s = f["seed"]
        cls("pipes", lambda: P.Shuffle(s), s); cls("envf", lambda: F.Shuffle(s), s)
        form = f["form"]
        if   form == "seed":     short(lambda e: e.shuffle(s), s)
        elif form == "seed_kw":  short(lambda e: e.shuffle(seed=s), s)
        elif form == "default":  short(lambda e: e.shuffle(), 1); cls("envf", lambda: F.Shuffle(1), 1)
        elif form == "n":
            for j in range(f["nshuf"]):
                short(lambda e: e.shuffle(n=f["nshuf"]), j)
                if j != s: cls("envf", lambda j=j: F.Shuffle(j), j)
        else:
            seeds = list(dict.fromkeys([s] + list(f["more"])))
            for j in seeds:
                short((lambda e: e.shuffle(seeds)) if form == "seeds" else (lambda e: e.shuffle(seeds=seeds)), j)
                if j != s: cls("envf", lambda j=j: F.Shuffle(j), j)
    elif name == "Riffle":
        sp, s = f["spacing"], f["seed"]
        cls("envf", lambda: F.Riffle(sp, s), s); short(lambda e: e.riffle(sp, s), s)
    elif name == "Sort":
        a = _sort_args(f)
        cls("envf", lambda: F.Sort(*a)); short(lambda e: e.sort(*a))
    elif name == "Take":
        n, st = f["count"], f["strict"]
        cls("pipes", lambda: P.Take(n, st)); cls("envf", lambda: F.Take(n, st)); short(lambda e: e.take(n, st))
    elif name == "Slice":
        a, b, s = f["start"], f["stop"], f["step"]
        if f["stepform"] == "default":
            cls("pipes", lambda: P.Slice(a, b)); cls("envf", lambda: F.Slice(a, b)); short(lambda e: e.slice(a, b))
        else:
            cls("pipes", lambda: P.Slice(a, b, s)); cls("envf", lambda: F.Slice(a, b, s)); short(lambda e: e.slice(a, b, s))
    elif name == "Reservoir":
        n, st, s = f["count"], f["strict"], f["seed"]
        cls("pipes", lambda: P.Reservoir(n, st, s), s); cls("envf", lambda: F.Reservoir(n, strict=st, seed=s), s)
        more = [x for x in f["more"] if x != s]
        if more:
            seeds = [s] + more
            for j in seeds: short(lambda e: e.reservoir(n, seeds, st), j)
            for j in more: cls("envf", lambda j=j: F.Reservoir(n, st, j), j)
        else:
            short((lambda e: e.reservoir(n, s, strict=st)) if isinstance(s, int) else (lambda e: e.reservoir(n, [s], strict=st)), s)
    elif name == "Where":
        kw = {k: _where_arg(f[k]) for k in ("n_interactions", "n_actions", "n_features") if f[k] is not None}
        cls("envf", lambda: F.Where(**kw)); short(lambda e: e.where(**kw))
    elif name == "Cache":
        ns = f["n_slice"]
        cls("pipes", lambda: P.Cache(ns)); cls("envf", lambda: F.Cache(ns)); short(lambda e: e.cache())
    elif name == "Chunk":
        cls("envf", lambda: F.Chunk()); short(lambda e: e.chunk(cache=f["cache"]))
    elif name == "Params":
        cls("envf", lambda: F.Params(dict(f["params"]))); short(lambda e: e.params(dict(f["params"])))
    elif name == "Identity":
        cls("pipes", lambda: P.Identity()); cls("envf", lambda: F.Identity()); short(lambda e: e.filter(F.Identity()))
    elif name == "BatchUnbatch":
        b = f["size"]
        if f["join"] == "pipes": cls("envf", lambda: Pipes.join(F.Batch(b), F.Unbatch()))
        else:                    cls("envf", lambda: _Chain(F.Batch(b), F.Unbatch()))
        short(lambda e: e.batch(b).unbatch())
    return out

class _Chain:
    """plain function composition of two filters (no Pipes.join)"""
    def __init__(self, *fs): self.fs = fs
    def filter(self, items):
        for f in self.fs: items = f.filter(items)
        return items

class _SourceFailed(IOError):
    """raised by the harness's own source (a transient read error of whatever feeds the filter)"""

class _SourceCutKI(KeyboardInterrupt):
    """Ctrl-C arriving while the source is asked for an item"""
class _SourceCutExit(SystemExit):
    """sys.exit() (e.g. a signal handler's) arriving while the source is asked for an item"""
_CUTS = {"io": _SourceFailed, "keyboard": _SourceCutKI, "sysexit": _SourceCutExit}

class _FailingSource:
    """an iterable over `items` whose iteration raises _SourceFailed (or the BaseException asked for) when item number `at` is asked for (once)"""
    def __init__(self, items, at, kind, exc="io"):
        self.items, self.at, self.kind, self.failed = items, at, kind, False
        self._exc = _CUTS[exc]
    def __iter__(self):
        if self.kind == "generator": return self._gen()
        return self
    def _gen(self):
        for i, x in enumerate(self.items):
            if i == self.at and not self.failed: self.failed = True; raise self._exc("source failed")
            yield x
        if self.at >= len(self.items) and not self.failed: self.failed = True; raise self._exc("source failed")
    _i = 0
    def __next__(self):
        i = self._i; self._i += 1
        if i == self.at and not self.failed: self.failed = True; raise self._exc("source failed")
        if i >= len(self.items): raise StopIteration
        return self.items[i]

def _consume(f, runner, base, form):
    """drives one filter / pipeline instance the way the case asks and returns its complete reads (a list of outputs),
    every one of which has to be what the statement promises for `base`"""
    if f["name"] == "Cache" and f["reads"] != "once":
        # one Cache instance, several reads: every complete read must be the identity
        if f["reads"] == "twice":
            return [list(runner(base, form)), list(runner(base, form))]
        if f["reads"] == "interleaved":
            its, outs, done = {}, {}, set()
            def step(r):
                if r not in its: its[r] = iter(runner(base, form)); outs[r] = []
                try: outs[r].append(next(its[r]))
                except StopIteration: done.add(r)
            for r in f["schedule"]:
                if r not in done: step(r)
            for r in range(f["readers"]):
                while r not in done: step(r)
            return [outs[r] for r in range(f["readers"])]
        if f["reads"] == "failed":
            # the read during which the source fails is not judged (its input is not a finite sequence); the reads after
            # it are given the intact sequence
            try:
                for _ in runner(_FailingSource(base, f["fail_at"], f["source"], f.get("exc", "io")), form): pass
            except (_SourceFailed, _SourceCutKI, _SourceCutExit): pass
            return [list(runner(base, form)) for _ in range(f["after"])]
        it = iter(runner(base, form))
        for _ in range(f["k"]):
            try: next(it)
            except StopIteration: break
        if hasattr(it, "close"): it.close()
        return [list(runner(base, form))]
    return [list(runner(base, form))]

# ===================================================================================== the checker
def _judge(kind, U, k, got):
    """compares the produced uid sequence with the expectation; returns a failure mode or None
    (every element of `got` is already known to be the _uid of an input interaction)"""
    cg, cu = Counter(got), Counter(U)
    if kind == "exact":
        if got == U: return None
        if any(n > 1 for n in cg.values()): return "dup-item"
        if cg == cu: return "wrong-order"
        extra, lost = set(cg) - set(cu), set(cu) - set(cg)
        return "extra-item" if extra else "lost-item" if lost else "wrong-order"
    if kind == "perm":
        if cg == cu: return None
        if any(n > 1 for n in cg.values()): return "dup-item"
        return "lost-item"
    if kind == "subset":
        if any(n > 1 for n in cg.values()): return "dup-item"
        if len(got) < k: return "too-few"
        if len(got) > k: return "too-many"
        return None
    return None

def check_case(spec, ctx=None):
    env, f = spec["env"], spec["filter"]
    name = f["name"]; N = len(env["rows"])
    def note(n, k=1):
        if ctx: ctx.count(n, k)
    _quiet()
    pc = pclass(f, env)
    fails = {}                      # base signature -> {via: what}
    reason_now = [""]
    snap0 = [None]
    vias_run = set()
    def fail(via, mode, what, extra=""):
        p = pclass(f, env, reason_now[0]) if name in ("Where", "Sort") else pc
        # what a Cache makes of several readers / of a source that failed does not hinge on the size of its slices
        if name == "Cache" and f["reads"] in ("interleaved", "failed"):
            p = f"reads={f['reads']}" + (f"[cut-by={f['exc']}]" if f["reads"] == "failed" and f.get("exc", "io") != "io" else "")
        sig = f"{name}" + (f"/{p}" if p else "") + (f"/{extra}" if extra else "") + f"/mode={mode}"
        fails.setdefault(sig, {}).setdefault(via, what)

    # Finalize is not C09's subject: the finalized path is used only when Finalize alone neither raises nor
    # changes the uid sequence on this input (differential use)
    finalize_ok = None
    results = {}                    # (via, seed) -> first uid sequence (for cross-path determinism)
    for via, seed, build in plans(f):
        if via == "shortcut-finalized" or (via == "shortcut" and name == "Shuffle"):
            if finalize_ok is None: finalize_ok = _finalize_transparent(env)
            if not finalize_ok: note("via.shortcut-finalized.skipped"); continue
        vias_run.add(via)
        kind, U, k, reason = reference(f, env, seed)
        reason_now[0] = reason
        seeded = name in ("Shuffle", "Riffle", "Reservoir")
        runner = None
        for rep in (("A", "A", "B") if seeded else ("A",)):     # seeded: same instance twice, then a fresh instance
            base = build_env(env)
            # a fresh build is a pure function of the spec; the snapshot is taken from a build of its own so that
            # looking at the inputs does not load what they hold lazily before the filter sees them
            if snap0[0] is None: snap0[0] = [canon(i) for i in build_env(env)]
            snap = snap0[0]
            ids  = [id(i) for i in base]
            by_uid = {i["_uid"]: c for i, c in zip(base, snap)}
            try:
                if runner is None or rep == "B": runner = build()
                reads = _consume(f, runner, base, f["input"])
            except Exception as e:
                fail(via, f"raise:{type(e).__name__}", f"{via}: {type(e).__name__}: {e}", _where_tag(reason))
                break
            note(f"via.{via}"); note(f"input.{f['input']}")
            mixed_order = _mixed_order(base)
            if mixed_order: note("input.key-order.mixed")
            if env.get("schema", {}).get("plain") and N: note("input.plain-dicts")
            cwrap = env.get("schema", {}).get("cwrap") if N else None
            if cwrap: note(f"input.context-class.{cwrap}")
            # ---- inputs untouched
            note("oracle.input-snapshot")
            after = {}                 # id(input object) -> its canonical form after the run
            if len(base) != len(ids) or any(id(x) != y for x, y in zip(base, ids)):
                fail(via, "input-list-mutated", f"{via}: the input list was re-ordered / resized")
            else:
                for i, (x, c) in enumerate(zip(base, snap)):
                    c2 = after[id(x)] = canon(x)
                    if c2 != c:
                        fail(via, "input-interaction-mutated", f"{via}: input interaction #{i} changed in keys {_diff(c, c2)}"); break
            stop = False
            for ri, got_items in enumerate(reads):          # every complete read of the instance is judged
                which = f" [read #{ri + 1} of {len(reads)}, reads={f.get('reads')}]" if len(reads) > 1 else ""
                # ---- outputs are input interactions with unchanged content
                got, bad = [], False
                for o in got_items:
                    if not isinstance(o, dict) or "_uid" not in o or o["_uid"] not in by_uid:
                        fail(via, "foreign-item", f"{via}: output item is not an input interaction: {repr(o)[:200]}"); bad = True; break
                    got.append(o["_uid"])
                    if not getattr(runner, "finalized", False):
                        note("oracle.content-preserved")
                        co = after.get(id(o)) or canon(o)      # an output that IS an input object was canonicalised just above
                        if co != by_uid[o["_uid"]]:
                            fail(via, "content-altered", f"{via}: interaction _uid={o['_uid']} differs in keys {_diff(co, by_uid[o['_uid']])}: "
                                                         f"{ {k: co.get(k) for k in _diff(co, by_uid[o['_uid']])} } vs input"); bad = True; break
                if bad: stop = True; break
                # ---- the promised selection / order
                note(f"oracle.{name}")
                if mixed_order: note(f"oracle.{name}.mixed-key-order")
                if name == "BatchUnbatch" and mixed_order and f["size"]: note("oracle.BatchUnbatch.batched.mixed-key-order")
                if f.get("seedclass") in ("u0", "umax"): note("oracle.seed.adversarial")
                if name == "Reservoir" and kind == "subset" and N > k:
                    note("oracle.Reservoir.algorithm-L-entered")
                    # reach monitor (never a violation): some sample must consist only of items that arrived after the
                    # reservoir was first filled, i.e. every initial member can be replaced.  A sampler that can never
                    # replace one of its slots still satisfies the statement, but leaves this counter at 0 -> INCONCLUSIVE.
                    if k >= 2 and got and not (set(got) & set(U[:k])): note("reach.Reservoir.all-initial-members-replaced")
                if name == "Where":
                    note("oracle.Where.drop" if reason.startswith("drop") else "oracle.Where.pass" if reason.startswith("pass") else "oracle.Where.other")
                if name == "Sort" and reason == "ties": note("oracle.Sort.ties")
                if name == "Sort" and cwrap and kind == "exact": note("oracle.Sort.context-class")
                if name == "Where" and N and f["n_features"] is not None and reason != "n_features-not-uniform":
                    if cwrap: note(f"oracle.Where.n_features.context-class.{cwrap}")
                    if _string_scalar(env): note("oracle.Where.n_features.string-scalar")
                if name == "Cache": note(f"oracle.Cache.reads.{f['reads']}")
                if kind == "unspecified":
                    # the statement does not fix the feature count here: all-or-nothing is still promised
                    alo, ahi = _bounds(f["n_actions"])
                    keep = [r["u"] for r in env["rows"] if f["n_actions"] is None or _inside(len(r["a"]), alo, ahi)]
                    if got and got != keep: fail(via, "partial-drop", f"{via}: got {got}, neither nothing nor {keep}", _where_tag(reason))
                else:
                    mode = _judge(kind, U, k, got)
                    if mode and name == "Where" and reason.startswith("pass"):
                        env_level = f["n_interactions"] is not None or f["n_features"] is not None
                        reason_now[0], mode = ("pass-but-dropped", "dropped-entirely") if not got and env_level else ("pass-wrong-selection", mode)
                    if mode:
                        fail(via, mode, f"{via}: expected {kind} {('of size %d from ' % k) if kind == 'subset' else ''}{U}, got {got}" +
                             (f" [{reason}]" if reason else "") + which, _where_tag(reason))
                        stop = True; break
            if stop: break
            # ---- one seed, one answer
            if seeded:
                prev = results.setdefault((_det_group(via), repr(seed)), got)
                note("oracle.determinism")
                if prev != got:
                    fail(via, "nondeterministic", f"{via}: seed {seed} gave {prev} and then {got}")
                    break
    if ctx:
        ctx.case((name, pc, _len_class(N), env["kind"], env["ctx"]), nontrivial=N >= 2)
    out = []
    # mechanism minimisation: a failure that also happens with the plain seed 1 is not about the special seed
    plain = None
    if fails and f.get("seedclass", "plain") != "plain" and not spec.get("_noshrink"):
        plain = {s_ for s_, _ in check_case({"env": env, "filter": dict(f, seed=1, seedclass="plain", role=None), "_noshrink": True})}
    # ... and a failure that does not happen when the very same interactions are assembled the ordinary way (constructor
    # key order, Interaction subclasses) is about how the interactions were assembled
    attribute = None
    if fails and _special_assembly(env) and not spec.get("_noshrink") and not spec.get("_noassembly"):
        attribute = _attribute_assembly([env], lambda es: {s_ for s_, _ in check_case({"env": es[0], "filter": f, "_noassembly": True})})
    all_vias = vias_run
    for sig, per_via in fails.items():
        vs = sorted(per_via)
        suffix = "" if set(vs) >= {v for v in all_vias if v != "shortcut-finalized"} or len(all_vias) <= 1 else "/via=" + "+".join(vs)
        full = sig + suffix
        if plain is not None:
            stripped = "/".join(p_ for p_ in full.split("/") if not p_.startswith("seed="))
            if stripped in plain: full = stripped
        tag = attribute(full, env) if attribute else None
        if tag: full = _assembly_sig(full, tag)
        out.append((full, "; ".join(per_via[v] for v in vs)[:1500]))
    seen = set()
    return [x for x in out if not (x[0] in seen or seen.add(x[0]))]

# ===================================================================================== collections of environments
def check_collection(spec, ctx=None):
    """ONE Environments.<f>() call over two or three DIFFERENT environments; the resulting environments are read in the
    spec's order (sequential rounds in permuted orders, item-by-item interleaved rounds, abandoned partial reads), every
    one more than once.  Each complete read is judged against the reference model of ITS OWN input: an environment
    must come out the same whether it is read first, after a sibling, again, or side by side with its siblings."""
    envs, f, rounds = spec["envs"], spec["filter"], spec["rounds"]
    name = f["name"]
    def note(n, k=1):
        if ctx: ctx.count(n, k)
    _quiet()
    from coba.environments import Environments
    from coba.environments.filters import BatchSafe, Finalize
    seeded = name in ("Shuffle", "Riffle", "Reservoir")
    seeds = _shortcut_seeds(f)
    keys = [(j, s) for j in range(len(envs)) for s in seeds]
    finalized = bool(spec.get("finalized"))
    key_now = (name, "collection", len(envs), tuple(r["mode"] for r in rounds), bool(spec.get("mixed")), len(seeds) > 1,
               "" if name in ("Cache", "Chunk") else pclass(f, envs[0]))
    nontrivial = sum(1 for e in envs if len(e["rows"]) >= 1) >= 2
    if not all(_finalize_transparent(e) for e in envs):      # Finalize is not C09's subject (see check_case)
        if name == "Shuffle":                                # Environments.shuffle always hands out finalized pipelines
            note("collection.skipped-finalize-not-transparent")
            if ctx: ctx.case(key_now + ("skipped",), nontrivial=False)
            return []
        finalized = False
    fails = {}                    # (src, parameter class, when, expectation tag, mode) -> what
    def fail(j, when, mode, what, reason=""):
        pc = "" if name in ("Cache", "Chunk") or j is None else pclass(f, envs[j], reason)
        pc = "/".join(x for x in pc.split("/") if x and not x.startswith("seed="))
        fails.setdefault((j, pc, when, _where_tag(reason), mode), what)

    bases  = [build_env(e) for e in envs]
    snaps  = [[canon(i) for i in build_env(e)] for e in envs]      # from builds of their own: nothing lazy is loaded in `bases`
    ids    = [[id(i) for i in b] for b in bases]
    by_uid = [{i["_uid"]: c for i, c in zip(b, sn)} for b, sn in zip(bases, snaps)]
    owner  = {u: j for j, d in enumerate(by_uid) for u in d}
    cells  = [{"items": b, "form": f["input"]} for b in bases]
    pl = plans(f)
    mk = next(b.mk for via, _, b in pl if via == "shortcut")
    fresh_build = {}
    for via, seed, b in pl:
        if via == "envf": fresh_build.setdefault(repr(seed), b)

    def finish():
        if ctx: ctx.case(key_now, nontrivial=nontrivial)
        # mechanism minimisation: a failure that is gone when the same interactions are assembled the ordinary way
        attribute = None
        if fails and any(_special_assembly(e) for e in envs) and not spec.get("_alone") and not spec.get("_noassembly"):
            attribute = _attribute_assembly(envs, lambda es: {s_ for s_, _ in check_collection(dict(spec, envs=es, _noassembly=True))})
        # mechanism minimisation: an environment that is fine when it is the ONLY member of the collection (same reads)
        # fails because of its siblings -- then the position of the failing read is not part of the mechanism
        alone_ok = {}
        if fails and not spec.get("_alone") and len(envs) > 1:
            for j in {k_[0] for k_ in fails if k_[0] is not None}:
                ns = len(seeds)
                solo = dict(spec, envs=[envs[j]], _alone=True, _noassembly=True,
                            rounds=[dict(r, perm=[i % ns for i in r["perm"] if i // ns == j]) for r in rounds])
                try:    alone_ok[j] = not check_collection(solo)
                except Exception: alone_ok[j] = False
        out = {}
        for (j, pc, when, tag, mode), what in fails.items():
            if alone_ok.get(j): when = "only-with-siblings"
            sig = name + (f"/{pc}" if pc else "") + "/collection" + (f"/{when}" if when else "") + (f"/{tag}" if tag else "") + f"/mode={mode}"
            tag = attribute(sig, envs[j]) if attribute and j is not None else None
            if tag: sig = _assembly_sig(sig, tag, "/collection")
            out.setdefault(sig, what[:1500])
        return list(out.items())

    # ---- one shortcut call over the whole collection
    try:
        made  = mk(Environments([_cell_env(c, {"src": j}) for j, c in enumerate(cells)]))
        pipes = list(made) if finalized else list(made._envs)
        table = {}
        for p in pipes:
            prm = p.params
            j = prm.get("src")
            if len(seeds) == 1: s = seeds[0]
            else:
                ps = prm.get("shuffle_seed", prm.get("reservoir_seed"))
                s = next((x for x in seeds if x == ps), ("?", repr(ps)))
            if (j, s) in table or (j, s) not in keys: raise AssertionError(f"unexpected / repeated environment (src={j}, seed={s})")
            table[(j, s)] = p
        if len(table) != len(keys): raise AssertionError(f"shortcut produced {len(table)} environments instead of {len(keys)}")
    except Exception as e:
        fail(None, "build", f"raise:{type(e).__name__}", f"{type(e).__name__}: {e}")
        return finish()
    note("collection.finalized" if finalized else "collection.raw")
    if any(_mixed_order(b) for b in bases): note("collection.mixed-key-order")
    if spec.get("mixed"): note("collection.mixed-schema")
    is_fin = {k: any(isinstance(x, BatchSafe) and isinstance(x._filter, Finalize) for x in p) for k, p in table.items()}

    expected_same = {}           # (src, seed) -> uid sequence the seed has to reproduce
    def seed_answer(key):
        if key not in expected_same:
            j, s = key
            try:    expected_same[key] = [o["_uid"] for o in fresh_build[repr(s)]()(build_env(envs[j]), "list")]
            except Exception: expected_same[key] = None      # the single-environment cases report that
        return expected_same[key]

    def judge(key, items, when):
        j, s = key
        kind, U, k, reason = reference(f, envs[j], s)
        tag = f"environment #{j}" + (f" seed {s}" if s is not None else "") + f" ({when})"
        got = []
        for o in items:
            u = o.get("_uid") if isinstance(o, dict) else None
            if u is None or u not in owner:
                fail(j, when, "foreign-item", f"{tag}: output item is not an input interaction: {repr(o)[:200]}"); return
            if owner[u] != j:
                fail(j, when, "sibling-environment-item", f"{tag}: the output holds interaction _uid={u} of environment #{owner[u]}; "
                     f"own input {U}, output uids {[x.get('_uid') for x in items if isinstance(x, dict)][:40]}"); return
            got.append(u)
            if not is_fin[key]:
                note("oracle.content-preserved")
                co = canon(o)
                if co != by_uid[j][u]:
                    fail(j, when, "content-altered", f"{tag}: interaction _uid={u} differs in keys {_diff(co, by_uid[j][u])}"); return
        note("oracle.collection"); note(f"oracle.collection.{name}"); note(f"collection.{when}")
        if kind == "unspecified":
            alo, ahi = _bounds(f["n_actions"])
            keep = [r["u"] for r in envs[j]["rows"] if f["n_actions"] is None or _inside(len(r["a"]), alo, ahi)]
            if got and got != keep: fail(j, when, "partial-drop", f"{tag}: got {got}, neither nothing nor {keep}", reason)
            return
        mode = _judge(kind, U, k, got)
        if mode and name == "Where" and reason.startswith("pass"):
            env_level = f["n_interactions"] is not None or f["n_features"] is not None
            reason, mode = ("pass-but-dropped", "dropped-entirely") if not got and env_level else ("pass-wrong-selection", mode)
        if mode:
            fail(j, when, mode, f"{tag}: expected {kind} {('of size %d from ' % k) if kind == 'subset' else ''}{U}, got {got}" +
                 (f" [{reason}]" if reason else ""), reason)
            return
        if seeded:
            want = seed_answer(key)
            if want is not None:
                note("oracle.determinism")
                if want != got: fail(j, when, "nondeterministic", f"{tag}: a fresh filter with this seed gives {want} on this input, the collection gave {got}")

    # ---- the reads
    started = set(); any_read = False
    def when_of(key): return "first-read" if not any_read else "re-read" if key in started else "after-sibling"
    for rd in rounds:
        order = [keys[i] for i in rd["perm"]]
        note(f"collection.round.{rd['mode']}")
        if rd["mode"] == "seq":
            for key in order:
                when = when_of(key)
                try:    items = list(table[key].read())
                except Exception as e:
                    fail(key[0], when, f"raise:{type(e).__name__}", f"environment #{key[0]} ({when}): {type(e).__name__}: {e}"); items = None
                any_read = True; started.add(key)
                if items is not None: judge(key, items, when)
        elif rd["mode"] == "partial":
            for key in order:
                when = when_of(key)
                try:
                    it = iter(table[key].read())
                    for _ in range(rd["k"]):
                        try: next(it)
                        except StopIteration: break
                    if hasattr(it, "close"): it.close()
                except Exception as e:
                    fail(key[0], when, f"raise:{type(e).__name__}", f"environment #{key[0]} (abandoned read, {when}): {type(e).__name__}: {e}")
                any_read = True; started.add(key)
        else:
            its, outs = {}, {}
            for key in order:
                try:    its[key] = iter(table[key].read()); outs[key] = []
                except Exception as e:
                    fail(key[0], "interleaved", f"raise:{type(e).__name__}", f"environment #{key[0]} (interleaved): {type(e).__name__}: {e}")
            live = [k_ for k_ in order if k_ in its]
            while live:
                for key in list(live):
                    try: outs[key].append(next(its[key]))
                    except StopIteration: live.remove(key)
                    except Exception as e:
                        fail(key[0], "interleaved", f"raise:{type(e).__name__}", f"environment #{key[0]} (interleaved): {type(e).__name__}: {e}")
                        live.remove(key); outs.pop(key)
            any_read = True; started.update(its)
            for key in order:
                if key in outs: judge(key, outs[key], "interleaved")

    # ---- inputs untouched
    for j, (b, sn, idl) in enumerate(zip(bases, snaps, ids)):
        note("oracle.input-snapshot")
        if cells[j]["items"] is not b or len(b) != len(idl) or any(id(x) != y for x, y in zip(b, idl)):
            fail(j, "", "input-list-mutated", f"environment #{j}: the input list was re-ordered / resized")
        else:
            for i, (x, c) in enumerate(zip(b, sn)):
                c2 = canon(x)
                if c2 != c:
                    fail(j, "", "input-interaction-mutated", f"environment #{j}: input interaction #{i} changed in keys {_diff(c, c2)}"); break
    return finish()

def _det_group(via):
    # the environments.filters class and both shortcut pipelines hold the same filter class: same seed, same answer.
    # (pipes.Shuffle and environments.filters.Shuffle are different filters for logged data: not compared.)
    return "pipes" if via == "pipes" else "envf"

def _where_tag(reason):
    return f"expect={reason}" if reason and (reason.startswith("drop") or reason in ("strict-short", "n_features-not-uniform")) else ""

_FIN = {}
def _finalize_transparent(env):
    from coba.environments.filters import BatchSafe, Finalize
    try:
        base = build_env(env)
        out = list(BatchSafe(Finalize()).filter(base))
        return [o.get("_uid") for o in out] == [i["_uid"] for i in base]
    except Exception:
        return False

_Q = {}
def _quiet():
    if _Q: return
    from coba.context import CobaContext, NullLogger
    CobaContext.logger = NullLogger()
    import warnings; warnings.simplefilter("ignore")
    _Q["done"] = True

# ===================================================================================== entry points
def run_shard(ctx):
    _quiet()
    i = 0; ncoll = 0; sampled_coll = False
    while i < ctx.n and ctx.time_left() > 0:
        env = gen_env(ctx.rng)
        for _ in range(4):                     # four filter configurations per generated environment
            if i >= ctx.n: break
            spec = {"env": env, "filter": gen_filter(ctx.rng, env)}
            try:
                v = check_case(spec, ctx)
            except Exception as e:             # a crash of the harness itself must not pass silently
                import traceback
                ctx.note_inconclusive(f"harness-exception {type(e).__name__}: {e} :: {traceback.format_exc()[-800:]} :: {spec['filter']}")
                v = []
            if i < 3: ctx.sample({"filter": spec["filter"], "kind": env["kind"], "ctx": env["ctx"], "n": len(env["rows"]), "first_rows": env["rows"][:2]})
            for sig, what in v: ctx.violation(sig, what, spec)
            i += 1
        if i < ctx.n:                          # ... and one collection of environments built around it
            spec = gen_collection(ctx.rng, env)
            try:
                v = check_collection(spec, ctx)
            except Exception as e:
                import traceback
                ctx.note_inconclusive(f"harness-exception {type(e).__name__}: {e} :: {traceback.format_exc()[-800:]} :: collection {spec['filter']}")
                v = []
            if not sampled_coll:
                sampled_coll = True
                ctx.sample({"collection": [len(e["rows"]) for e in spec["envs"]], "filter": spec["filter"], "rounds": spec["rounds"],
                            "finalized": spec["finalized"], "mixed": spec["mixed"]})
            for sig, what in v: ctx.violation(sig, what, spec)
            i += 1; ncoll += 1
    ctx.count("cases", i); ctx.count("cases.collection", ncoll)
    if i < ctx.n: ctx.extra["cases_skipped_for_time"] = ctx.n - i

def replay(witness):
    return check_collection(witness) if "envs" in witness else check_case(witness)
