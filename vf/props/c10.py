"""C10 -- Changing representation never changes which action earns which reward.

Relational postcondition on every output interaction of every prefix of a generated chain of representation
filters (Repr, Flatten, Sparsify, Densify, Noise on actions/context, Batch, Unbatch, Finalize, and the
Environments shortcuts that create them):

    [R(a) for a in actions]  before   ==   [R'(a') for a' in actions']  after        (same for feedbacks)

with list rewards compared positionally and reward functions evaluated on the *new* actions; for logged
interactions the index of the logged action inside the action set is preserved and the logged
reward/probability are unchanged.  The "before" side is always computed on a freshly built, untouched copy of
the generated interactions, so a filter that mutates its input cannot corrupt the oracle.

About a quarter of the cases are *collections*: two or three different environments (other feature names, levels,
action kinds, sizes) inside one Environments object, every shortcut called once for all of them, the resulting
environments read in a generated order (each at least once, some again; raw, through [] or by iteration, i.e. with the
automatic Finalize; one after the other or interleaved).  Every read is judged on its own by the same relation against
the untouched interactions of the environment it came from, so anything a shortcut lets one environment's data do to
another environment's actions/rewards (shared filter objects, tables, generators) is seen.  Densify(method='lookup')
is given the smallest n_feats for which every single environment is inside its documented no-collision regime.

Interactions are dicts and nothing else is promised about them: in most environments the generated interactions carry the
same keys in DIFFERENT insertion orders (per interaction; see gen_layout) and some are plain dicts instead of Interaction
objects.  The oracle reads every field by name on both sides, so a filter which files a value under a key by its position
(transposing .values(), zipping against the first interaction's key list, ...) is seen as the wrong reward / feedback /
logged reward / probability for an action.  For the signature only, a violating case is re-run with the constructors'
layout: if it then holds the signature says .../interactions:keys-in-different-orders (or keys-not-in-constructor-order,
plain-dict).
"""
from collections import Counter
import re

ID    = "C10"
LEVEL = "exploration"
RULE  = ("a case is one seeded environment (interaction kind x action kind x reward kind x feedback kind x "
         "constant/varying action sets, 1-5 interactions, 1-5 distinct actions) pushed through a chain of 1-4 "
         "representation filters (Repr 4x4, Flatten, Sparsify/Densify flags+method, action/context Noise, "
         "Batch/Unbatch, Finalize; as filter objects or as Environments shortcuts); the oracle is evaluated after "
         "every prefix of the chain; distinct & non-trivial = distinct (interaction kind, action kind, reward "
         "kind, feedback kind, variation, via, filter-prefix with parameters) whose prefix really changed the "
         "representation of the actions or rebuilt the reward object; ~28% of the cases are collections of 2-3 such "
         "environments (own or overlapping feature names / levels) in one Environments object, the chain applied through "
         "the shortcuts only, read in a generated order (again / raw / [] / iteration / interleaved), each read judged "
         "against its own environment; distinct = distinct (member kinds, chain, read modes); in ~64% of the environments the "
         "interactions do not list their keys in the constructors' insertion order (every interaction an order of its own / one "
         "interaction differs / two keys exchanged in some / one other order for all) and ~30% are handed over as plain dicts; "
         "the key-order mode and plain/Interaction are part of the distinctness key; "
         "a BinaryReward may reward an action of the same structure that the interaction does not offer (every offered action earns 0); "
         "over lazy dense rows 3/4 of the environments key their reward/feedback functions (and, for rows without headers, give the "
         "logged action) by the equal tuples or lists instead of lazy rows, and 35% of the logs over plain dense vectors give the logged "
         "action as a lazy row")
PLAN  = {"quick":    {"shards": 16, "cases": 32000,   "timeout": 600,  "budget_s": 75},
         "thorough": {"shards": 16, "cases": 1200000, "timeout": 3000, "budget_s": 780}}
REQUIRED = ["oracle.vector.rewards.function", "oracle.vector.rewards.list", "oracle.vector.feedbacks",
            "oracle.logged.index", "oracle.logged.reward_probability", "oracle.batch.callable_column",
            "oracle.continuous.probe", "oracle.representation.consistent", "oracle.shortcuts.finalized", "oracle.composed==stepwise",
            "oracle.collection.read", "oracle.collection.read.first", "oracle.collection.read.after-another", "oracle.collection.read.again",
            "oracle.collection.read.interleaved", "oracle.collection.read.raw", "oracle.collection.read.fin", "oracle.collection.read.iter",
            "oracle.collection.lookup_shared_table_would_overflow",
            "oracle.keyorder.mixed.Repr", "oracle.keyorder.mixed.Flatten", "oracle.keyorder.mixed.Sparsify", "oracle.keyorder.mixed.Densify",
            "oracle.keyorder.mixed.Noise", "oracle.keyorder.mixed.Batch", "oracle.keyorder.mixed.Unbatch", "oracle.keyorder.mixed.Finalize",
            "oracle.keyorder.mixed.shortcuts-finalized", "oracle.keyorder.mixed.collection-read", "oracle.keyorder.non-constructor",
            "layout.plain-dict",
            "changed.Repr", "changed.Flatten", "changed.Sparsify", "changed.Densify", "changed.Noise",
            "changed.Finalize", "changed.Batch",
            "oracle.tuple-keyed-function.lazy-dense-actions.Finalize", "oracle.tuple-logged-action.lazy-dense-actions.Finalize",
            "oracle.lazy-dense-logged-action.plain-actions.Finalize",
            "oracle.binary-argmax-not-offered.Repr", "oracle.binary-argmax-not-offered.Finalize"]
ASSUMPTIONS = [
    "one action type per environment: every interaction of an environment spells its actions with the same kind of value (all plain strings, "
    "or all Categoricals, ...); streams that change the kind part-way (round-6 seed C10-11 needs one) are not generated -- the 'one action, one "
    "representation' oracle compares by ==, under which a Categorical equals its string",
    "only action/context noise is configured (reward noise changes rewards by design); Cycle and Binary are not part of the property",
    "an interaction whose actions collide into equal values right after hashing Densify(action=True) or action Noise is discarded (counted in discarded.collision): the i-th action is then ill-defined for a reward function; after Densify(method='lookup') this is excused only when the environment itself presented more feature names than n_feats (counted in skipped.lookup_overfull)",
    "Densify(method='lookup') is given n_feats >= the number of distinct feature names of every single environment (its documented no-collision regime; n_feats is per environment, as Environments.dense documents)",
    "in a collection an environment is judged only if the same chain, as fresh filter objects over that environment alone, ran and held; action noise in collections is gaussian, so that two noisy actions coincide with probability 0 whatever the realisation",
    "which source environment a read belongs to is taken from the 'id' entry of the pipeline's params",
    "action sets hold distinct actions of one homogeneous structure (same length, nested/categorical entries at the same positions), the regime Flatten and Repr document; Sparsify is not combined with empty (continuous) action sets",
    "reward functions are compared only where the original function is defined on the original action (e.g. HammingReward on a non-iterable action raises before any filter and is skipped, counted in skipped.undefined_before)",
    "membership of the logged action in the new action set is Python equality, the relation coba's own reward classes use",
    "a reward function / logged action may hold an action as another container (tuple, list, lazy row) than the action set does only where the two are equal under Python == before any filter ran (lazy rows equal lists and tuples of their values; a list never equals a tuple, so plain vectors are always keyed by their own type); a tuple/list stands for a lazy row as the logged action only when the rows carry no headers",
    "over one environment a deterministic filter (everything but action Noise and hashing Densify) must re-represent equal actions equally and different actions differently; this is what makes 'the i-th action' the same action before and after",
    "all interactions of one environment carry the same key set (only the insertion order varies, and dict vs Interaction subclass); keys are always looked up by name by the oracle",
    "for an empty (continuous) action set the i-th action is a numeric probe: R'(p) == R(p) for three probe values",
]

CATS = [None, "onehot", "onehot_tuple", "string"]

# ------------------------------------------------------------------------------------------ value codec
def dec(v):
    """spec value -> coba value (fresh objects every call)"""
    from coba.primitives import Categorical
    from coba.pipes.rows import LazyDense, HeadDense, LazySparse
    if isinstance(v, dict):
        if "c" in v:  return Categorical(v["c"], list(v["L"]))
        if "t" in v:  return tuple(dec(x) for x in v["t"])
        if "l" in v:  return [dec(x) for x in v["l"]]
        if "d" in v:  return {k: dec(x) for k, x in v["d"].items()}
        if "ld" in v:
            row = [dec(x) for x in v["ld"]]
            return LazyDense(row, None, {h: i for i, h in enumerate(v["h"])}) if v.get("h") else LazyDense((lambda r=row: r))
        if "hd" in v: return HeadDense([dec(x) for x in v["hd"]], {h: i for i, h in enumerate(v["h"])})
        if "ls" in v: return LazySparse({k: dec(x) for k, x in v["ls"].items()})
        raise ValueError(v)
    return v

def canon(v):
    """materialised, hashable, container-type-sensitive form (used for 'did the representation change' and for the
    composed-vs-stepwise differential, never for the property itself)"""
    from coba.primitives import Categorical, Dense, Sparse
    if isinstance(v, Categorical): return ("cat", str(v), tuple(map(str, v.levels)))
    if isinstance(v, (str, bytes)) or v is None: return ("s", v)
    if isinstance(v, bool): return ("b", v)
    if isinstance(v, (int, float)): return ("n", float(v))
    if isinstance(v, dict): return ("dict", tuple(sorted((str(k), canon(x)) for k, x in v.items())))
    if isinstance(v, tuple): return ("tuple", tuple(canon(x) for x in v))
    if isinstance(v, list): return ("list", tuple(canon(x) for x in v))
    if isinstance(v, Sparse): return ("sparse", tuple(sorted((str(k), canon(x)) for k, x in v.items())))
    if isinstance(v, Dense):
        try: return ("dense", tuple(canon(x) for x in v))
        except IndexError: return ("s", f"all-zero-dense-{len(v)}")      # SparseDense without a stored value cannot be iterated
    return ("o", repr(v))

def aform(a):
    from coba.primitives import Categorical, Dense, Sparse
    if isinstance(a, Categorical): return "categorical"
    if isinstance(a, str): return "string"
    if isinstance(a, (int, float)): return "number"
    if isinstance(a, (list, tuple)): return "dense"
    if isinstance(a, dict): return "sparse"
    if isinstance(a, Sparse): return "lazy-sparse"
    if isinstance(a, Dense): return "lazy-dense"
    return type(a).__name__

# ------------------------------------------------------------------------------------------ reward objects
class TableReward:
    """an 'arbitrary callable': looks the action up by equality among the actions it was built with"""
    def __init__(self, actions, values, default=-99):
        self._a, self._v, self._d = actions, values, default
    def __call__(self, action):
        for a, v in zip(self._a, self._v):
            if a == action: return v
        return self._d
    def __repr__(self): return f"TableReward({self._a},{self._v})"

def noise_fn(x, rng):
    return x + 10 + rng.randint(0, 3)

def build_reward(rs, actions):
    """rs: reward spec of one interaction, actions: the decoded actions of that interaction"""
    from coba.primitives import BinaryReward, DiscreteReward, HammingReward, L1Reward
    k = rs["k"]
    if k == "list":     return list(rs["v"])
    if k == "binary":   return BinaryReward(actions[rs["i"]], rs["val"]) if rs["val"] != 1 else BinaryReward(actions[rs["i"]])
    if k == "binary-absent":       # the rewarded action is not among the offered ones: every offered action earns 0
        return BinaryReward(dec(rs["a"]), rs["val"]) if rs["val"] != 1 else BinaryReward(dec(rs["a"]))
    if k == "discrete-pair":      return DiscreteReward(list(actions), list(rs["v"]))
    if k == "discrete-pair-perm": return DiscreteReward([actions[i] for i in rs["o"]], [rs["v"][i] for i in rs["o"]])
    if k == "discrete-map":       return DiscreteReward({actions[i]: rs["v"][i] for i in rs["o"]})
    if k == "discrete-subset":    return DiscreteReward([actions[i] for i in rs["o"]], [rs["v"][i] for i in rs["o"]], default=rs["dflt"])
    if k == "hamming":  return HammingReward([actions[i] for i in rs["o"]])
    if k == "l1":       return L1Reward(rs["am"])
    if k == "callable": return TableReward(list(actions), list(rs["v"]))
    raise ValueError(k)

# ------------------------------------------------------------------------------------------ generators
NUMS = [1, 2, 3, 0.5, -1, 0.25, 4, 7]
RVALS = [0, 1, 2, 3, 0.5, -1, 0.25, 5, 9]

def _num(rng, zero_ok=True):
    return rng.choice(NUMS + ([0, 0] if zero_ok else []))

def _pool(base, ns):
    """feature names / levels of the ns-th environment of a collection (ns=0: the plain names)"""
    return list(base) if not ns else [f"{b}{ns}" for b in base]

def gen_shape(rng, akind, ns=0):
    """the structural parameters all actions of one environment share"""
    sh = {"akind": akind}
    if akind == "cat":
        sh["L"] = rng.sample(_pool(["a", "b", "c", "d", "e"], ns), rng.randint(2, 5))
    elif akind in ("dense", "lazy_dense"):
        sh["d"] = rng.randint(1, 3) if akind == "dense" else rng.randint(2, 3)
        sh["cont"] = rng.choice(["l", "t"])
        if akind == "lazy_dense":
            sh["wrap"] = rng.choice(["ld", "ld", "hd", "ld0"])
            sh["h"] = ["x", "y", "z"][:sh["d"]]
    elif akind == "dense_cat":
        sh["d"] = rng.randint(2, 3); sh["cont"] = rng.choice(["l", "t"])
        sh["L"] = rng.sample(_pool(["a", "b", "c", "d"], ns), rng.randint(2, 4))
        sh["p"] = sorted(rng.sample(range(sh["d"]), rng.choice([1, 1, 2])))
    elif akind == "nested":
        sh["d"] = rng.randint(2, 3); sh["cont"] = rng.choice(["l", "t"])
        sh["p"] = rng.randrange(sh["d"]); sh["icont"] = rng.choice(["l", "t"])
        sh["icat"] = rng.random() < .25
        sh["L"] = rng.sample(_pool(["a", "b", "c", "d"], ns), 3)
    elif akind in ("sparse", "lazy_sparse"):
        sh["keys"] = rng.sample(_pool(["x", "y", "z", "w", "u"], ns), rng.randint(2, 4))
    elif akind == "sparse_ind":
        sh["keys"] = rng.sample(_pool(["x", "y", "z", "w", "u", "v"], ns), rng.randint(2, 6)); sh["lazy"] = rng.random() < .25
    elif akind == "sparse_cat":
        sh["keys"] = rng.sample(_pool(["x", "y", "z"], ns), rng.randint(1, 2)); sh["L"] = rng.sample(_pool(["a", "b", "c", "d"], ns), rng.randint(2, 4))
    elif akind == "sparse_nested":
        sh["keys"] = rng.sample(_pool(["x", "y", "z"], ns), rng.randint(1, 2))
    elif akind == "onehot":
        sh["N"] = rng.randint(2, 5)
    return sh

def gen_one_action(rng, sh):
    k = sh["akind"]
    if k == "int":    return rng.randint(0, 8)
    if k == "float":  return rng.choice([0.0, 0.25, 0.5, 0.75, 1.0, 2.5, -1.5, 0.1])
    if k == "str":    return rng.choice(["a", "b", "c", "d", "ab", "x y", "é", "B"])
    if k == "cat":    return {"c": rng.choice(sh["L"]), "L": sh["L"]}
    if k == "onehot":
        i = rng.randrange(sh["N"]); return {"t": [int(j == i) for j in range(sh["N"])]}
    if k in ("dense", "lazy_dense"):
        vals = [_num(rng) for _ in range(sh["d"])]
        if k == "dense": return {sh["cont"]: vals}
        w = sh["wrap"]
        if w == "ld":  return {"ld": vals, "h": sh["h"]}
        if w == "ld0": return {"ld": vals, "h": None}
        return {"hd": vals, "h": sh["h"]}
    if k == "dense_cat":
        return {sh["cont"]: [({"c": rng.choice(sh["L"]), "L": sh["L"]} if i in sh["p"] else _num(rng)) for i in range(sh["d"])]}
    if k == "nested":
        def inner():
            if sh["icat"]: return {sh["icont"]: [{"c": rng.choice(sh["L"]), "L": sh["L"]}, _num(rng, False)]}
            return {sh["icont"]: [_num(rng, False), _num(rng, False)]}
        return {sh["cont"]: [(inner() if i == sh["p"] else _num(rng)) for i in range(sh["d"])]}
    if k in ("sparse", "lazy_sparse"):
        ks = [x for x in sh["keys"] if rng.random() < .6] or [rng.choice(sh["keys"])]
        d = {x: _num(rng, False) for x in ks}
        return {"d": d} if k == "sparse" else {"ls": d}
    if k == "sparse_ind":
        # an indicator action: one (environment specific) feature per action, the usual shape of a sparse action id
        d = {rng.choice(sh["keys"]): 1}
        return {"ls": d} if sh["lazy"] else {"d": d}
    if k == "sparse_cat":
        d = {x: _num(rng, False) for x in sh["keys"] if rng.random() < .6}
        d["k"] = {"c": rng.choice(sh["L"]), "L": sh["L"]}
        return {"d": d}
    if k == "sparse_nested":
        d = {x: _num(rng, False) for x in sh["keys"] if rng.random() < .6}
        d["v"] = {"l": [_num(rng, False), _num(rng, False)]}
        return {"d": d}
    raise ValueError(k)

def gen_action_set(rng, sh, n):
    out, seen = [], set()
    for _ in range(60):
        a = gen_one_action(rng, sh)
        c = canon_eq(dec(a))
        if c in seen: continue
        seen.add(c); out.append(a)
        if len(out) == n: break
    return out

def canon_eq(v):
    """container-type-insensitive, number-normalised form: two generated actions with the same canon_eq are
    (or may be) equal under Python == and are never put into one action set"""
    c = canon(v)
    def strip(c):
        tag, x = c[0], c[1]
        if tag in ("list", "tuple", "dense"): return ("seq", tuple(strip(y) for y in x))
        if tag in ("dict", "sparse"): return ("map", tuple((k, strip(y)) for k, y in x))
        if tag == "cat": return ("s", x)
        if tag == "b": return ("n", float(x))
        return c
    return strip(c)

AKINDS = ["int", "float", "str", "cat", "cat", "onehot", "dense", "dense_cat", "dense_cat", "nested", "nested", "sparse",
          "sparse_cat", "sparse_nested", "lazy_dense", "lazy_sparse", "sparse_ind"]
# collections of environments: the kinds whose representation is keyed by names / levels are drawn more often
AKINDS_COLL = ["sparse_ind", "sparse_ind", "sparse_ind", "sparse", "sparse", "lazy_sparse", "sparse_cat", "cat", "cat", "dense_cat",
               "onehot", "str", "dense", "int", "nested", "lazy_dense", "sparse_nested"]
HASHABLE = {"int", "float", "str", "cat", "onehot"}

def gen_reward_spec(rng, rkind, n, akind, acts, sh=None):
    v = rng.sample(RVALS, n) if rng.random() < .85 else [rng.choice(RVALS) for _ in range(n)]
    o = list(range(n)); rng.shuffle(o)
    if rkind == "binary-absent":
        # an action of the same structure (same levels / length / feature names) which this interaction does not offer
        have = {canon_eq(dec(a)) for a in acts}
        for _ in range(30):
            a = gen_one_action(rng, sh)
            if canon_eq(dec(a)) not in have:
                return {"k": "binary-absent", "a": a, "val": rng.choice([1, 1, 0.5, 3])}
        rkind = "binary"                      # the set offers every action there is
    if rkind == "list":   return {"k": "list", "v": v}
    if rkind == "binary": return {"k": "binary", "i": rng.randrange(n), "val": rng.choice([1, 1, 0.5, 3])}
    if rkind == "discrete-pair": return {"k": rkind, "v": v}
    if rkind == "discrete-pair-perm": return {"k": rkind, "v": v, "o": o}
    if rkind == "discrete-map":  return {"k": rkind, "v": v, "o": o}
    if rkind == "discrete-subset":
        m = rng.randint(1, n)
        return {"k": rkind, "v": v, "o": o[:m], "dflt": rng.choice([0, -2, 0.75])}
    if rkind == "hamming": return {"k": rkind, "o": o[:rng.randint(1, n)]}
    if rkind == "l1":      return {"k": rkind, "am": rng.choice([0.3, 1, 0.5, 2.25, 0])}
    if rkind == "callable": return {"k": rkind, "v": v}
    raise ValueError(rkind)

def reward_kinds_for(akind):
    ks = ["list", "list", "binary", "binary", "binary-absent", "discrete-pair", "discrete-pair-perm", "discrete-subset", "callable", "callable"]
    if akind in HASHABLE: ks += ["discrete-map", "discrete-map"]
    if akind in ("str", "cat"): ks += ["hamming"]
    if akind in ("int", "float"): ks += ["l1"]
    return ks

def gen_context(rng, ckind, shape):
    if ckind == "none":   return None
    if ckind == "num":    return _num(rng)
    if ckind == "str":    return rng.choice(["u", "v", "w"])
    if ckind == "cat":    return {"c": rng.choice(shape["L"]), "L": shape["L"]}
    if ckind == "dense":  return {shape["cont"]: [_num(rng) for _ in range(shape["d"])]}
    if ckind == "dense_cat":
        return {shape["cont"]: [({"c": rng.choice(shape["L"]), "L": shape["L"]} if i == shape["p"] else _num(rng)) for i in range(shape["d"])]}
    if ckind == "nested":
        return {"l": [_num(rng), {"t": [_num(rng, False), _num(rng, False)]}]}
    ks = shape.get("keys", ["f", "g", "h"])
    if ckind == "sparse": return {"d": {k: _num(rng, False) for k in ks if rng.random() < .7} or {ks[0]: 1}}
    if ckind == "sparse_cat":
        d = {k: _num(rng, False) for k in ks[:2] if rng.random() < .7}; d["q"] = {"c": rng.choice(shape["L"]), "L": shape["L"]}
        return {"d": d}
    raise ValueError(ckind)

CKINDS = ["none", "num", "str", "cat", "cat", "dense", "dense_cat", "dense_cat", "nested", "sparse", "sparse_cat"]

def gen_filter(rng, st):
    """st: tracker {batched, continuous, coll}; returns one filter spec.  coll = the chain is for a collection of
    environments: Densify/Sparsify are drawn more often, action noise is gaussian only (so that no two noisy actions can
    coincide, whatever the realisation) and a seed list may be given (Environments.noise then multiplies the environments)"""
    r = rng.random()
    coll = st.get("coll", False)
    if st["batched"]:
        return rng.choice([{"f": "Unbatch"}, {"f": "Unbatch"}, {"f": "Finalize", "safe": True}])
    t = [.22, .30, .45, .76, .86, .92, .94] if coll else [.30, .42, .56, .70, .82, .90, .93]
    if r < t[0]: return {"f": "Repr", "cc": rng.choice(CATS), "ca": rng.choice(CATS + ["onehot", "onehot_tuple"])}
    if r < t[1]: return {"f": "Flatten"}
    if r < t[2] and not st["continuous"]:
        c, a = rng.choice([(True, True), (False, True), (True, False), (True, True)])
        return {"f": "Sparsify", "c": c, "a": a}
    if r < t[3]:
        c, a = rng.choice([(True, True), (False, True), (True, False), (True, True)])
        m = rng.choice(["lookup", "lookup", "hashing"] if coll else ["lookup", "hashing"])
        # "tight" is resolved by resolve_tight() into the smallest n_feats (plus a small slack) that keeps every single
        # environment inside lookup's documented no-collision regime
        n = rng.choice(["tight", "tight", "tight", 24] if coll else [24, 40, "tight"]) if m == "lookup" else rng.choice([5, 16, 64, 400])
        return {"f": "Densify", "n": n, "m": m, "c": c, "a": a}
    if r < t[4]:
        if coll:
            a = rng.choice([["g", 0, 1], ["g", 2, 0.5], [0, 1], ["g", 0, 1], None])
        else:
            a = rng.choice([["g", 0, 1], ["g", 2, 0.5], ["i", 1, 3], [0, 1], "fn", ["g", 0, 1], None])
        c = rng.choice([None, None, ["g", 0, 1], ["i", 0, 2]])
        if a is None and c is None: c = ["g", 0, 1]
        sd = rng.randint(0, 99)
        if coll and not st.get("seedlist") and rng.random() < .3:
            sd = [sd, sd + 1 + rng.randint(0, 9)]; st["seedlist"] = True
        return {"f": "Noise", "c": c, "a": a, "s": sd}
    if r < t[5]: return {"f": "Batch", "k": rng.choice([1, 2, 2, 3, 4])}
    if r < t[6]: return {"f": "Unbatch"}
    return {"f": "Finalize", "safe": rng.random() < .6}

def gen_env(rng, ikind=None, akind=None, ns=0, akinds=AKINDS):
    """one environment (no chain): kinds, action sets, rewards / feedbacks / logged fields of 1-5 interactions"""
    if ikind is None: ikind = rng.choice(["sim", "sim", "sim", "grounded", "logged", "logged", "logged_plain", "continuous"])
    n_int = rng.choice([1, 2, 3, 3, 4, 5])
    spec = {"ikind": ikind}
    if ikind == "continuous":
        akind, n_act = "none", 0
        spec["akind"] = akind
        acts = [[] for _ in range(n_int)]
        spec["vary"] = "constant"
        rws = [{"k": "l1", "am": rng.choice([0.3, 1, 0.5, 2.25, 0])} for _ in range(n_int)]
        rkind = "l1"
    else:
        if akind is None or akind == "none": akind = rng.choice(akinds)
        sh = gen_shape(rng, akind, ns)
        spec["akind"] = akind
        # equal values of another container type: a lazy dense row equals the list and the tuple holding its values, so whoever
        # built the reward function / wrote the log may have keyed it by plain tuples or lists (keyform 't' / 'l': the keys of
        # reward and feedback functions and the logged action), or the log reader hands the logged action over as a lazy row
        # while the action set holds plain vectors (lazy_action).  A plain tuple cannot carry the headers of a lazy row, which
        # Sparsify turns into feature names: the logged action is re-typed only where the rows have no headers (drawn more
        # often then); reward keys are only ever compared, so they always are.
        if akind == "lazy_dense":
            spec["keyform"] = rng.choice([None, "t", "t", "l"])
            if spec["keyform"] and ikind == "logged" and rng.random() < .7: sh["wrap"] = "ld0"
            spec["keyform_action"] = bool(spec["keyform"]) and sh["wrap"] == "ld0"
        spec["lazy_action"] = akind == "dense" and ikind == "logged" and rng.random() < .35
        vary = rng.choice(["constant", "constant", "varying", "first2same", "resized"])
        n_act = rng.choice([1, 2, 2, 3, 3, 4, 5])
        base = gen_action_set(rng, sh, n_act)
        acts = []
        for j in range(n_int):
            if vary == "constant" or (vary == "first2same" and j < 2): acts.append(base)
            elif vary == "resized": acts.append(gen_action_set(rng, sh, rng.choice([1, 2, 3, 4])))
            else: acts.append(gen_action_set(rng, sh, n_act))
        spec["vary"] = vary
        rkind = rng.choice(reward_kinds_for(akind))
        rws = [gen_reward_spec(rng, rkind, len(a), akind, a, sh) for a in acts]
    spec["actions"] = acts
    spec["rkind"] = rkind
    ck = rng.choice(CKINDS)
    csh = {"L": rng.sample(_pool(["p", "q", "r", "s"], ns), 3), "cont": rng.choice(["l", "t"]), "d": rng.randint(2, 3)}
    csh["p"] = rng.randrange(csh["d"])
    if ns: csh["keys"] = _pool(["f", "g", "h"], ns)
    spec["ckind"] = ck
    spec["context"] = [gen_context(rng, ck, csh) for _ in range(n_int)]
    spec["fkind"] = None
    if ikind in ("sim", "grounded", "continuous") or (ikind == "logged" and rng.random() < .5):
        spec["rewards"] = rws
    else:
        spec["rkind"] = None
    if ikind == "grounded":
        fk = rng.choice([k for k in reward_kinds_for(akind) if k not in ("l1", "hamming")])
        spec["fkind"] = fk
        spec["feedbacks"] = [gen_reward_spec(rng, fk, len(a), akind, a, sh) for a in acts]
        spec["extra"] = [{"userid": rng.randint(0, 3), "isnormal": rng.random() < .5} for _ in range(n_int)]
    if ikind in ("logged", "logged_plain"):
        has_p = rng.random() < .75     # a log either records propensities or it does not (same keys in every interaction)
        spec["logged"] = [{"i": rng.randrange(len(a)), "r": rng.choice(RVALS), "p": rng.choice([0.25, 0.5, 1, 0.125]) if has_p else None} for a in acts]
    gen_layout(rng, spec)
    return spec

KMODES = ["ctor", "ctor", "ctor", "ctor", "each-own", "each-own", "one-differs", "one-differs", "pair-swapped", "pair-swapped", "all-same-other"]

def gen_layout(rng, spec):
    """An interaction is a plain dict ("the only assumption made by Coba is that interactions are a dict"): the same keys
    may have been inserted in another order than the Interaction constructors use, and in a different order in every
    interaction of one environment (hand-built dicts filled on different code paths, records of a log).  kmode:
      ctor            every interaction as its constructor fills it (the only layout coba's own tests use)
      each-own        every interaction in an insertion order of its own
      one-differs     one interaction (any position, also the first) in another order than the others
      pair-swapped    in some interactions two keys exchanged their places
      all-same-other  all interactions in one and the same order which is not the constructors' order
    korder[j] = the key list of interaction j in insertion order (None = constructor order); plain = the interactions are
    handed over as dict, not as an Interaction subclass."""
    spec["plain"] = rng.random() < .3
    mode = rng.choice(KMODES)
    spec["kmode"] = mode
    if mode == "ctor": spec["korder"] = None; return
    keys = [list(it) for it in build(spec)]
    n = len(keys)
    def shuffled(ks):
        for _ in range(8):
            new = list(ks); rng.shuffle(new)
            if new != ks: return new
        return None
    def swapped(ks):
        if len(ks) < 2: return None
        a, b = rng.sample(range(len(ks)), 2)
        new = list(ks); new[a], new[b] = new[b], new[a]
        return new
    if mode == "each-own":
        ko = [shuffled(k) if rng.random() < .85 else None for k in keys]
    elif mode == "one-differs":
        j = rng.randrange(n)
        ko = [(shuffled(k) if rng.random() < .5 else swapped(k)) if i == j else None for i, k in enumerate(keys)]
    elif mode == "pair-swapped":
        j = rng.randrange(n)
        ko = [swapped(k) if (i == j or rng.random() < .4) else None for i, k in enumerate(keys)]
    else:
        one = shuffled(keys[0])
        ko = [list(one) if one and set(one) == set(k) else None for k in keys]
    spec["korder"] = ko

def gen_chain(rng, continuous, coll=False):
    st = {"batched": False, "continuous": continuous, "coll": coll}
    chain = []
    L = rng.choice([1, 1, 2, 2, 3, 3, 4])
    while len(chain) < L:
        f = gen_filter(rng, st)
        if f["f"] == "Batch" and len(chain) == 3 and rng.random() < .5: continue
        chain.append(f)
        if f["f"] == "Batch": st["batched"] = True
        if f["f"] in ("Unbatch",): st["batched"] = False
        if f["f"] == "Finalize" and f.get("safe"): pass       # BatchSafe re-batches
    return chain

def sparse_names(rows, c, a):
    """the feature names a Densify(context=c, action=a) is asked to index in these (un-batched) interactions"""
    from coba.primitives import Sparse
    names = set()
    for r in rows:
        vals = []
        if c: vals.append(r.get("context"))
        if a: vals += list(r.get("actions") or []) + [r.get("action")]
        for v in vals:
            if isinstance(v, Sparse): names.update(v.keys())
    return names

def resolve_tight(members, chain, rng):
    """replaces n='tight' of every lookup Densify by max over the environments of the number of names that environment
    alone presents to this step (so each environment is inside the documented no-collision regime), plus 0-2"""
    for idx, fs in enumerate(chain):
        if fs["f"] != "Densify" or fs["n"] != "tight": continue
        counts = [1]
        for ms in members:
            try:
                cur = build(ms)
                for g in chain[:idx]: cur = list(make_filter(g).filter(cur))
                counts.append(len(sparse_names(rows_of(cur), fs["c"], fs["a"])))
            except Exception:
                pass
        fs["n"] = max(counts) + rng.choice([0, 0, 0, 1, 2])

def gen_case(rng):
    if rng.random() < COLLECTION_SHARE: return gen_collection(rng)
    spec = gen_env(rng)
    spec["chain"] = gen_chain(rng, spec["ikind"] == "continuous")
    resolve_tight([spec], spec["chain"], rng)
    spec["via"] = rng.choice(["filters", "filters", "shortcuts"])
    return spec

COLLECTION_SHARE = .28

def gen_collection(rng):
    """2-3 different environments in one Environments object, the chain applied through the Environments shortcuts
    only, the resulting environments read in a generated order (every one at least once, some again, raw / finalized /
    by iteration, one after the other or interleaved)"""
    m = rng.choice([2, 2, 3])
    own_ns = rng.random() < .7            # own feature names / levels per environment, else the same pools (overlap)
    first = gen_env(rng, akinds=AKINDS_COLL)
    members = [first]
    for k in range(1, m):
        sib = rng.random() < .7           # the usual collection: the same kind of data with other names / levels
        members.append(gen_env(rng, ikind=first["ikind"] if (sib or rng.random() < .5) else None,
                               akind=first["akind"] if sib else None, ns=k if own_ns else 0, akinds=AKINDS_COLL))
    chain = gen_chain(rng, any(ms["ikind"] == "continuous" for ms in members), coll=True)
    resolve_tight(members, chain, rng)
    n_out = m
    for fs in chain:
        if fs["f"] == "Noise" and isinstance(fs["s"], list): n_out *= len(fs["s"])
    order = list(range(n_out)); rng.shuffle(order)
    order += [rng.randrange(n_out) for _ in range(rng.choice([0, 1, 1, 2]))]
    reads = [[pos, rng.choice(["raw", "fin", "fin", "iter"])] for pos in order]
    return {"collection": True, "members": members, "chain": chain, "reads": reads, "interleave": rng.random() < .3}

# ------------------------------------------------------------------------------------------ building
def build(spec):
    """fresh interactions (plain dict subclasses, as coba's sources yield them)"""
    from coba.primitives import SimulatedInteraction, GroundedInteraction, LoggedInteraction
    out = []
    for j, enc_acts in enumerate(spec["actions"]):
        acts = [dec(a) for a in enc_acts]
        ctx = dec(spec["context"][j])
        ik = spec["ikind"]
        # reward functions are keyed by equal but distinct action objects (what a reader / a user building rewards
        # separately produces) in about half of the cases: an in-place change of the offered actions must not go unnoticed
        racts = [dec(a) for a in enc_acts] if (spec.get("seed_", 0) + j) % 2 == 0 else acts
        kf = spec.get("keyform")
        if kf: racts = [reform(dec(a), kf) for a in enc_acts]
        rw = build_reward(spec["rewards"][j], racts) if "rewards" in spec else None
        if ik in ("sim", "continuous"):
            it = SimulatedInteraction(ctx, acts, rw)
        elif ik == "grounded":
            fb = build_reward(spec["feedbacks"][j], racts)
            it = GroundedInteraction(ctx, acts, rw, fb, **spec["extra"][j])
        else:
            lg = spec["logged"][j]
            kw = {}
            if ik == "logged":
                kw["actions"] = acts
                if rw is not None: kw["rewards"] = rw
            a = acts[lg["i"]] if ik == "logged" else dec(enc_acts[lg["i"]])
            if ik == "logged" and spec.get("copy_action", True) and not isinstance(a, (int, float, str)):
                a = dec(enc_acts[lg["i"]])          # an equal but distinct object, as a log file reader would produce
            if ik == "logged" and kf and spec.get("keyform_action"): a = reform(dec(enc_acts[lg["i"]]), kf)
            if ik == "logged" and spec.get("lazy_action"): a = reform(dec(enc_acts[lg["i"]]), "lazy")
            it = LoggedInteraction(ctx, a, lg["r"], lg["p"], **kw)
        ko = spec["korder"][j] if spec.get("korder") else None
        if ko:
            items = [(k, it[k]) for k in ko if k in it] + [(k, v) for k, v in it.items() if k not in ko]
            it.clear(); it.update(items)           # same object type, same entries, another insertion order
        if spec.get("plain"): it = dict(it)
        out.append(it)
    return out

def reform(v, form):
    """the same dense vector in another container: 't' tuple, 'l' list, 'lazy' LazyDense (equal to v wherever v is lazy / form is lazy)"""
    from coba.pipes.rows import LazyDense
    vals = list(v)
    return tuple(vals) if form == "t" else vals if form == "l" else LazyDense(vals)

def layout_of(rows):
    """'ctor-like' (one insertion order for all), or 'mixed' (the interactions list their keys in different orders)"""
    return "mixed" if len({tuple(r) for r in rows}) > 1 else "uniform"

def make_filter(fs):
    from coba.environments import filters as F
    k = fs["f"]
    if k == "Repr":     return F.Repr(fs["cc"], fs["ca"])
    if k == "Flatten":  return F.Flatten()
    if k == "Sparsify": return F.Sparsify(fs["c"], fs["a"])
    if k == "Densify":  return F.Densify(fs["n"], fs["m"], fs["c"], fs["a"])
    if k == "Noise":    return F.Noise(_noise_arg(fs["c"]), _noise_arg(fs["a"]), None, fs["s"][0] if isinstance(fs["s"], list) else fs["s"])
    if k == "Batch":    return F.Batch(fs["k"])
    if k == "Unbatch":  return F.Unbatch()
    if k == "Finalize": return F.BatchSafe(F.Finalize()) if fs.get("safe") else F.Finalize()
    raise ValueError(k)

def _noise_arg(a):
    if a is None: return None
    if a == "fn": return noise_fn
    return tuple(a)

def apply_shortcut(envs, fs):
    k = fs["f"]
    if k == "Repr":     return envs.repr(fs["cc"], fs["ca"])
    if k == "Flatten":  return envs.flatten()
    if k == "Sparsify": return envs.sparse(fs["c"], fs["a"])
    if k == "Densify":  return envs.dense(fs["n"], fs["m"], fs["c"], fs["a"])
    if k == "Noise":    return envs.noise(_noise_arg(fs["c"]), _noise_arg(fs["a"]), None, fs["s"])
    if k == "Batch":    return envs.batch(fs["k"])
    if k == "Unbatch":  return envs.unbatch()
    if k == "Finalize": return envs.filter(make_filter(fs))
    raise ValueError(k)

def fname(fs):
    """mechanism-level name of a filter with the parameters that select its code path (no seeds / sizes)"""
    k = fs["f"]
    if k == "Then":     return fname(fs["inner"]) + "+BatchSafe(Finalize)"
    if k == "Repr":     return f"Repr(ctx={fs['cc']},act={fs['ca']})"
    if k == "Sparsify": return f"Sparsify(context={fs['c']},action={fs['a']})"
    if k == "Densify":  return f"Densify({fs['m']},context={fs['c']},action={fs['a']})"
    if k == "Noise":    return "Noise(" + ",".join(n for n, v in (("context", fs["c"]), ("action", fs["a"])) if v) + ")"
    if k == "Finalize": return "BatchSafe(Finalize)" if fs.get("safe") else "Finalize"
    return k

def fsig(fs, field):
    """coarser than fname: only what matters for the mechanism that failed on <field>"""
    k = fs["f"]
    if k == "Then":     return fsig(fs["inner"], field) + "+Finalize"     # the Environments pipeline read through [] / iteration
    if k == "Repr":
        if field == "action": return f"Repr(act={fs['ca']},ctx={'same' if fs['cc'] == fs['ca'] else 'other'})"
        return f"Repr(act={fs['ca']})"
    if k == "Sparsify": return f"Sparsify(action={fs['a']})"
    if k == "Densify":  return f"Densify({fs['m']},action={fs['a']})"
    if k == "Noise":    return "Noise(action)" if fs["a"] else "Noise(context-only)"
    return fname(fs)

# ------------------------------------------------------------------------------------------ the oracle
def is_batch(v): return hasattr(v, "is_batch")

def rows_of(outs):
    """independent un-batching: the j-th row of a batched interaction takes the j-th item of every batched value"""
    res = []
    for o in outs:
        bk = [k for k, v in o.items() if is_batch(v)]
        if not bk: res.append(o); continue
        for j in range(len(o[bk[0]])):
            res.append({k: (v[j] if is_batch(v) else v) for k, v in o.items()})
    return res

def rtype(r, actions=None):
    """kind of the reward object entering a filter (for signatures)"""
    if r is None: return "none"
    if isinstance(r, list): return "list"
    n = type(r).__name__
    if n == "DiscreteReward":
        st = r._state
        form = "mapping" if isinstance(st, dict) else "pair"
        extra = ""
        try:
            ra = r.actions
            if actions is not None:
                if len(ra) != len(actions): extra = ",subset"
                elif any(not _eq(x, y) for x, y in zip(ra, actions)): extra = ",other-order"
        except Exception: pass
        return f"DiscreteReward[{extra[1:]}]" if extra else "function"
    if n == "BinaryReward" and actions and not any(_eq(r._argmax, a) for a in actions):
        return "BinaryReward[argmax-not-offered]"
    return "function"

def _eq(a, b):
    try: return bool(a == b)
    except Exception: return False

def evaluate(F, actions):
    """the vector [R(a) for a in actions]; returns (vector, exception)"""
    if F is None: return None, None
    if callable(F):
        try: return [F(a) for a in actions], None
        except Exception as e: return None, e
    try: return list(F), None
    except Exception as e: return None, e

def _features_collided(before, after):
    """a sparse action had more non-zero features than the dense vector it was hashed into has non-zero cells"""
    try:
        if before is None or after is None: return False
        for b, a in zip(before, after):
            if not hasattr(b, "items"): continue
            nb = sum(1 for _, v in b.items() if not (isinstance(v, (int, float)) and v == 0))
            na = sum(1 for v in a if not (isinstance(v, (int, float)) and v == 0))
            if na < nb: return True
    except Exception:
        return False
    return False

def has_dups(actions):
    for i in range(len(actions)):
        for j in range(i):
            if _eq(actions[i], actions[j]) or canon(actions[i]) == canon(actions[j]): return True
    return False

def vec_mode(v0, v1):
    if len(v0) != len(v1): return "length-changed"
    try:
        if sorted(map(repr, v0)) == sorted(map(repr, v1)): return "permuted"
    except Exception: pass
    return "wrong-value"

PROBES = [0.0, 0.3, 1.0]

def check_prefix(orig, outs, step, chain, prev_rows, note, viol, info, sigfs=None):
    """compares the output of chain[:step+1] with the untouched originals.  prev_rows = rows entering chain[step]
    (for signatures only); sigfs = the filter spec the signatures name (default chain[step]).  Returns rows
    (un-batched) or None when nothing can be compared."""
    fs = sigfs or chain[step]
    nviol0 = len(viol)
    # two actions may legitimately coincide after action Noise and after hashing Densify; after lookup Densify only when
    # the environment presented more names than n_feats (outside the documented no-collision regime)
    may_collide = any((f["f"] == "Densify" and f["a"] and (f["m"] != "lookup" or info.get("lookup_overfull"))) or (f["f"] == "Noise" and f["a"])
                      for f in chain[:step+1])
    try:
        rows = rows_of(outs)
    except Exception as e:
        viol.append((f"{fsig(fs,'rows')}/rows/mode=raise:{type(e).__name__}", f"un-batching the output raised {e!r}")); return None
    if len(rows) != len(orig):
        viol.append((f"{fsig(fs,'rows')}/rows/mode=count-changed", f"{len(orig)} interactions in, {len(rows)} out after {fname(fs)}")); return None

    # -- batched reward functions called column-wise, the way a batched evaluator calls them
    for o in outs:
        for field in ("rewards", "feedbacks"):
            F = o.get(field)
            if is_batch(F) and callable(F) and "actions" in o:
                acts = o["actions"]
                if len({len(a) for a in acts}) == 1 and len(acts[0]) > 0:
                    for i in range(len(acts[0])):
                        col = [a[i] for a in acts]
                        try:
                            got = list(F(col)); exp = [f(a) for f, a in zip(list(F), col)]
                        except Exception as e:
                            viol.append((f"{fsig(fs,field)}/{field}:batched-callable/mode=raise:{type(e).__name__}", f"{e!r}")); break
                        note("oracle.batch.callable_column")
                        if got != exp:
                            viol.append((f"{fsig(fs,field)}/{field}:batched-callable/mode=wrong-value", f"column call {got} != row-wise {exp}")); break

    changed = False
    for j, (o0, o1) in enumerate(zip(orig, rows)):
        p0 = prev_rows[j] if prev_rows is not None and j < len(prev_rows) else o0
        a0 = o0.get("actions"); a1 = o1.get("actions")
        if a0 is not None:
            if a1 is None:
                viol.append((f"{fsig(fs,'actions')}/actions/mode=lost-field", "'actions' missing")); continue
            try: n1 = len(a1)
            except Exception as e:
                viol.append((f"{fsig(fs,'actions')}/actions/mode=raise:{type(e).__name__}", repr(e))); continue
            if n1 != len(a0):
                viol.append((f"{fsig(fs,'actions')}/actions/mode=count-changed", f"{len(a0)} actions before, {n1} after")); continue
            a1 = list(a1)
            if [canon(a) for a in a0] != [canon(a) for a in a1]: changed = True
            if j in info["dead"]: continue
            if may_collide and has_dups(a1):
                # from here on "the i-th action" is ill-defined for this interaction, also for the later filters
                note("discarded.collision"); info["dead"].add(j); continue
            if may_collide and _features_collided(p0.get("actions"), a1):
                # two features of one action were hashed into one column (the hashing trick "may have collisions"): the column then
                # mixes value types across the actions and what the action "is" is no longer defined by the data
                note("discarded.collision.within-action"); info["dead"].add(j); continue
        for field in ("rewards", "feedbacks"):
            if field not in o0: continue
            if field not in o1:
                viol.append((f"{fsig(fs,field)}/{field}/mode=lost-field", f"'{field}' missing after {fname(fs)}")); continue
            F0, F1 = o0[field], o1[field]
            if type(F0) is not type(F1): changed = True
            rt = rtype(p0.get(field), p0.get("actions"))
            af = aform(p0["actions"][0]) if p0.get("actions") else "none"
            if a0:
                v0, e0 = evaluate(F0, a0)
                if e0 is not None: note("skipped.undefined_before"); continue
                v1, e1 = evaluate(F1, a1)
                note(f"oracle.vector.{field}" + ("" if field == "feedbacks" else (".function" if callable(F0) else ".list")))
                if callable(F1) and not callable(F0): note("oracle.vector.list-became-function")
                if e1 is not None:
                    if rt.startswith("DiscreteReward[") and not _qualifier_is_causal(fs, prev_rows, field, orig): rt = "function"
                    viol.append((f"{fsig(fs,field)}/{field}:{rt}/mode=raise:{type(e1).__name__}",
                                 f"interaction {j}: {field} raised {e1!r} on the new actions {a1!r} ({af} actions before {fname(fs)}); before: {v0}")); continue
                if len(v0) != len(v1) or any(not _eq(x, y) for x, y in zip(v0, v1)):
                    if rt.startswith("DiscreteReward[") and not _qualifier_is_causal(fs, prev_rows, field, orig): rt = "function"
                    viol.append((f"{fsig(fs,field)}/{field}:{rt}/mode={vec_mode(v0, v1)}",
                                 f"interaction {j}: [R(a) for a in actions] was {v0}, after {fname(fs)} (step {step+1} of {[fname(f) for f in chain]}) it is {v1}; "
                                 f"{af} actions {p0.get('actions')!r} -> {a1!r}; {field} {p0.get(field)!r} -> {F1!r}"))
            elif callable(F0):
                # continuous action set: a probe value stands in for 'the i-th action'
                for p in PROBES:
                    try: x0 = F0(p)
                    except Exception: note("skipped.undefined_before"); continue
                    note("oracle.continuous.probe")
                    try: x1 = F1(p) if callable(F1) else None
                    except Exception as e:
                        viol.append((f"{fsig(fs,field)}/{field}:{rt}/continuous/mode=raise:{type(e).__name__}", f"R'({p}) raised {e!r}; R({p}) was {x0}; {F0!r} -> {F1!r}")); break
                    if not _eq(x0, x1):
                        viol.append((f"{fsig(fs,field)}/{field}:{rt}/continuous/mode=wrong-value", f"R({p}) was {x0}, after {fname(fs)} it is {x1}; {F0!r} -> {F1!r}")); break
        if "action" in o0:
            if "action" not in o1:
                viol.append((f"{fsig(fs,'action')}/action/mode=lost-field", "'action' missing")); continue
            if canon(o0["action"]) != canon(o1["action"]): changed = True
            for key in ("reward", "probability"):
                if key in o0:
                    note("oracle.logged.reward_probability")
                    if key not in o1 or not _eq(o0[key], o1[key]):
                        viol.append((f"{fsig(fs,key)}/{key}/mode=changed", f"logged {key} {o0[key]!r} -> {o1.get(key)!r}"))
            if a0:
                i0 = info["logged_index"][j]
                note("oracle.logged.index")
                af = aform(p0["actions"][0])
                idx = [i for i, a in enumerate(a1) if _eq(a, o1["action"])]
                if not idx:
                    near = [i for i, a in enumerate(a1) if canon_eq(a) == canon_eq(o1["action"])]
                    mode = "not-a-member" if not near else "same-content-but-not-equal"
                    viol.append((f"{fsig(fs,'action')}/action/mode={mode}",
                                 f"interaction {j}: logged action {o1['action']!r} is not in the new action set {a1!r} after {fname(fs)} "
                                 f"(step {step+1} of {[fname(f) for f in chain]}); it was actions[{i0}] of {a0!r} ({af} actions)"))
                elif idx[0] != i0:
                    viol.append((f"{fsig(fs,'action')}/action/mode=index-changed",
                                 f"interaction {j}: logged action was actions[{i0}], now equals actions[{idx[0]}] of {a1!r}"))
    # -- the new representation is a function of the action, and an injective one: over all interactions of the
    #    environment equal actions are re-represented equally and different actions differently (random Noise and
    #    hashing Densify excluded).  Without this a filter could hand interaction k the (stale) action set of interaction
    #    k-1 and every positional comparison above would still pass.
    deterministic = not any((f["f"] == "Noise" and f["a"]) or (f["f"] == "Densify" and f["a"] and f["m"] == "hashing") for f in chain[:step+1])
    if deterministic and len(viol) == nviol0:
        fwd, bwd = {}, {}
        for j, (o0, o1) in enumerate(zip(orig, rows)):
            pairs = list(zip(o0.get("actions") or [], o1.get("actions") or []))
            # (not when the generator handed the logged action over in another container type than the members of the action
            #  set: then one action has two representations before any filter ran)
            if "action" in o0 and "action" in o1 and o0.get("actions") and not info.get("mixed_containers"): pairs.append((o0["action"], o1["action"]))
            for a, b in pairs:
                ca, cb = canon_eq(a), canon(b)
                note("oracle.representation.consistent")
                if fwd.setdefault(ca, cb) != cb:
                    viol.append((f"{fsig(fs,'actions')}/actions/mode=same-action-represented-differently",
                                 f"interaction {j}: action {a!r} becomes {b!r} here but {fwd[ca]!r} elsewhere after {fname(fs)} (step {step+1} of {[fname(f) for f in chain]})")); break
                if bwd.setdefault(cb, ca) != ca:
                    viol.append((f"{fsig(fs,'actions')}/actions/mode=different-actions-represented-alike",
                                 f"interaction {j}: action {a!r} becomes {b!r}, which elsewhere stands for {bwd[cb]!r}, after {fname(fs)} (step {step+1} of {[fname(f) for f in chain]})")); break
            else: continue
            break
    info["changed"] = changed
    return rows

def _strip(rows, fields):
    return [{k: v for k, v in r.items() if k not in fields} for r in rows]

def _qualifier_is_causal(fs, prev_rows, field, orig):
    """counterfactual for the signature only: would the same filter also fail if the (order-permuted / partial)
    DiscreteReward entering it were replaced by the aligned DiscreteReward(actions, values) computing the same function?"""
    from coba.primitives import DiscreteReward
    try:
        alt = []
        for r in prev_rows:
            r = dict(r)
            if field in r and callable(r[field]) and r.get("actions"):
                r[field] = DiscreteReward(list(r["actions"]), [r[field](a) for a in r["actions"]])
            alt.append(r)
        out = rows_of(list(make_filter(fs).filter(alt)))
        for o1, o0 in zip(out, orig):
            if field in o0 and o0.get("actions"):
                v0, e0 = evaluate(o0[field], o0["actions"]); v1, e1 = evaluate(o1[field], o1["actions"])
                if e1 is not None or (e0 is None and (len(v0) != len(v1) or any(not _eq(x, y) for x, y in zip(v0, v1)))): return False
        return True
    except Exception:
        return False

def _attribute_raise(fs, prev_rows):
    """a filter raised.  Counterfactuals on its input decide whether the reward/logged machinery is involved at all
    (otherwise the failure is not about 'which action earns which reward') and which field triggers it."""
    groups = {"rewards": ("rewards",), "feedbacks": ("feedbacks",), "action": ("action", "reward", "probability")}
    def raises(rows):
        try: list(make_filter(fs).filter(rows)); return False
        except Exception: return True
    try:
        allf = sum(groups.values(), ())
        if raises(_strip(prev_rows, allf)): return None
        if "action" in prev_rows[0] and raises([dict(_strip([r], allf)[0], actions=[r["action"]]) for r in prev_rows]):
            return None          # the logged action's value cannot be encoded even as an ordinary member of an action set
        for field, keys in groups.items():
            if any(k in prev_rows[0] for k in keys) and not raises(_strip(prev_rows, keys)): return field
        if not raises(_strip(prev_rows, ("rewards", "feedbacks"))): return "rewards+feedbacks"
        return "rewards+action"
    except Exception:
        return "rewards+action"

def _rtype_rows(rows, field):
    """reward kind named in the signature of a filter that raised: of the first interaction, or the not-offered BinaryReward
    of a later one (the raise may come from any interaction)"""
    if field not in ("rewards", "feedbacks", "rewards+feedbacks"): return "logged"
    f0 = field.split("+")[0]
    p0 = rows[0] if rows else {}
    rt = rtype(p0.get(f0), p0.get("actions"))
    if rt == "function":
        for r in rows:
            for f in field.split("+"):
                if rtype(r.get(f), r.get("actions")) == "BinaryReward[argmax-not-offered]": return "BinaryReward[argmax-not-offered]"
    return rt

def _note_bare_raise(ctx, note, fs, e, p0):
    """a filter that raises on the bare contexts/actions as well: outside the statement; tallied by raise site"""
    import traceback
    note("skipped.filter_raises_without_rewards")
    if ctx is not None:
        tb = traceback.extract_tb(e.__traceback__)
        site = next((f"{f.filename.rsplit('/coba/', 1)[-1]}:{f.name}" for f in reversed(tb) if "/coba/" in f.filename), "?")
        k = f"{fs['f']}:{type(e).__name__}@{site}"
        d = ctx.extra.setdefault("filter_raises_without_rewards", {})
        d[k] = d.get(k, 0) + 1
        if k not in ctx.extra.setdefault("_seen_sites", set()):
            ctx.extra["_seen_sites"].add(k)
            ctx.extra.setdefault("filter_raises_without_rewards_examples", {})[k] = f"{e!r} on actions {p0.get('actions')!r} context {p0.get('context')!r} action {p0.get('action')!r}"[:300]

def summarize(rows):
    """canonical snapshot for the composed-vs-stepwise differential"""
    out = []
    for o in rows:
        d = {}
        for k, v in o.items():
            if k == "actions": d[k] = [canon(a) for a in v]
            elif k in ("rewards", "feedbacks"):
                vec, e = evaluate(v, o.get("actions") or PROBES)
                d[k] = (type(v).__name__, repr(vec), type(e).__name__ if e else None)
            else: d[k] = canon(v)
        out.append(d)
    return out

def _stepwise(spec, chain, ctx, note, viol, tag=()):
    """every prefix of the chain (fresh filter objects, one environment) is itself a chain and is checked against the
    untouched originals.  Returns {ok, orig, final_rows, info}; ok = every step ran and no prefix violated."""
    orig = build(spec)
    info = {"logged_index": [lg["i"] for lg in spec["logged"]] if spec["ikind"] == "logged" else None, "changed": False, "dead": set(),
            "mixed_containers": bool(spec.get("keyform_action") or spec.get("lazy_action"))}
    base_key = (spec["ikind"], spec["akind"], spec["rkind"], spec["fkind"], spec["vary"], spec.get("via"), spec["ckind"] in ("cat", "dense_cat", "sparse_cat"),
                spec.get("kmode", "ctor"), bool(spec.get("plain"))) + tuple(tag)
    if spec.get("plain"): note("layout.plain-dict")
    note("layout.keys." + spec.get("kmode", "ctor"))
    cur = build(spec)
    prev_rows = cur
    final_rows = None
    ok = True
    for step, fs in enumerate(chain):
        before = len(viol)
        if fs["f"] == "Densify" and fs["m"] == "lookup" and fs["a"] and len(sparse_names(prev_rows, fs["c"], fs["a"])) > fs["n"]:
            info["lookup_overfull"] = True; note("skipped.lookup_overfull")
        try:
            f = make_filter(fs)
            cur = list(f.filter(cur))
        except Exception as e:
            p0 = prev_rows[0] if prev_rows else {}
            field = _attribute_raise(fs, prev_rows)
            if field is None:
                # the filter raises on the bare contexts/actions too: not a statement about rewards (reported, not judged)
                _note_bare_raise(ctx, note, fs, e, p0)
                ok = False; break
            rt = _rtype_rows(prev_rows, field)
            af = aform(p0["actions"][0]) if p0.get("actions") else "none"
            viol.append((f"{fsig(fs, field)}/filter/{field}:{rt}/mode=raise:{type(e).__name__}",
                         f"{fname(fs)} (step {step+1} of {[fname(x) for x in chain]}) raised {e!r} on {af} actions {p0.get('actions')!r}, {field} {p0.get(field)!r}"))
            ok = False; break
        rows = check_prefix(orig, cur, step, chain, prev_rows, note, viol, info)
        _note_features(spec, fs["f"], prev_rows, info, note)
        # the layout of the interactions ENTERING this step: do they list their keys in different insertion orders?
        if layout_of(prev_rows) == "mixed":
            note("oracle.keyorder.mixed"); note("oracle.keyorder.mixed." + fs["f"])
        elif spec.get("kmode") == "all-same-other" and step == 0:
            note("oracle.keyorder.non-constructor")
        if ctx: ctx.case((base_key, tuple(fname(x) for x in chain[:step+1])), nontrivial=info["changed"])
        if info["changed"]: note("changed." + fs["f"])
        note("prefix." + fs["f"])
        if rows is None or len(viol) > before:
            ok = False; break          # later steps would only repeat the first break
        prev_rows = rows
        final_rows = rows
    return {"ok": ok, "orig": orig, "final_rows": final_rows, "info": info}

def _note_features(spec, fname_, prev_rows, info, note):
    """counts the judged steps whose INPUT had one of the structural features the generator adds on purpose"""
    p0 = prev_rows[0] if prev_rows else {}
    acts = p0.get("actions")
    if not acts: return
    lazy_acts = aform(acts[0]) == "lazy-dense"
    if spec.get("keyform") == "t" and lazy_acts:
        if any(callable(p0.get(f)) for f in ("rewards", "feedbacks")): note("oracle.tuple-keyed-function.lazy-dense-actions." + fname_)
        if "action" in p0 and isinstance(p0["action"], tuple): note("oracle.tuple-logged-action.lazy-dense-actions." + fname_)
    if spec.get("lazy_action") and "action" in p0 and aform(p0["action"]) == "lazy-dense" and not lazy_acts:
        note("oracle.lazy-dense-logged-action.plain-actions." + fname_)
    for f in ("rewards", "feedbacks"):
        if rtype(p0.get(f), acts) == "BinaryReward[argmax-not-offered]" and info.get("changed"):
            note("oracle.binary-argmax-not-offered." + fname_); break

def _with_keyform(spec):
    """the same case with reward keys / logged action in the very container type of the offered actions"""
    def one(ms): return dict(ms, keyform=None, keyform_action=False, lazy_action=False)
    if spec.get("collection"): return dict(spec, members=[one(ms) for ms in spec["members"]])
    return one(spec)

def _with_layout(spec, korder, plain):
    """the same case with the constructors' key order (korder=False) and/or as Interaction objects (plain=False)"""
    def one(ms):
        ms = dict(ms)
        if not korder: ms["korder"] = None; ms["kmode"] = "ctor"
        if not plain:  ms["plain"] = False
        return ms
    if spec.get("collection"): return dict(spec, members=[one(ms) for ms in spec["members"]])
    return one(spec)

def _coarse(sig):
    """a layout-triggered violation scrambles whole fields, so which reward type was hit and how exactly it surfaced
    (TypeError / wrong value / other length) is incidental: keep filter and field, reduce the mode to raise | wrong"""
    out = []
    for p in sig.split("/"):
        if p.startswith("mode="): p = "mode=raise" if p.startswith("mode=raise") else "mode=wrong"
        elif p.split(":")[0] in ("rewards", "feedbacks"): p = p.split(":")[0]
        out.append(p)
    return "/".join(out)

def check_case(spec, ctx=None):
    """judges the case; when something is violated and the interactions were not laid out the way the Interaction
    constructors lay them out, counterfactual runs (same case, constructor layout) decide -- for the signature only --
    whether the layout is what triggers the violation.  The same is done for reward keys / logged actions given in another
    container type than the offered actions (keyform, lazy_action)."""
    viol = _check_case(spec, ctx)
    if not viol: return viol
    members = spec["members"] if spec.get("collection") else [spec]
    has_ko = any(ms.get("korder") and any(ms["korder"]) for ms in members)
    has_pl = any(ms.get("plain") for ms in members)
    forms = {ms["keyform"] for ms in members if ms.get("keyform")}
    kfq = ([f"keyed-by:{'tuple' if 't' in forms else 'list'}/actions:lazy-dense"] if forms else []) + \
          (["logged-action:lazy-dense/actions:plain-dense"] if any(ms.get("lazy_action") for ms in members) else [])
    kf_hit = set()
    if kfq:
        try: kf_hit = {s for s, _ in viol} - {s for s, _ in _check_case(_with_keyform(spec), None)}
        except Exception: pass
    def sigs(korder, plain):
        try: return {s for s, _ in _check_case(_with_layout(spec, korder, plain), None)}
        except Exception: return None
    rest = [s for s, _ in viol if s not in kf_hit]
    mixed = any(layout_of(build(ms)) == "mixed" for ms in members)
    kq = "keys-in-different-orders" if mixed else "keys-not-in-constructor-order"
    without_ko = sigs(False, True) if (has_ko and rest) else None
    without_pl = sigs(True, False) if (has_pl and rest) else None
    without_both = sigs(False, False) if (has_ko and has_pl and rest) else None
    out = []
    for s, w in viol:
        if s in kf_hit:
            s = re.sub(r":DiscreteReward\[[^\]]*\]", ":function", s)       # which keys the function has is what matters here, not their order
            out.append((s + "/" + "+".join(kfq), f"[holds when reward keys / logged action come in the container type of the offered actions] {w}")); continue
        q = None
        if without_ko is not None and s not in without_ko: q = kq
        elif without_pl is not None and s not in without_pl: q = "plain-dict"
        elif without_both is not None and s not in without_both: q = kq + "+plain-dict"
        out.append((f"{_coarse(s)}/interactions:{q}" if q else s, w if not q else f"[holds when the interactions are laid out as the Interaction constructors do; here: key orders {[ms.get('korder') for ms in members]}, plain dict={has_pl}] {w}"))
    return _dedup(out)

def _check_case(spec, ctx=None):
    from coba.environments import Environments
    from coba.pipes import Pipes
    if spec.get("collection"): return check_collection(spec, ctx)
    viol = []
    def note(name, n=1):
        if ctx: ctx.count(name, n)
    chain = spec["chain"]

    # ---- stepwise: every prefix of the chain is itself a chain and is checked against the originals
    sw = _stepwise(spec, chain, ctx, note, viol)
    orig, final_rows, info = sw["orig"], sw["final_rows"], sw["info"]
    if not sw["ok"]: return _dedup(viol)

    # ---- the same chain composed lazily (generators all the way), as filter objects or through the shortcuts
    try:
        if spec["via"] == "shortcuts":
            envs = Environments.from_custom(ListEnvAdapter(spec))
            for fs in chain: envs = apply_shortcut(envs, fs)
            composed = list(envs._envs[0].read())
        else:
            composed = list(Pipes.join(ListEnvAdapter(spec), *[make_filter(fs) for fs in chain]).read())
        crow = rows_of(composed)
        note("oracle.composed==stepwise")
        if summarize(crow) != summarize(final_rows):
            viol.append((f"composed-chain/{spec['via']}/mode=differs-from-stepwise",
                         f"{[fname(f) for f in chain]}: lazily composed output {summarize(crow)[:2]} != stepwise {summarize(final_rows)[:2]}"))
    except Exception as e:
        viol.append((f"composed-chain/{spec['via']}/mode=raise:{type(e).__name__}", f"{[fname(f) for f in chain]} composed raised {e!r} though every step alone succeeded"))
    if spec["via"] == "shortcuts" and not viol:
        # what an experiment really reads: the shortcut pipeline with BatchSafe(Finalize()) appended
        try:
            fin = list(envs[0].read())
            fchain = chain + [{"f": "Finalize", "safe": True}]
            before = len(viol)
            check_prefix(orig, fin, len(fchain) - 1, fchain, final_rows, note, viol, info)
            _note_features(spec, "Finalize", final_rows, info, note)
            note("oracle.shortcuts.finalized")
            if layout_of(final_rows) == "mixed": note("oracle.keyorder.mixed.shortcuts-finalized")
            if info["changed"]: note("changed.Finalize")
        except Exception as e:
            p0 = final_rows[0] if final_rows else {}
            ffs = {"f": "Finalize", "safe": True}
            field = _attribute_raise(ffs, final_rows)
            if field is None: _note_bare_raise(ctx, note, ffs, e, p0)
            else:
                rt = _rtype_rows(final_rows, field)
                viol.append((f"BatchSafe(Finalize)/filter/{field}:{rt}/mode=raise:{type(e).__name__}",
                             f"reading Environments[...][0] after {[fname(f) for f in chain]} raised {e!r}"))
    return _dedup(viol)

def check_collection(spec, ctx=None):
    """Several different environments in ONE Environments object; the chain is applied with the Environments shortcuts
    (each called once, for all environments together) and the resulting environments are read in the generated order.
    Every read is judged on its own: the output of the environment that came from member k against the untouched
    interactions of member k, by the same relation as a single environment (check_prefix).  A member is judged only when
    the same chain, as fresh filter objects over that member alone, ran and held (otherwise whatever is wrong is not
    about the collection and is reported under the single-environment signature)."""
    from coba.environments import Environments
    viol = []
    def note(name, n=1):
        if ctx: ctx.count(name, n)
    members, chain = spec["members"], spec["chain"]
    FIN = {"f": "Finalize", "safe": True}

    ref = [_stepwise(ms, chain, ctx, note, viol, tag=("member",)) for ms in members]
    note("collection.members", len(members))
    note("collection.members_judged", sum(r["ok"] for r in ref))

    # would one index table over everything overflow where each environment's own table does not?
    tight = []
    for idx, fs in enumerate(chain):
        if fs["f"] == "Densify" and fs["m"] == "lookup" and fs["a"]:
            tot, mx = set(), 0
            for ms in members:
                try:
                    cur = build(ms)
                    for g in chain[:idx]: cur = list(make_filter(g).filter(cur))
                    nm = sparse_names(rows_of(cur), fs["c"], fs["a"])
                    tot |= {str(x) for x in nm}; mx = max(mx, len(nm))
                except Exception: pass
            if mx <= fs["n"] < len(tot): tight.append(idx)

    try:
        envs = Environments.from_custom(*[ListEnvAdapter(ms, k) for k, ms in enumerate(members)])
        for fs in chain: envs = apply_shortcut(envs, fs)
        n_out = len(envs)
    except Exception as e:
        if all(r["ok"] for r in ref):
            viol.append((f"several-environments/shortcuts/mode=raise:{type(e).__name__}", f"building {[fname(f) for f in chain]} over {len(members)} environments raised {e!r}"))
        return _dedup(viol)

    # ---- start the reads (sequentially, or all opened first and advanced round-robin)
    jobs = []
    for pos, mode in spec["reads"]:
        pos %= n_out
        try:
            env = envs._envs[pos] if mode == "raw" else (envs[pos] if mode == "fin" else list(envs)[pos])
            k = env.params.get("id")
        except Exception as e:
            viol.append((f"several-environments/shortcuts/mode=raise:{type(e).__name__}", f"taking environment {pos} ({mode}) raised {e!r}")); continue
        if not isinstance(k, int) or not 0 <= k < len(members): note("collection.unidentified"); continue
        jobs.append({"k": k, "mode": mode, "env": env, "outs": [], "err": None})
    seen = []
    if spec.get("interleave") and len(jobs) > 1:
        for j in jobs:
            j["where"] = "among-others"; j["detail"] = "interleaved"
            try: j["it"] = iter(j["env"].read())
            except Exception as e: j["err"] = e; j["it"] = None
        live = [j for j in jobs if j["it"] is not None]
        while live:
            for j in list(live):
                try: j["outs"].append(next(j["it"]))
                except StopIteration: live.remove(j)
                except Exception as e: j["err"] = e; live.remove(j)
    else:
        for j in jobs:
            j["where"] = "among-others" if seen else "first"; j["detail"] = "again" if j["k"] in seen else ("after another" if seen else "first")
            seen.append(j["k"])
            try: j["outs"] = list(j["env"].read())
            except Exception as e: j["err"] = e

    # ---- judge every read on its own
    any_changed = False
    for j in jobs:
        k, r = j["k"], ref[j["k"]]
        if not r["ok"]: note("collection.read_unjudged"); continue
        fchain = chain + ([FIN] if j["mode"] != "raw" else [])
        pre = f"several-environments/read={j['where']}/"
        sigfs = chain[-1] if j["mode"] == "raw" else {"f": "Then", "inner": chain[-1]}
        if j["mode"] != "raw" and j["err"] is not None and _alone_finalized(members[k], r, chain, FIN):
            viol.extend(r["alone_fin"]); note("collection.read_unjudged"); continue
        if j["err"] is not None:
            e = j["err"]
            if j["mode"] != "raw" and _attribute_raise(FIN, r["final_rows"]) is None:
                _note_bare_raise(ctx, note, FIN, e, r["final_rows"][0] if r["final_rows"] else {}); continue
            viol.append((pre + f"{fsig(sigfs, 'rows')}/mode=raise:{type(e).__name__}",
                         f"reading environment {k} ({j['mode']}) of {len(members)} after {[fname(f) for f in chain]} raised {e!r}; alone it reads fine")); continue
        info = {"logged_index": r["info"]["logged_index"], "changed": False, "dead": set(r["info"]["dead"]),
                "lookup_overfull": r["info"].get("lookup_overfull", False), "mixed_containers": r["info"].get("mixed_containers", False)}
        mine = []
        check_prefix(r["orig"], j["outs"], len(fchain) - 1, fchain, r["final_rows"], note, mine, info, sigfs)
        if mine and j["mode"] != "raw" and _alone_finalized(members[k], r, chain, FIN):
            viol.extend(r["alone_fin"]); note("collection.read_unjudged"); continue
        note("oracle.collection.read")
        note("oracle.collection.read." + j.get("detail", j["where"]).replace(" ", "-"))
        note("oracle.collection.read." + j["mode"])
        if layout_of(r["orig"]) == "mixed": note("oracle.keyorder.mixed.collection-read")
        if tight: note("oracle.collection.lookup_shared_table_would_overflow")
        any_changed = any_changed or info["changed"]
        for sig, what in mine:
            viol.append((pre + sig, f"environment {k} of {len(members)} (read {j.get('detail', j['where'])}, {j['mode']}; reads {spec['reads']}, interleave={bool(spec.get('interleave'))}): {what}"))
    # ---- name the shortcut that is responsible: the shortest prefix of the chain that already breaks over the collection
    nref = len(viol) - sum(1 for sg, _ in viol if sg.startswith("several-environments/"))
    if len(viol) > nref and len(chain) > 1 and not spec.get("_noloc"):
        for i in range(1, len(chain)):
            try: sub = [x for x in check_collection(dict(spec, chain=chain[:i], _noloc=True)) if x[0].startswith("several-environments/")]
            except Exception: sub = []
            if sub:
                viol = [x for x in viol if not x[0].startswith("several-environments/")] + [(sg, f"[already after the first {i} of {len(chain)} shortcuts] {w}") for sg, w in sub]
                break
    if ctx:
        ctx.case(("collection", tuple((ms["ikind"], ms["akind"], ms["rkind"]) for ms in members), tuple(fname(f) for f in chain),
                  tuple(sorted({(j["where"], j["mode"]) for j in jobs}))), nontrivial=any_changed)
    return _dedup(viol)

def _alone_finalized(ms, r, chain, FIN):
    """a finalized read of a collection failed: does the member alone (same chain as fresh filter objects, then
    BatchSafe(Finalize)) fail as well?  Then what is wrong is not about the collection and is reported under the
    single-environment signatures (cached in r['alone_fin']; [] = alone it holds)."""
    if "alone_fin" in r: return r["alone_fin"]
    v = []
    fchain = chain + [FIN]
    try:
        cur = build(ms)
        for g in chain: cur = list(make_filter(g).filter(cur))
        fin = list(make_filter(FIN).filter(cur))
        info = dict(r["info"], dead=set(r["info"]["dead"]))
        check_prefix(r["orig"], fin, len(fchain) - 1, fchain, r["final_rows"], (lambda *a, **k: None), v, info)
    except Exception as e:
        p0 = r["final_rows"][0] if r["final_rows"] else {}
        field = _attribute_raise(FIN, r["final_rows"])
        if field is not None:
            rt = _rtype_rows(r["final_rows"], field)
            v.append((f"BatchSafe(Finalize)/filter/{field}:{rt}/mode=raise:{type(e).__name__}",
                      f"reading the environment alone through BatchSafe(Finalize) after {[fname(f) for f in chain]} raised {e!r}"))
    r["alone_fin"] = v
    return v

class ListEnvAdapter:
    """a minimal Environment: read() yields freshly built interactions"""
    def __init__(self, spec, ident=None): self._spec = spec; self._id = ident
    @property
    def params(self): return {} if self._id is None else {"id": self._id}
    def read(self): return build(self._spec)

def _dedup(viol):
    seen, out = set(), []
    for s, w in viol:
        if s in seen: continue
        seen.add(s); out.append((s, w))
    return out

# ------------------------------------------------------------------------------------------ entry points
def run_shard(ctx):
    import warnings
    warnings.simplefilter("ignore")
    i = 0
    while i < ctx.n and ctx.time_left() > 0:
        spec = gen_case(ctx.rng)
        try:
            v = check_case(spec, ctx)
        except Exception as e:       # a bug of the harness, never a verdict about coba
            import traceback
            ctx.note_inconclusive(f"harness-exception {type(e).__name__}: {e} :: {traceback.format_exc()[-800:]}")
            break
        if i < 2 and not spec.get("collection"):
            ctx.sample({"ikind": spec["ikind"], "akind": spec["akind"], "rkind": spec["rkind"], "actions0": spec["actions"][0],
                        "chain": [fname(f) for f in spec["chain"]], "via": spec["via"]})
        elif i < 4 and spec.get("collection"):
            ctx.sample({"collection": [{"ikind": ms["ikind"], "akind": ms["akind"], "actions0": ms["actions"][0]} for ms in spec["members"]],
                        "chain": [fname(f) for f in spec["chain"]], "reads": spec["reads"], "interleave": spec["interleave"]})
        for sig, what in v:
            ctx.violation(sig, what, spec)
        i += 1
    ctx.count("cases", i)
    if i < ctx.n: ctx.extra["cases_skipped_for_time"] = ctx.n - i

def replay(witness):
    import warnings
    warnings.simplefilter("ignore")
    return check_case(witness)
