"""C16 -- Built-in learners always return a valid, self-consistent distribution.

Runtime monitoring of the REAL learner classes (coba.learners.bandit / corral / misguided) under generated
histories:

* icontract `ensure` on predict / score of RandomLearner, FixedLearner, BanditEpsilonLearner, BanditUCBLearner,
  CorralLearner and MisguidedLearner (action offered, probability in (0,1], probability == score for the four
  deterministic-policy learners, score in [0,1]) and an icontract `invariant` on CorralLearner (weights strictly
  positive and |sum-1| <= 1e-3).  The contracts sit on the classes, so base learners that run *inside* Corral
  (behind SafeLearner) are checked as well.
* after every learn the harness re-issues score for every offered action (non-negative, sums to 1 within 1e-9 for
  the deterministic-policy learners) and every history ends with one more predict ("never left unable to predict").
* non-termination is decided by LOGICAL STEPS: a sys.monitoring LINE counter on the code objects of
  CorralLearner._log_barrier_omd (incl. its nested binary_search / lambdas); more than 10**6 line events inside one
  learn => violation (a bisection over doubles needs ~1100 halvings ~ 10**4 line events).  A wall-clock alarm is
  only a backstop and yields INCONCLUSIVE.
* ADVERSARIAL SEEDS (rare generator states are constructed, not waited for): coba's generator is the LCG
  s <- (116646453*s + 9) mod 2^30 with uniform s/2^30.  By inverting it the harness computes, for k = 1..40, the
  seed that puts the LARGEST uniform (1-2^-30) resp. the uniform that is EXACTLY 0.0 on the k-th draw of one
  learner's own generator (the learner under test, or one base learner inside a Corral; a Corral seeds its generator
  with seed*1.234, so its seed is a 52-bit integer whose product is an exact integer congruent to the wanted state).
  The same contracts watch those histories: an extreme draw must still select an action whose current probability is
  positive and report that probability -- also when the pmf the learner samples from does not sum to exactly 1
  (Corral's weights are only 1e-4 accurate; FixedLearner accepts any pmf with round(sum,3)==1).  The harness reads the
  generator state back (frame of the real generator) and counts the cases in which the extreme draw was really made.
* CALLER-OWNED OBJECTS (sharing pattern): in the "shared" histories the caller keeps ONE actions list (and one context
  object) for the whole history and edits it IN PLACE between the calls (append / pop / del / item assignment / slice
  assignment / clear+extend) -- the offered set of round t+1 arrives in the very list object that carried round t's set;
  the edit happens either before the round's predict or between learn and the score calls.  The answer must be the one
  for the actions that are offered NOW: all contracts above apply unchanged, and for the deterministic-policy learners
  a TWIN learner of the same configuration is fed the same (context, action, reward, probability) history but only ever
  sees fresh, equal copies of the objects; predict's probability and every score of the learner under test must equal
  the twin's score (1e-12): the policy is a function of the history and of the VALUE of what is offered.
"""
import sys, os, math, signal, traceback, subprocess, json, copy
from collections import Counter

ID    = "C16"
LEVEL = "exploration"
RULE  = ("seeded histories (length 0-400) of (context, offered action set, reward table in [0,1], on-policy or "
         "logged learn) against one learner tree: Random/Fixed/BanditEpsilon/BanditUCB, Corral over every non-empty "
         "subset of them (eta x T x mode grids), Misguided wrappers; action kinds int(0/1 incl.)/float/str/dense "
         "list/dense tuple/sparse dict/mixed/non-dict Mappings (MappingProxyType, UserDict, ChainMap, OrderedDict, a user "
         "Mapping)/user subclasses of the public Dense and Sparse ABCs/coba's own row objects (LazyDense, LazySparse, HeadDense, "
         "EncodeDense, DropOne, SparseDense, HashableDense, HashableSparse)/sparse and hashable-or-dense actions that differ but "
         "whose hashable versions have EQUAL HASHES (ints congruent mod 2^61-1, -1 vs -2, 0.5 vs 2^60); score is asked with the "
         "offered object or (30% of the histories) with an equal fresh copy, which is then also what a logged learn hands over; sets of size 1-6 that stay, permute, grow, shrink, swap or churn; a "
         "case is one history; distinct & non-trivial = distinct (learner configuration, action kind, action "
         "dynamics, reward pattern, logging mode) with history length >= 3; plus adversarial-seed histories: the seed "
         "of one learner (top learner or a base learner of a Corral) is computed by LCG inversion so that the k-th "
         "draw (k = 1..40, enumerated) of its own generator is the largest uniform 1-2^-30 or exactly 0.0, over Corral "
         "(both modes) and the PMFPredictor learners with pmfs holding leading / trailing zero entries and pmfs that "
         "sum to slightly less or more than 1; distinct = additionally (target, which uniform, k); plus shared-object "
         "histories: the caller owns ONE actions list (and one context object) and edits it in place between calls "
         "(element-wise append/pop/del/setitem, slice assignment, clear+extend; before predict or between learn and "
         "score) while the set grows / shrinks / swaps / churns / permutes, every learner family, deterministic-policy "
         "learners compared with a twin that only sees fresh equal copies; distinct = additionally (edit style, edit "
         "point, shared context)")
ADV_CASES = {"quick": 1600, "thorough": 16000}          # adversarial-seed histories (part of PLAN[...]["cases"])
ADV_DRAWS = 40
SHARE_CASES = {"quick": 640, "thorough": 8000}          # shared-object histories (part of PLAN[...]["cases"])
PLAN  = {"quick":    {"shards": 16, "cases": 2080 + ADV_CASES["quick"] + SHARE_CASES["quick"],        "timeout": 600,  "budget_s": 80},
         "thorough": {"shards": 16, "cases": 60000 + ADV_CASES["thorough"] + SHARE_CASES["thorough"], "timeout": 3000, "budget_s": 840}}
REQUIRED = ["contract.predict.action_offered", "contract.predict.prob_in_range", "contract.predict.prob_is_policy",
            "contract.score.in_range", "contract.corral.weights", "oracle.scores.sum_to_one", "oracle.learn.corral",
            "oracle.learn.logged", "oracle.final_predict", "monitor.omd.line_events", "oracle.learn.corral.eta>=10",
            "oracle.actions.changed_between_rounds", "oracle.reward.boundary",
            "adv.placed.corral.uniform=max", "adv.placed.corral.uniform=zero", "adv.placed.corral-base.uniform=max",
            "adv.placed.corral-base.uniform=zero", "adv.placed.pmf-learner.uniform=max", "adv.placed.pmf-learner.uniform=zero",
            "adv.reach.corral.uniform=max.draw>=sum(weights)", "adv.reach.corral.uniform=max.draw>=sum(weights)+last-action-prob=0",
            "adv.reach.corral.uniform=zero.first-action-prob=0", "adv.reach.pmf-learner.uniform=max.last-action-prob=0",
            "adv.reach.pmf-learner.uniform=zero.first-action-prob=0", "adv.reach.fixed.uniform=max.draw>=sum(pmf)+last-action-prob=0",
            "share.same-list-new-content.length-changed", "share.same-list-new-content.same-length",
            "share.same-list-new-content.first-seen-by=predict", "share.same-list-new-content.first-seen-by=score",
            "share.twin.score==fresh-copies", "share.twin.predict-prob==fresh-copies", "share.histories.corral",
            "share.histories.eps", "share.histories.ucb", "share.histories.misguided",
            "oracle.histories.actions=mapping", "oracle.histories.actions=abc", "oracle.histories.actions=rows",
            "oracle.histories.actions=dictc", "oracle.histories.actions=collide", "oracle.actions.equal-hash-pair-offered",
            "oracle.score.asked-with-equal-copy", "oracle.learn.logged-action-is-equal-copy"]
ASSUMPTIONS = [
    "score == predict's probability and sum(score)==1 are asserted only for Random/Fixed/BanditEpsilon/BanditUCB "
    "(and Misguided over them); Corral's policy is random given the history (it samples its base learners), so for "
    "Corral only validity (action offered, 0 < p <= 1, 0 <= score <= 1, to the 1e-3 slack of its own root search) is asserted",
    "Corral: T >= 2 (T=1 divides by log 1 = 0 in the constructor) and rewards in [0,1] (Misguided over Corral only "
    "with shift/scale that keep the reward in [0,1]); no nested Corral (importance mode hands base learners rewards > 1)",
    "FixedLearner only meets action sets of exactly len(pmf) actions, pmf sums to 1 within 1e-12; only the adversarial-seed "
    "histories also use pmfs that FixedLearner's own precondition accepts (entries in [0,1], |sum-1| <= 4e-4): there the scores "
    "must sum to 1 within 1e-3 only, everything else (action offered, probability > 0, probability == score) is asserted as usual",
    "action sets hold no duplicates (incl. 1 vs 1.0 and list [1,0] vs tuple (1,0)); logged actions are members of the offered set; "
    "logged probabilities lie in [1e-6, 1], and in Corral histories of the class xprop in [1e-30, 1e-9] (importance weights up to 1e30; open finding); the action handed to score / a logged learn is an offered object or == to one (an equal object of the "
    "same type); dense / sparse actions hold hashable values (numbers, strings)",
    "adversarial seeds: the generator state is read from the frame of the real generator (reach accounting and the /uniform= "
    "suffix of a signature only; no verdict depends on it); Corral seeds are 52-bit integers (any int is a legal seed)",
    "shared-object histories: only the CONTAINERS the caller owns are edited in place (the actions list, a list/dict context); "
    "an action object itself (a dense list / sparse dict the learner may have learned about) is never modified; the list always "
    "holds a legal action set (no duplicates, >= 1 action) at the time of a call; the twin comparison is made only for "
    "Random/Fixed/BanditEpsilon/BanditUCB and Misguided over them (their policy is a deterministic function of the history); "
    "for Corral only the validity contracts apply",
]

STEP_LIMIT   = 10**6
CASE_WALL_S  = 240

class ContractBroken(Exception):
    def __init__(self, tag, detail=""):
        super().__init__(f"{tag}: {detail}")
        self.tag = tag
class StepBudget(BaseException): pass
class WallClock(BaseException): pass

# ------------------------------------------------------------------------------------------ monitors
_CNT   = Counter()
_STEPS = [0, 0]       # [line events in the current learn, max seen in any learn]
_INSTALLED = [False]

def _codes(code):
    yield code
    for k in code.co_consts:
        if hasattr(k, "co_code"): yield from _codes(k)

def _on_line(code, line):
    _STEPS[0] += 1
    if _STEPS[0] > STEP_LIMIT:
        raise StepBudget(f"more than {STEP_LIMIT} line events in CorralLearner._log_barrier_omd during one learn "
                         f"(last: {code.co_name}:{line})")

def _member(x, actions):
    for a in actions:
        if x is a: return True
    for a in actions:
        try:
            if x == a: return True
        except Exception: pass
    return False

def _num(p): return isinstance(p, (int, float)) and not isinstance(p, bool) and p == p

def _install():
    """contracts + step counter on the real classes (idempotent)"""
    if _INSTALLED[0]: return
    import icontract
    from coba.learners.bandit import RandomLearner, FixedLearner, BanditEpsilonLearner, BanditUCBLearner
    from coba.learners.corral import CorralLearner
    from coba.learners.misguided import MisguidedLearner

    # --- logical step counter on the root search
    M = sys.monitoring
    tool = None
    for t in (4, 3, 5, 2):
        try: M.use_tool_id(t, "vf-c16"); tool = t; break
        except ValueError: continue
    if tool is None: raise RuntimeError("no free sys.monitoring tool id")
    M.register_callback(tool, M.events.LINE, _on_line)
    omd = CorralLearner.__dict__["_log_barrier_omd"]
    omd = getattr(omd, "__func__", omd)
    n = 0
    for c in _codes(omd.__code__):
        M.set_local_events(tool, c, M.events.LINE); n += 1
    _CNT["monitor.omd.code_objects"] = n

    def ens(cls, meth, cond, tag):
        def err(**kw):
            r = kw.get("result")
            return ContractBroken(f"{cls.__name__}.{meth}/{tag}", f"result={r!r} actions={kw.get('actions')!r}"[:400])
        # icontract inspects the signature of `error`: give it exactly the arguments of the condition
        import inspect
        names = list(inspect.signature(cond).parameters)
        src = f"lambda {', '.join(names)}: _err({', '.join(f'{n}={n}' for n in names)})"
        error = eval(src, {"_err": err})
        setattr(cls, meth, icontract.ensure(cond, error=error)(getattr(cls, meth)))

    # --- predict
    def action_offered(actions, result):
        _CNT["contract.predict.action_offered"] += 1
        return isinstance(result, tuple) and len(result) >= 2 and _member(result[0], actions)
    def prob_in_range_exact(result):
        _CNT["contract.predict.prob_in_range"] += 1
        return _num(result[1]) and 0 < result[1] <= 1 + 1e-9
    def prob_in_range_corral(result):
        _CNT["contract.predict.prob_in_range"] += 1
        return _num(result[1]) and 0 < result[1] <= 1 + 1e-3
    def prob_is_policy(self, context, actions, result):
        _CNT["contract.predict.prob_is_policy"] += 1
        return abs(self.score(context, actions, result[0]) - result[1]) <= 1e-12
    def corral_info(self, result):
        _CNT["contract.predict.corral_info"] += 1
        return len(result) == 3 and isinstance(result[2], dict) and "info" in result[2] and len(result[2]["info"]) == 3 \
               and all(len(x) == len(self._base_lrns) for x in result[2]["info"])
    # --- score
    def score_in_range_exact(result):
        _CNT["contract.score.in_range"] += 1
        return _num(result) and 0 <= result <= 1 + 1e-9
    def score_in_range_corral(result):
        _CNT["contract.score.in_range"] += 1
        return _num(result) and 0 <= result <= 1 + 1e-3

    for cls in (RandomLearner, FixedLearner, BanditEpsilonLearner, BanditUCBLearner):
        ens(cls, "score",   score_in_range_exact, "score-out-of-range")
        ens(cls, "predict", prob_is_policy,       "prob!=score")
        ens(cls, "predict", prob_in_range_exact,  "prob-out-of-range")
        ens(cls, "predict", action_offered,       "action-not-offered")
    ens(CorralLearner, "score",   score_in_range_corral, "score-out-of-range")
    ens(CorralLearner, "predict", prob_in_range_corral,  "prob-out-of-range")
    ens(CorralLearner, "predict", action_offered,        "action-not-offered")
    # Misguided: the statement only speaks about wrappers of the built-in learners (coba's unit tests wrap mocks)
    BUILTIN = (RandomLearner, FixedLearner, BanditEpsilonLearner, BanditUCBLearner, CorralLearner)
    def wraps_builtin(m):
        l = m._learner
        while isinstance(l, MisguidedLearner): l = l._learner
        return isinstance(l, BUILTIN)
    def mis_score_in_range(self, result):      return not wraps_builtin(self) or score_in_range_corral(result)
    def mis_prob_in_range(self, result):       return not wraps_builtin(self) or prob_in_range_corral(result)
    def mis_action_offered(self, actions, result): return not wraps_builtin(self) or action_offered(actions, result)
    ens(MisguidedLearner, "score",   mis_score_in_range, "score-out-of-range")
    ens(MisguidedLearner, "predict", mis_prob_in_range,  "prob-out-of-range")
    ens(MisguidedLearner, "predict", mis_action_offered, "action-not-offered")
    ens(CorralLearner, "predict", corral_info, "info-malformed")

    # --- Corral weights invariant (checked around every public call, i.e. after every learn)
    def weights_positive(self):
        _CNT["contract.corral.weights"] += 1
        return all(_num(p) and p > 0 for p in self._ps) and all(_num(p) and p > 0 for p in self._p_bars)
    def weights_sum_to_one(self):
        _CNT["contract.corral.weights_sum"] += 1
        return abs(sum(self._ps) - 1) <= 1e-3 and abs(sum(self._p_bars) - 1) <= 1e-3
    icontract.invariant(weights_positive,   error=lambda self: ContractBroken("CorralLearner/weights-not-strictly-positive", f"ps={self._ps} p_bars={self._p_bars}"[:400]))(CorralLearner)
    icontract.invariant(weights_sum_to_one, error=lambda self: ContractBroken("CorralLearner/weights-sum!=1", f"sum(ps)={sum(self._ps)!r} sum(p_bars)={sum(self._p_bars)!r} ps={self._ps}"[:400]))(CorralLearner)
    _INSTALLED[0] = True

# ------------------------------------------------------------------------------------------ generators
ETAS  = [1e-3, .075, 1, 10, 100]
TS    = [2, 10, 1000, "inf"]
EPSS  = [0, .05, .5, 1]
MODES = ["importance", "off-policy"]
BASES = ["random", "fixed", "eps", "ucb"]
AKINDS = ["int", "int01", "float", "str", "list", "tuple", "dict", "mixed",
          "mapping", "abc", "rows", "dictc", "collide"]            # see gen_universe
NEW_AKINDS = {"mapping": "non-dict-Mapping", "abc": "user-subclass-of-Dense/Sparse-ABC", "rows": "coba-row-object"}
SPARSE_TAGS = ("d", "mp", "ud", "cm", "od", "um", "US", "LS", "LSc", "hs")
DENSE_TAGS  = ("l", "t", "UD", "LD", "LDc", "HD", "ED", "DO", "SD", "hd")
P61 = 2**61 - 1                                                     # CPython: hash(n) == n mod P61 (sign kept), hash(-1) == -2
DYNAMICS = ["fixed", "permute", "grow", "shrink", "swap", "churn", "single"]
REWARDS  = ["zeros", "ones", "half", "boundary", "ties3", "uniform", "best-arm", "near-boundary", "worst-arm"]
LOGGING  = ["on-policy", "on-policy", "mixed", "all-logged"]
LENGTHS  = [0, 1, 2, 3, 5, 8, 15, 30, 30, 60, 60, 100, 100, 150, 250, 400]
FIXED_PMFS = {1: [[1.0]],
              2: [[.5, .5], [1.0, 0.0], [.25, .75]],
              3: [[.25, .25, .5], [0.0, 1.0, 0.0], [.5, .5, 0.0], [.125, .375, .5]],
              4: [[.25]*4, [0.0, 0.0, .5, .5], [.125, .125, .25, .5]],
              5: [[.2]*5, [0.5, 0.0, 0.0, 0.0, 0.5]],
              6: [[.125, .125, .125, .125, .25, .25], [0.0]*5 + [1.0]]}
MIS_UNIT = [[0, 1], [1, -1], [.5, .5], [0, .5], [.25, .5]]                 # keep [0,1] inside [0,1]
MIS_ANY  = MIS_UNIT + [[-1, 2], [10, -3], [0, 0], [0, 100], [-.5, 1]]

def gen_universe(rng, kind):
    n = 10
    if kind == "int":   return [["i", i] for i in range(2, 2+n)]
    if kind == "int01": return [["i", i] for i in range(0, n)]                       # 0/1 are re-typed to floats by SafeLearner
    if kind == "float": return [["f", .25*i] for i in range(n)]
    if kind == "str":   return [["s", s] for s in ["a", "b", "c", "ab", "ba", "", "A", "1", "x y", "zz"]]
    if kind == "list":  return [["l", [int(j == i) for j in range(n)]] for i in range(n)]
    if kind == "tuple": return [["t", [i, i % 3]] for i in range(n)]                  # 2-tuples: same shape as (action, prob)
    if kind == "dict":  return [["d", {"abcdefghij"[i]: 1}] for i in range(n-3)] + [["d", {"a": 1, "b": 1}], ["d", {"a": 2}], ["d", {}]]
    if kind == "mixed": return [["i", 2], ["s", "a"], ["t", [1, 0]], ["d", {"a": 1}], ["l", [0, 1, 0]], ["f", 2.5], ["i", 7], ["s", "7"], ["d", {"b": 1}], ["t", [3]]]
    onehot = lambda i: [int(j == i) for j in range(n)]
    sparse = lambda i: {"abcdefghij"[i]: 1} if i < n - 3 else [{"a": 1, "b": 1}, {"a": 2}, {}][i - (n - 3)]
    if kind == "mapping":
        # sparse actions that are Mappings but not dicts (every collections.abc.Mapping is registered as coba.primitives.Sparse)
        tags = ["mp", "ud", "cm", "um", "od"]
        off = rng.randrange(len(tags))
        return [[tags[(i + off) % len(tags)], sparse(i)] for i in range(n)]
    if kind == "abc":
        # rows of a user who implements the public interfaces coba.primitives.Dense / Sparse (plain subclasses of the ABCs)
        flip = rng.randrange(2)
        return [["UD", onehot(i)] if (i + flip) % 2 else ["US", sparse(i)] for i in range(n)]
    if kind == "rows":
        # the row objects coba's own readers / filters produce, and the hashable wrappers themselves
        tags = ["LD", "LS", "LDc", "LSc", "HD", "ED", "DO", "SD", "hd", "hs"]
        off = rng.randrange(len(tags))
        out = []
        for i in range(n):
            tg = tags[(i + off) % len(tags)]
            out.append([tg, sparse(i) if tg in SPARSE_TAGS else onehot(i)])
        return out
    if kind == "dictc":
        # sparse actions in groups whose item sets have EQUAL HASHES although they differ (ints congruent mod 2^61-1, -1 vs -2)
        return [["d", {"x": -1}], ["d", {"x": -2}], ["d", {"x": -2 - P61}], ["d", {"x": -2**62}],
                ["d", {"id": 0, "w": .5}], ["d", {"id": P61, "w": .5}], ["d", {"id": 2*P61, "w": .5}],
                ["d", {"y": 1}], ["d", {"y": 2**61}], ["d", {"z": 3}]]
    if kind == "collide":
        # the same for hashable / dense actions (equal hashes, different values; 0.5 and 2^60 hash alike as well)
        return [["i", -1], ["i", -2], ["i", -2 - P61], ["l", [-1, 0]], ["l", [-2, 0]], ["t", [0, 1]], ["t", [P61, 1]],
                ["f", .5], ["i", 2**60], ["s", "a"]]
    raise ValueError(kind)

_TYPES = {}
def _action_types():
    """action classes that need coba (imported lazily: the tree under test is chosen at run time)"""
    if _TYPES: return _TYPES
    from collections import abc as cabc
    from coba.primitives import Dense, Sparse
    class UserDense(Dense):
        def __init__(self, vals): self._vals = list(vals)
        def __getitem__(self, i): return self._vals[i]
        def __len__(self):        return len(self._vals)
        def __iter__(self):       return iter(self._vals)
        def __repr__(self):       return f"UserDense({self._vals})"
    class UserSparse(Sparse):
        def __init__(self, kv):   self._kv = dict(kv)
        def __getitem__(self, k): return self._kv[k]
        def __len__(self):        return len(self._kv)
        def __iter__(self):       return iter(self._kv)
        def keys(self):           return self._kv.keys()
        def items(self):          return self._kv.items()
        def __repr__(self):       return f"UserSparse({self._kv})"
    class UserMapping(cabc.Mapping):
        def __init__(self, kv):   self._kv = dict(kv)
        def __getitem__(self, k): return self._kv[k]
        def __len__(self):        return len(self._kv)
        def __iter__(self):       return iter(self._kv)
        def __repr__(self):       return f"UserMapping({self._kv})"
    _TYPES.update(UD=UserDense, US=UserSparse, um=UserMapping)
    return _TYPES

def decode_action(enc):
    """a NEW object for the encoded action (every call)"""
    k, v = enc
    if k == "l": return list(v)
    if k == "t": return tuple(v)
    if k == "d": return dict(v)
    if k in ("i", "f", "s"): return v
    if k == "mp":
        from types import MappingProxyType
        return MappingProxyType(dict(v))
    if k in ("ud", "cm", "od"):
        import collections
        return {"ud": collections.UserDict, "cm": collections.ChainMap, "od": collections.OrderedDict}[k](dict(v))
    if k in ("um", "UD", "US"): return _action_types()[k](v)
    from coba.primitives import HashableDense, HashableSparse
    if k == "hd": return HashableDense(list(v))
    if k == "hs": return HashableSparse(dict(v))
    from coba.pipes.rows import LazyDense, LazySparse, HeadDense, EncodeDense, DropOne, SparseDense
    if k == "LD":  return LazyDense(list(v))
    if k == "LDc": return LazyDense(lambda v=list(v): list(v))                        # loaded on first use
    if k == "HD":  return HeadDense(list(v), {"c%d" % i: i for i in range(len(v))})
    if k == "ED":  return EncodeDense([str(e) for e in v], [float]*len(v))
    if k == "DO":  return DropOne([9] + list(v), 0)
    if k == "SD":  return SparseDense({i: e for i, e in enumerate(v) if e != 0}, len(v))
    if k == "LS":  return LazySparse(dict(v))
    if k == "LSc": return LazySparse(lambda v=dict(v): dict(v))
    raise ValueError(k)

def action_hash(enc):
    """the hash the learners' hashable version of this action has (dense: tuple of the values, sparse: frozenset of the items)"""
    k, v = enc
    if k in SPARSE_TAGS: return hash(frozenset(v.items()))
    if k == "ED": return hash(tuple(float(e) for e in v))
    if k in DENSE_TAGS: return hash(tuple(v))
    return hash(v)

def gen_base(rng, kind, n_fixed):
    seed = rng.randint(1, 1000)
    if kind == "random": return {"k": "random", "seed": seed}
    if kind == "fixed":  return {"k": "fixed", "pmf": rng.choice(FIXED_PMFS[n_fixed]), "seed": seed}
    if kind == "eps":    return {"k": "eps", "epsilon": rng.choice(EPSS) if rng.random() < .8 else round(rng.random(), 3), "seed": seed}
    if kind == "ucb":    return {"k": "ucb", "seed": seed}
    raise ValueError(kind)

def gen_corral(rng, n_fixed, allow_fixed):
    kinds = [k for k in BASES if (allow_fixed or k != "fixed") and rng.random() < .5]
    if not kinds: kinds = [rng.choice([k for k in BASES if allow_fixed or k != "fixed"])]
    if rng.random() < .15: kinds.append(rng.choice(["eps", "ucb"]))                  # the same family twice
    rng.shuffle(kinds)
    return {"k": "corral", "eta": rng.choice(ETAS), "T": rng.choice(TS), "mode": rng.choice(MODES),
            "seed": rng.randint(1, 1000), "bases": [gen_base(rng, k, n_fixed) for k in kinds]}

def has_kind(l, kind):
    if l["k"] == kind: return True
    if l["k"] == "corral": return any(has_kind(b, kind) for b in l["bases"])
    if l["k"] == "misguided": return has_kind(l["inner"], kind)
    return False

def _fixed_pmfs(l):
    if l["k"] == "fixed": yield l["pmf"]
    elif l["k"] == "corral":
        for b in l["bases"]: yield from _fixed_pmfs(b)
    elif l["k"] == "misguided": yield from _fixed_pmfs(l["inner"])

def is_deterministic(l):
    return l["k"] in BASES or (l["k"] == "misguided" and is_deterministic(l["inner"]))

def learner_sig(l):
    if l["k"] == "corral":    return ("corral", tuple(sorted(b["k"] for b in l["bases"])), l["eta"], l["T"], l["mode"])
    if l["k"] == "misguided": return ("misguided", tuple(l["sh"]), learner_sig(l["inner"]))
    if l["k"] == "eps":       return ("eps", l["epsilon"] if l["epsilon"] in EPSS else "other")
    if l["k"] == "fixed":     return ("fixed", len(l["pmf"]), 0.0 in l["pmf"])
    return (l["k"],)

def gen_case(rng):
    akind  = rng.choice(AKINDS)
    dyn    = rng.choice(DYNAMICS)
    n0     = rng.randint(1, 6)
    r = rng.random()
    top = "corral" if r < .5 else "misguided" if r < .65 else rng.choice(BASES)
    if top == "corral":
        allow_fixed = dyn in ("fixed", "permute", "swap", "churn", "single")
        learner = gen_corral(rng, n0 if dyn != "single" else 1, allow_fixed)
    elif top == "misguided":
        if rng.random() < .45:
            inner = gen_corral(rng, n0 if dyn != "single" else 1, dyn in ("fixed", "permute", "swap", "churn", "single"))
            sh = rng.choice(MIS_UNIT)
        else:
            k = rng.choice(BASES)
            if k == "fixed" and dyn in ("grow", "shrink"): dyn = "swap"
            inner = gen_base(rng, k, n0 if dyn != "single" else 1); sh = rng.choice(MIS_ANY)
        learner = {"k": "misguided", "sh": sh, "inner": inner}
    else:
        if top == "fixed" and dyn in ("grow", "shrink"): dyn = "swap"
        learner = gen_base(rng, top, n0 if dyn != "single" else 1)
    spec = _gen_history(rng, learner, akind, dyn, n0)
    if rng.random() < .3: spec["scorearg"] = "equal-copy"       # score is asked about an equal, but not identical, action object
    return spec

def _gen_history(rng, learner, akind, dyn, n0, length=None):
    const_size = has_kind(learner, "fixed")

    universe = gen_universe(rng, akind)
    U = len(universe)
    if length is None: length = rng.choice(LENGTHS)
    rpat   = rng.choice(REWARDS)
    logm   = rng.choice(LOGGING)
    best   = rng.randrange(U)
    # a class of its own (decided by a generator derived from the case so that the other histories stay what they were)
    import random as _r
    xprop  = logm != "on-policy" and has_kind(learner, "corral") and _r.Random(f"xprop/{akind}/{dyn}/{n0}/{length}/{rpat}/{learner!r}").random() < .12

    if dyn == "single": cur = [rng.randrange(U)]
    elif dyn == "grow" and not const_size:   cur = rng.sample(range(U), rng.randint(1, 2))
    elif dyn == "shrink" and not const_size: cur = rng.sample(range(U), 6)
    else: cur = rng.sample(range(U), n0)
    period = rng.choice([1, 3, 10, 40])
    rounds = []
    for t in range(length + 1):                      # the last entry is only predicted / scored (no learn)
        if t > 0:
            if dyn == "permute": cur = rng.sample(cur, len(cur))
            elif dyn == "grow" and t % period == 0 and len(cur) < 6:
                cur = cur + [rng.choice([i for i in range(U) if i not in cur])]
            elif dyn == "shrink" and t % period == 0 and len(cur) > 1:
                cur = list(cur); cur.pop(rng.randrange(len(cur)))
            elif dyn == "swap" and rng.random() < .3 and len(cur) < U:
                cur = list(cur); cur[rng.randrange(len(cur))] = rng.choice([i for i in range(U) if i not in cur])
            elif dyn == "churn":
                cur = rng.sample(range(U), len(cur) if const_size else rng.randint(1, 6))
        A = list(cur)
        if   rpat == "zeros":    rs = [0]*len(A)
        elif rpat == "ones":     rs = [1]*len(A)
        elif rpat == "half":     rs = [.5]*len(A)
        elif rpat == "boundary": rs = [rng.choice([0, 1]) for _ in A]
        elif rpat == "ties3":    rs = [rng.choice([0, .5, 1]) for _ in A]
        elif rpat == "uniform":  rs = [rng.random() for _ in A]
        elif rpat == "best-arm": rs = [int(a == best or (best not in A and i == 0)) for i, a in enumerate(A)]
        elif rpat == "worst-arm": rs = [1 - int(a == best or (best not in A and i == 0)) for i, a in enumerate(A)]
        else:                    rs = [rng.choice([1e-12, 1 - 1e-12, 0.0, 1.0, 5e-324]) for _ in A]
        log = None
        if logm == "all-logged" or (logm == "mixed" and rng.random() < .3):
            lp = rng.choice([1.0, .5, 1/len(A), 1/len(A), .1, .01, 1e-3]) if rng.random() < .97 else 1e-6
            # extreme propensities (a logging policy that almost never took the action): importance weights of 1e9 .. 1e30
            if xprop and rng.random() < .5: lp = rng.choice([1e-9, 1e-11, 1e-12, 1e-14, 1e-16, 1e-18, 1e-30])
            log = [rng.randrange(len(A)), lp]
        x = rng.choice([None, None, 1, "c", [1, 2], {"x": 1}])
        rounds.append({"x": x, "A": A, "r": rs, "log": log})
    return {"learner": learner, "universe": universe, "rounds": rounds,
            "meta": {"akind": akind, "dyn": dyn, "rpat": rpat, "logm": logm, **({"xprop": True} if xprop else {})}}

# ------------------------------------------------------------------------------------------ adversarial seeds
LCG_A, LCG_C, LCG_M = 116646453, 9, 2**30          # coba.random.CobaRandom: s <- (A*s + C) mod M, uniform = s/M
LCG_AINV  = pow(LCG_A, -1, LCG_M)
ADV_STATE = {"max": LCG_M - 1, "zero": 0}          # the generator states whose uniforms are 1-2^-30 and exactly 0.0

def lcg_seed_for(state, k):
    """the seed in [0,2^30) whose k-th draw (1-based) leaves the generator in `state`"""
    for _ in range(k): state = (LCG_AINV * (state - LCG_C)) % LCG_M
    return state

def corral_seed_for(g):
    """an int seed S for CorralLearner whose own generator starts in a state congruent to g (mod 2^30): Corral hands
    S*1.234 (a float) to CobaRandom, which uses int(x) when x is integral; every float in [2^52, 2^53) is an integer"""
    base = 1 << 52
    for j in range(4000):
        N = base + ((g - base) % LCG_M) + j * LCG_M
        S = round(N / 1.234)
        for d in (0, -1, 1, -2, 2):
            x = (S + d) * 1.234
            if x == N and x.is_integer() and int(x) % LCG_M == g: return S + d
    raise RuntimeError("no Corral seed found")

def gen_adv_pmf(rng, n):
    """pmfs for FixedLearner with zero entries in front / at the end; some sum to slightly less / more than 1
    (still inside FixedLearner's own precondition round(sum,3)==1, every entry in [0,1])"""
    def one_hot():
        p = [0.0]*n; p[rng.randrange(n)] = 1.0; return p
    def two_point():
        p = [0.0]*n
        i, j = rng.sample(range(n), 2); p[i] = p[j] = .5; return p
    r = rng.random()
    if r < .25: return one_hot()
    if r < .40: return two_point()
    if r < .50: return list(rng.choice(FIXED_PMFS[n]))
    d = rng.choice([4e-4, 1e-4, 3e-5, 1e-6, 1e-8])
    if rng.random() < .75:                                             # sums to less than 1
        p = one_hot() if rng.random() < .6 else two_point()
        i = rng.choice([i for i, v in enumerate(p) if v > 0]); p[i] -= d
    else:                                                              # sums to more than 1
        p = two_point()
        i = rng.choice([i for i, v in enumerate(p) if v > 0]); p[i] += d
    assert round(sum(p), 3) == 1 and all(0 <= v <= 1 for v in p)
    return p

def gen_adv_base(rng, n):
    k = rng.choice(["fixed", "fixed", "fixed", "eps", "eps", "ucb", "ucb", "random"])
    seed = rng.randint(1, 1000)
    if k == "fixed": return {"k": "fixed", "pmf": gen_adv_pmf(rng, n), "seed": seed}
    if k == "eps":   return {"k": "eps", "epsilon": rng.choice([0, 0, 0, .05, .5, 1]), "seed": seed}
    return {"k": k, "seed": seed}

def gen_adv_case(rng, j):
    """a short history in which the k-th draw of ONE learner's own generator is an extreme uniform; j enumerates (k, uniform)"""
    uniform = "zero" if (j // ADV_DRAWS) % 3 == 2 else "max"
    k = 1 + j % ADV_DRAWS
    n = rng.randint(2, 6)
    akind = rng.choice(AKINDS)
    if rng.random() < .68:
        learner = {"k": "corral", "eta": rng.choice(ETAS), "T": rng.choice(TS), "mode": rng.choice(MODES), "seed": rng.randint(1, 1000),
                   "bases": [gen_adv_base(rng, n) for _ in range(rng.choice([1, 2, 2, 2, 3, 3]))]}
        if rng.random() < .12: learner = {"k": "misguided", "sh": rng.choice(MIS_UNIT), "inner": learner}
    else:
        learner = gen_adv_base(rng, n)
        if rng.random() < .15: learner = {"k": "misguided", "sh": rng.choice(MIS_ANY), "inner": learner}
    core, target = _innermost(learner), "top"
    tl = core
    if core["k"] == "corral" and rng.random() < .25:
        i = rng.randrange(len(core["bases"]))
        target, tl = f"base:{i}", core["bases"][i]
    g = lcg_seed_for(ADV_STATE[uniform], k)
    tl["seed"] = corral_seed_for(g) if tl["k"] == "corral" else g
    if has_kind(learner, "fixed"): dyn = rng.choice(["fixed", "fixed", "permute", "swap"])
    else:                          dyn = rng.choice(["fixed", "fixed", "permute", "swap", "churn", "grow", "shrink"])
    spec = _gen_history(rng, learner, akind, dyn, n, length=k + rng.choice([0, 1, 1, 2, 3]))
    if target == "top" and rng.random() < .7: spec["rounds"][k-1]["log"] = None     # learn on-policy from the extreme draw
    spec["adv"] = {"target": target, "target_kind": tl["k"], "draw": k, "uniform": uniform}
    spec["meta"]["adv"] = [target.split(":")[0], tl["k"], uniform, k]
    return spec

# ------------------------------------------------------------------------------------------ caller-owned objects
SHARE_EDITS  = ["elementwise", "elementwise", "slice", "clear-extend"]
SHARE_POINTS = ["before-predict", "before-predict", "before-score"]
SHARE_DYNS   = ["grow", "shrink", "swap", "churn", "churn", "permute", "fixed"]
SHARE_LENGTHS = [3, 5, 8, 15, 30, 30, 60, 100]

def gen_share_case(rng, j):
    """a history in which the caller keeps ONE actions list (and one context object) and edits it in place; j enumerates
    (learner family, edit point) so that every family meets every edit point in every shard"""
    fam   = ["eps", "ucb", "corral", "misguided", "eps", "ucb", "corral", "random", "eps", "ucb", "misguided", "fixed"][j % 12]
    point = SHARE_POINTS[(j // 12) % len(SHARE_POINTS)]
    akind = rng.choice(AKINDS)
    dyn   = rng.choice(SHARE_DYNS)
    n0    = rng.randint(2, 6)
    const = ("fixed", "permute", "swap", "churn")
    if fam == "corral":
        learner = gen_corral(rng, n0, dyn in const)
    elif fam == "misguided":
        k = rng.choice(["eps", "ucb", "eps", "ucb", "random", "fixed"])
        if k == "fixed" and dyn not in const: dyn = "swap"
        learner = {"k": "misguided", "sh": rng.choice(MIS_ANY), "inner": gen_base(rng, k, n0)}
    else:
        if fam == "fixed" and dyn not in const: dyn = "churn"
        learner = gen_base(rng, fam, n0)
    spec = _gen_history(rng, learner, akind, dyn, n0, length=rng.choice(SHARE_LENGTHS))
    spec["share"] = {"edit": rng.choice(SHARE_EDITS), "point": point, "context": rng.choice(["list", "dict", None])}
    spec["meta"]["share"] = [spec["share"]["edit"], point, spec["share"]["context"]]
    if rng.random() < .3: spec["scorearg"] = "equal-copy"
    return spec

def _edit_in_place(L, new, style):
    """make list L hold `new` WITHOUT creating a new list object; returns 'length-changed' / 'same-length' / None (no change)"""
    old_len = len(L)
    same = old_len == len(new) and all(a is b for a, b in zip(L, new))
    if same: return None
    if style == "slice":
        L[:] = new
    elif style == "clear-extend":
        L.clear(); L.extend(new)
    else:
        # the edits a caller that tracks "the arms available now" makes: retire arms that are gone (del / pop / remove-like),
        # overwrite positions whose arm changed, append the arms that arrived
        keep = [a for a in L if any(a is b for b in new)]
        if keep == [b for b in new if any(b is a for a in keep)] and len(keep) < len(L):
            for i in range(len(L) - 1, -1, -1):                       # pure removals keep the order of the survivors
                if not any(L[i] is b for b in new):
                    if i == len(L) - 1: L.pop()
                    else: del L[i]
        while len(L) > len(new): L.pop()
        for i in range(len(L)):
            if L[i] is not new[i]: L[i] = new[i]
        for b in new[len(L):]: L.append(b)
    assert len(L) == len(new) and all(a is b for a, b in zip(L, new))
    return "length-changed" if old_len != len(new) else "same-length"

def _fresh(obj):
    """a fresh, equal copy (what a caller that builds its objects anew on every round hands over)"""
    return copy.deepcopy(obj)

def _own_rng(obj):
    """the CobaRandom a learner object draws from (searched in its attributes, two levels deep; None if not found)"""
    from coba.random import CobaRandom
    def attrs(o):
        try: return list(vars(o).values())
        except TypeError: return []
    level = attrs(obj)
    for _ in range(2):
        for v in level:
            if isinstance(v, CobaRandom): return v
        level = [w for v in level if not isinstance(v, (list, tuple, dict, set, str, int, float, type(None))) for w in attrs(v)]
    for v in level:
        if isinstance(v, CobaRandom): return v
    return None

def _rng_state(rng):
    """LCG state of a real CobaRandom, read from the frame of its uniform generator (None if it cannot be read)"""
    try:
        fr = rng._randu.gi_frame
        if fr is None or fr.f_lasti < 0: return None                    # exhausted / no draw made yet
        s = fr.f_locals.get("s")
        return None if s is None else s % LCG_M
    except Exception:
        return None

# ------------------------------------------------------------------------------------------ build
def build(l, reg=None, path="top"):
    """reg (optional dict) receives the concrete learner objects: 'top' = the innermost non-Misguided learner, 'base:i' = Corral's bases"""
    from coba.learners.bandit import RandomLearner, FixedLearner, BanditEpsilonLearner, BanditUCBLearner
    from coba.learners.corral import CorralLearner
    from coba.learners.misguided import MisguidedLearner
    k = l["k"]
    if k == "misguided": return MisguidedLearner(build(l["inner"], reg, path), l["sh"][0], l["sh"][1])
    if   k == "random": o = RandomLearner(seed=l["seed"])
    elif k == "fixed":  o = FixedLearner(list(l["pmf"]), seed=l["seed"])
    elif k == "eps":    o = BanditEpsilonLearner(l["epsilon"], seed=l["seed"])
    elif k == "ucb":    o = BanditUCBLearner(seed=l["seed"])
    elif k == "corral":
        T = math.inf if l["T"] == "inf" else l["T"]
        o = CorralLearner([build(b, reg, f"base:{i}") for i, b in enumerate(l["bases"])], eta=l["eta"], T=T, mode=l["mode"], seed=l["seed"])
    else: raise ValueError(k)
    if reg is not None: reg[path] = o
    return o

def _where(exc):
    """innermost coba frame of an exception: 'file.py:function'"""
    tb = traceback.extract_tb(exc.__traceback__)
    for fr in reversed(tb):
        fn = fr.filename.replace("\\", "/")
        if "/coba/" in fn and "/tests/" not in fn:
            return f"{os.path.basename(fn)}:{fr.name}"
    return "harness"

def _msg_tag(exc):
    m = str(exc)
    if "Something went wrong in Corral OMD" in m: return "omd-no-root-bracket"
    if "An invalid update was made" in m:         return "omd-invalid-update"
    if "assumes a loss between 0 and 1" in m:     return "reward-outside-unit-interval"
    if isinstance(exc, ZeroDivisionError):         return "zero-division"
    return ""

def _innermost(l):
    while l["k"] == "misguided": l = l["inner"]
    return l

# ------------------------------------------------------------------------------------------ the checker
def check_case(spec, ctx=None, upto=None):
    """runs one history; returns [(sig, what)] -- and stops at the first violation (the learner's state is then void)"""
    _install()
    def note(name, n=1):
        if ctx: ctx.count(name, n)
    lspec   = spec["learner"]
    det     = is_deterministic(lspec)
    core    = _innermost(lspec)
    cls     = {"random": "RandomLearner", "fixed": "FixedLearner", "eps": "BanditEpsilonLearner", "ucb": "BanditUCBLearner",
               "corral": "CorralLearner"}[core["k"]]
    flags   = ""
    if core["k"] == "corral":
        flags = "/eta>=10" if core["eta"] >= 10 else "/eta<=1"
        if spec.get("meta", {}).get("xprop"):
            flags += "/logged-propensities<=1e-9"; note("oracle.histories.corral.extreme-propensities")
    universe = [decode_action(e) for e in spec["universe"]]
    uindex   = {id(o): i for i, o in enumerate(universe)}                        # (the universe keeps every object alive)
    uhash    = [action_hash(e) for e in spec["universe"]]
    akind    = spec.get("meta", {}).get("akind")
    score_copy = spec.get("scorearg") == "equal-copy"
    rounds   = spec["rounds"]
    if akind: note(f"oracle.histories.actions={akind}")

    def equal_hashes(A):
        """does the offered set hold two (different) actions whose hashable versions hash alike?"""
        hs = [uhash[uindex[id(b)]] for b in A if id(b) in uindex]
        return len(set(hs)) < len(hs)

    def fresh_action(b):
        """a fresh, equal object for an offered action (re-built from its encoding: some action types cannot be copied)"""
        i = uindex.get(id(b))
        return decode_action(spec["universe"][i]) if i is not None else _fresh(b)
    viol = []
    step = {"t": -1, "op": "init"}

    adv   = spec.get("adv")
    advst = {"rng": None, "placed": False, "want": ADV_STATE[adv["uniform"]] if adv else None}
    U_MAX = (LCG_M - 1) / LCG_M

    def adv_at_extreme():
        return adv is not None and advst["rng"] is not None and _rng_state(advst["rng"]) == advst["want"]

    def adv_probe():
        """was the extreme uniform just drawn by the targeted generator?  (counted once per history)"""
        if advst["placed"] or not adv_at_extreme(): return False
        advst["placed"] = True
        cat = "corral-base" if adv["target"] != "top" else "corral" if adv["target_kind"] == "corral" else \
              "random-learner" if adv["target_kind"] == "random" else "pmf-learner"
        note(f"adv.placed.{cat}.uniform={adv['uniform']}")
        return True

    share  = spec.get("share")
    shst   = {"edited": False, "unseen": None}       # unseen: the list holds new content that no call has seen yet

    def fail(sig, what):
        # the numerical break-down of Corral's root search under extreme importance weights does not hinge on the kind of actions, on
        # who owns the action list or on what the generators draw: its signature names the mechanism only
        xp = "/logged-propensities<=1e-9" in sig and ("@_log_barrier_omd" in sig or "ZeroDivisionError:zero-division@corral.py" in sig)
        if xp: pass
        elif akind in NEW_AKINDS: sig += "/actions:" + NEW_AKINDS[akind]
        elif equal_hashes(step.get("A") or ()): sig += "/actions:offered-set-holds-different-actions-with-equal-hashes"
        if share and shst["edited"] and not xp:
            sig += "/actions-list-edited-in-place"
            # Corral hands the list to its base learners through SafeLearner, which keeps a converted COPY of the first
            # action set it sees iff that set holds 0 or 1 (a structural feature of the history, named in the signature)
            if core["k"] == "corral" and shst.get("first01"): sig += "/first-offered-set-held-0-or-1"
            what = f"{what} [the caller offers ONE list object and edited it in place ({share['edit']}, {share['point']})]"
        if adv_at_extreme() and not xp:
            sig += "/uniform=" + ("largest" if adv["uniform"] == "max" else "0.0")
            what = f"{what} [the {adv['draw']}-th draw of the generator of learner '{adv['target']}' is {U_MAX if adv['uniform'] == 'max' else 0.0!r}]"
        viol.append((sig, f"round {step['t']} {step['op']}: {what}"))
        spec["_failed_at"] = step["t"]
        return viol

    reg = {}
    try:
        learner = build(lspec, reg)
    except BaseException as e:
        return fail(f"{cls}.__init__/raise:{type(e).__name__}@{_where(e)}", f"{type(e).__name__}: {e}")
    if adv:
        note("adv.histories")
        advst["rng"] = _own_rng(reg.get(adv["target"]))
        if advst["rng"] is not None: note("adv.generator_found")
    sloppy  = any(abs(sum(pmf) - 1) > 1e-12 for pmf in _fixed_pmfs(lspec))       # only in adversarial-seed histories
    sum_tol = 1e-3 if sloppy else 1e-9

    twin = None
    if share:
        note(f"share.histories.{lspec['k']}")
        AL = []                                                              # THE actions list of this caller
        XC = {"list": [], "dict": {}}.get(share["context"])                   # THE context object of this caller (or None: per-round values)
        if det:
            try:    twin = build(lspec)
            except BaseException as e:
                return fail(f"{cls}.__init__/raise:{type(e).__name__}@{_where(e)}", f"{type(e).__name__}: {e}")

    def offer(values, first_call):
        """the caller puts the action set into its list (in place)"""
        how = _edit_in_place(AL, values, share["edit"])
        if how is None or not shst.get("offered"): return
        shst["edited"] = True
        shst["unseen"] = first_call
        note(f"share.same-list-new-content.{how}")

    def seen(op):
        if share and shst["unseen"]:
            note(f"share.same-list-new-content.first-seen-by={op}")
            shst["unseen"] = None
        if share: shst["offered"] = True

    def twin_scores(x, A):
        """the policy of the twin (same history, fresh equal copies of everything it is handed)"""
        x2, A2 = _fresh(x), [fresh_action(b) for b in A]
        return [twin.score(x2, A2, b2) for b2 in A2]

    prevA = None
    tiny_iw = False
    for t, rd in enumerate(rounds):
        step["t"] = t
        A = [universe[i] for i in rd["A"]]
        x = rd["x"]
        last = (t == len(rounds) - 1)
        if share:
            if t == 0 or share["point"] == "before-predict": offer(A, "predict")
            A = AL
            if t == 0: shst["first01"] = any(isinstance(b, (int, float)) and b in (0, 1) for b in A)
            if XC is not None:                                                # the context object is re-filled in place as well
                if isinstance(XC, list): XC[:] = [t % 3, rd["x"] if isinstance(rd["x"], (int, str)) else 0]
                else: XC.clear(); XC.update({"t": t % 3, "k" + str(t % 2): 1})
                x = XC
        if prevA is not None and prevA != rd["A"]: note("oracle.actions.changed_between_rounds")
        prevA = rd["A"]
        step["A"] = A                                                         # (shared histories: THE list, always current)
        if equal_hashes(A): note("oracle.actions.equal-hash-pair-offered")
        try:
            # -------- predict
            step["op"] = "predict"
            adv_now = adv is not None and adv["target"] == "top" and t == adv["draw"] - 1
            if adv_now and core["k"] == "corral":
                try:    w_sum = sum(reg["top"]._p_bars)
                except Exception: w_sum = None
            if twin is not None: want = twin_scores(x, A)
            pred = learner.predict(x, A)
            seen("predict")
            note("oracle.predict")
            if twin is not None:
                pos = next((i for i, b in enumerate(A) if b is pred[0]), None)
                if pos is None: pos = next(i for i, b in enumerate(A) if b == pred[0])
                note("share.twin.predict-prob==fresh-copies")
                if not (_num(pred[1]) and abs(pred[1] - want[pos]) <= 1e-12):
                    return fail(f"{cls}.predict/prob!=policy-of-same-history-offered-fresh-equal-objects",
                                f"predict returned {pred[:2]!r} over {A!r}; a twin learner with the same history scores {want}")
            if last: note("oracle.final_predict")
            a, p = pred[0], pred[1]
            kw = pred[2] if len(pred) > 2 else {}
            if adv and adv_probe() and adv_now:
                # reach accounting: did the extreme draw meet the pmf shapes in which it matters?
                u, end = adv["uniform"], (-1 if adv["uniform"] == "max" else 0)
                edge = "last-action-prob=0" if u == "max" else "first-action-prob=0"
                if core["k"] == "corral":
                    gap = u == "max" and w_sum is not None and w_sum <= U_MAX
                    if gap: note("adv.reach.corral.uniform=max.draw>=sum(weights)")
                    try:    zero_edge = not _member(A[end], kw["info"][0])
                    except Exception: zero_edge = False
                    if zero_edge: note(f"adv.reach.corral.uniform={u}.{edge}")
                    if gap and zero_edge: note("adv.reach.corral.uniform=max.draw>=sum(weights)+last-action-prob=0")
                elif core["k"] != "random":
                    zero_edge = learner.score(x, A, A[end]) == 0
                    if zero_edge: note(f"adv.reach.pmf-learner.uniform={u}.{edge}")
                    if zero_edge and u == "max" and core["k"] == "fixed" and sum(core["pmf"]) <= U_MAX:
                        note("adv.reach.fixed.uniform=max.draw>=sum(pmf)+last-action-prob=0")
            if not last:
                # -------- learn (on-policy: what was predicted; logged: another member of the offered set + its logged probability)
                step["op"] = "learn"
                if rd["log"] is None:
                    pos = next(i for i, b in enumerate(A) if b is a or b == a)
                    la, lp = a, p
                else:
                    pos, lp = rd["log"]; la = A[pos]
                    note("oracle.learn.logged")
                    if score_copy: la = fresh_action(la); note("oracle.learn.logged-action-is-equal-copy")   # (as read from a log)
                    if lp <= 1e-3: tiny_iw = True
                r = rd["r"][pos]
                if r in (0, 1): note("oracle.reward.boundary")
                _STEPS[0] = 0
                learner.learn(x, la, r, lp, **kw)
                if _STEPS[0] > _STEPS[1]: _STEPS[1] = _STEPS[0]
                if twin is not None:
                    step["op"] = "learn(twin)"
                    twin.learn(_fresh(x), fresh_action(A[pos]), r, lp)
                if share and share["point"] == "before-score":
                    offer([universe[i] for i in rounds[t+1]["A"]], "score")    # the next set arrives before the score calls
                note("oracle.learn")
                if core["k"] == "corral":
                    note("oracle.learn.corral")
                    note("monitor.omd.line_events", _STEPS[0])
                    if core["eta"] >= 10: note("oracle.learn.corral.eta>=10")
            # -------- score for every offered action
            step["op"] = "score"
            if adv:
                scores = []
                for b in A:
                    scores.append(learner.score(x, A, b)); adv_probe()      # (Corral's score lets its base learners draw)
            else:
                scores = []
                for b in list(A):
                    if score_copy: b = fresh_action(b); note("oracle.score.asked-with-equal-copy")
                    scores.append(learner.score(x, A, b)); seen("score")
            note("oracle.scores")
            if twin is not None:
                want = twin_scores(x, A)
                note("share.twin.score==fresh-copies")
                if len(want) != len(scores) or any(not _num(s1) or abs(s1 - s2) > 1e-12 for s1, s2 in zip(scores, want)):
                    return fail(f"{cls}.score/!=policy-of-same-history-offered-fresh-equal-objects",
                                f"scores {scores} over {A!r}; a twin learner with the same history scores {want}")
            if det:
                note("oracle.scores.sum_to_one")
                if any(not _num(s) or s < 0 for s in scores):
                    return fail(f"{cls}.score/negative-or-nan", f"scores {scores} over {A}")
                if abs(sum(scores) - 1) > sum_tol:
                    return fail(f"{cls}.score/sum!=1", f"scores {scores} sum to {sum(scores)!r} over {A}")
        except ContractBroken as e:
            return fail(e.tag + (flags if e.tag.startswith("CorralLearner") else ""), str(e))
        except StepBudget as e:
            return fail(f"CorralLearner.learn/non-termination:>1e6-line-events@_log_barrier_omd{flags}", f"{e}; learner={core}")
        except WallClock:
            raise
        except BaseException as e:
            if isinstance(e, (KeyboardInterrupt, SystemExit)): raise
            tag = _msg_tag(e)
            w = _where(e)
            fl = flags if w.startswith("corral.py") else ""
            return fail(f"{cls}.{step['op']}/raise:{type(e).__name__}{':'+tag if tag else ''}@{w}{fl}",
                        f"{type(e).__name__}: {str(e)[:500]}")
    return viol

def _alarm(signum, frame): raise WallClock()

def case_key(spec):
    m = spec["meta"]
    return (learner_sig(spec["learner"]), m["akind"], m["dyn"], m["rpat"], m["logm"] + ("+xprop" if m.get("xprop") else ""), tuple(m.get("adv", ())), tuple(m.get("share", ())))

def run_shard(ctx):
    _install()
    signal.signal(signal.SIGALRM, _alarm)
    # the adversarial-seed histories come first (short; they must not be starved by the time budget), from a stream of
    # their own so that the general histories are the same as without them; j enumerates (draw k, which uniform)
    import random
    n_adv  = min(ctx.n, ADV_CASES[ctx.tier] // ctx.nshards)
    advrng = random.Random(f"{ctx.seed}/C16/adv/{ctx.tier}/{ctx.shard}")
    # then the shared-object histories (same reasons, own stream)
    n_shr  = min(ctx.n - n_adv, SHARE_CASES[ctx.tier] // ctx.nshards)
    shrrng = random.Random(f"{ctx.seed}/C16/share/{ctx.tier}/{ctx.shard}")
    i = 0
    while i < ctx.n and ctx.time_left() > 0:
        is_adv = i < n_adv
        if is_adv:              spec = gen_adv_case(advrng, ctx.shard + ctx.nshards * i)
        elif i < n_adv + n_shr: spec = gen_share_case(shrrng, ctx.shard + (i - n_adv))
        else:                   spec = gen_case(ctx.rng)
        n_learn = len(spec["rounds"]) - 1
        signal.setitimer(signal.ITIMER_REAL, CASE_WALL_S)
        try:
            v = check_case(spec, ctx)
        except WallClock:
            ctx.note_inconclusive(f"wall-clock backstop ({CASE_WALL_S}s) fired in a history of learner {spec['learner']}")
            v = []
        finally:
            signal.setitimer(signal.ITIMER_REAL, 0)
        ctx.case(case_key(spec), nontrivial=n_learn >= 3)
        ctx.count(f"histories.top={spec['learner']['k']}")
        if i < 2 or n_adv <= i < n_adv + 2 or n_adv + n_shr <= i < n_adv + n_shr + 1: ctx.sample({"learner": spec["learner"], "meta": spec["meta"], "n_rounds": n_learn, "first_rounds": spec["rounds"][:2]})
        for sig, what in v:
            wit = dict(spec)
            k = wit.pop("_failed_at", None)
            if k is not None and k >= 0: wit["rounds"] = spec["rounds"][:k+2]      # the prefix reproduces the failure (the last entry is never learned)
            ctx.violation(sig, what, wit)
        spec.pop("_failed_at", None)
        i += 1
    ctx.count("histories", i)
    for k, n in _CNT.items(): ctx.count(k, n)
    ctx.extra["max_line_events_in_one_learn"] = _STEPS[1]
    if i < ctx.n: ctx.extra["histories_skipped_for_time"] = ctx.n - i
    if ctx.tier == "thorough" and ctx.shard == 0:
        _repo_tests_under_contracts(ctx)

# ------------------------------------------------------------------------------------------ extra workload (thorough)
def _repo_tests_under_contracts(ctx):
    """coba's own learner tests with the contracts switched on (DESIGN 2.7); reported separately"""
    repo = os.environ.get("VERIF_REPO_DIR", "/repo")
    tests = [os.path.join(repo, "coba", "tests", f) for f in ("test_learners_bandit.py", "test_learners_corral.py", "test_learners_misguided.py")]
    tests = [t for t in tests if os.path.exists(t)]
    if not tests: return
    try:
        p = subprocess.run([sys.executable, "-m", "pytest", "-q", "-p", "no:cacheprovider", "-p", "vf.c16_pytest", *tests],
                           cwd=repo, capture_output=True, text=True, timeout=600)
    except subprocess.TimeoutExpired:
        ctx.note_inconclusive("repo learner tests under contracts: timeout"); return
    lines = [l for l in p.stdout.strip().splitlines() if not l.startswith("C16-CONTRACT-COUNTERS")]
    ctx.extra["repo_tests_under_contracts"] = lines[-1] if lines else ""
    for l in p.stdout.splitlines():
        if l.startswith("C16-CONTRACT-COUNTERS "):
            ctx.extra["repo_tests_contract_evaluations"] = json.loads(l.split(" ", 1)[1])
    broken = [l for l in p.stdout.splitlines() if "ContractBroken" in l and l.startswith(("E ", "FAILED"))]
    ctx.count("repo_tests.runs")
    if broken:
        tags = sorted({l.split("ContractBroken:")[-1].strip().split(":")[0] for l in broken if "ContractBroken:" in l})
        for tg in tags or ["?"]:
            ctx.violation(f"repo-tests-under-contracts/{tg}", "\n".join(broken[:10]), {"tests": tests})
    elif p.returncode not in (0,):
        ctx.extra["repo_tests_under_contracts_rc"] = p.returncode

def replay(witness):
    return check_case(witness)
